"""Structural events of the tree data structure, extracted from a function's CFG.

DET(P,X)  P.children.remove(X)          ATT(Q,X)  Q.children.append(X) / insert(i, X)
PAR(X,Q)  X.parent = Q                  CLR(Q)    Q.children = <expr>   (PERM if a sort of itself)
DATA(X,k) X.data[k] = v / X.data[k] op= v / del X.data[k]
NEW(v)    v = trees.Tree(...)  (fresh node bound to a local access path)
"""
import ast

from .core import AnalysisError, Unrecognised, path, unparse, root_name, walk_own


class Event(object):
    def __init__(self, kind, node, **kw):
        self.kind = kind
        self.node = node          # CFG node id
        self.__dict__.update(kw)

    def __repr__(self):
        d = dict((k, v) for k, v in self.__dict__.items() if k not in ('kind', 'node', 'ast'))
        return '<%s @%d %s>' % (self.kind, self.node, d)


def _children_owner(e):
    """If e is `<X>.children` return the ast of X."""
    if isinstance(e, ast.Attribute) and e.attr == 'children':
        return e.value
    return None


def is_tree_ctor(prog, func, call):
    if not isinstance(call, ast.Call):
        return False
    c = prog.callee(call, func)
    return c == ('trees', 'Tree.__init__')


def mover_helper(prog, g):
    """Is g a straight-line helper that only re-links nodes given as parameters (e.g. _reattach(node, target))?
    Returns its own events or None."""
    if g.cls or g.kwarg or g.vararg or not g.params:
        return None
    cfg = g.cfg
    if any(n.kind in ('iter', 'test') for n in cfg.nodes):
        return None
    evs = link_events(prog, g, inline=False)
    if not evs or any(e.kind == 'OTHER' for e in evs):
        return None
    for e in evs:
        for k in ('x', 'q', 'p'):
            v = e.__dict__.get(k)
            if v is not None and not (isinstance(v, ast.Constant) and v.value is None) and root_name(v) not in g.params:
                return None
    # nothing else of interest may happen in the helper
    for n in cfg.eval_nodes():
        if n.kind == 'stmt' and isinstance(n.ast, (ast.Return,)) and n.ast.value is not None:
            return None
    return evs


class _Subst(ast.NodeTransformer):
    def __init__(self, mapping):
        self.mapping = mapping

    def visit_Name(self, n):
        if n.id in self.mapping:
            import copy
            return copy.deepcopy(self.mapping[n.id])
        return n


def link_events(prog, func, inline=True):
    """All structural events of `func`, in CFG node order.  Calls to straight-line mover helpers are
    replaced by the helper's events with the arguments substituted (one level)."""
    cfg = func.cfg
    evs = []
    if inline:
        import copy
        for n in cfg.eval_nodes():
            if n.kind != 'stmt' or not isinstance(n.ast, ast.Expr) or not isinstance(n.ast.value, ast.Call):
                continue
            c = prog.callee(n.ast.value, func)
            if not c or c == (func.module.name, func.qual):
                continue
            g = prog.func(c[0], c[1], required=False)
            if g is None or g.fq == func.fq:
                continue
            hev = mover_helper(prog, g)
            if not hev or len(n.ast.value.args) != len(g.params) or n.ast.value.keywords:
                continue
            mapping = {}
            for prm, arg in zip(g.params, n.ast.value.args):
                if path(arg) is None and not isinstance(arg, ast.Constant):
                    # a computed argument is evaluated once and bound to the parameter: stand-in name
                    arg = ast.copy_location(ast.Name(id='%s@%d' % (prm, n.ast.value.lineno), ctx=ast.Load()), arg)
                mapping[prm] = arg
            for e in hev:
                d = dict((k, v) for k, v in e.__dict__.items() if k not in ('kind', 'node'))
                for k in ('x', 'q', 'p', 'value'):
                    if isinstance(d.get(k), ast.AST):
                        d[k] = _Subst(mapping).visit(copy.deepcopy(d[k]))
                d['ast'] = n.ast.value
                d['via'] = g.fq
                evs.append(Event(e.kind, n.id, **d))
    for n in cfg.eval_nodes():
        if n.kind != 'stmt':
            # loop headers / tests do not contain link events in this code base; verify
            for root in cfg.exprs(n.id):
                for sub in ast.walk(root):
                    if isinstance(sub, ast.Call) and isinstance(sub.func, ast.Attribute) \
                            and _children_owner(sub.func.value) is not None \
                            and sub.func.attr in ('append', 'remove', 'insert', 'extend', 'pop', 'clear'):
                        raise Unrecognised('structural mutation inside a condition/loop header in %s:%d'
                                            % (func.fq, n.lineno))
            continue
        st = n.ast
        # calls
        for sub in _walk_stmt(st):
            if isinstance(sub, ast.Call) and isinstance(sub.func, ast.Attribute):
                owner = _children_owner(sub.func.value)
                if owner is None and isinstance(sub.func.value, ast.Name) and sub.func.attr in (
                        'append', 'insert', 'remove', 'sort', 'extend', 'pop', 'clear', 'reverse'):
                    # a local alias of a stored child list:  siblings = parent.children; siblings.append(x)
                    d = single_def(func, sub.func.value.id, n.id)
                    if d and d[0] != 'param' and isinstance(d[1], ast.AST) and _children_owner(d[1]) is not None \
                            and path(d[1]) is not None:
                        from .core import no_kill_between
                        if no_kill_between(cfg, d[0], n.id, [path(d[1])]):
                            owner = _children_owner(d[1])
                if owner is None:
                    continue
                m = sub.func.attr
                if m == 'append' and len(sub.args) == 1:
                    evs.append(Event('ATT', n.id, q=owner, x=sub.args[0], ast=sub))
                elif m == 'insert' and len(sub.args) == 2:
                    evs.append(Event('ATT', n.id, q=owner, x=sub.args[1], ast=sub))
                elif m == 'remove' and len(sub.args) == 1:
                    evs.append(Event('DET', n.id, p=owner, x=sub.args[0], ast=sub))
                elif m == 'sort':
                    evs.append(Event('PERM', n.id, q=owner, value=sub, ast=sub))
                elif m == 'extend' and len(sub.args) == 1 and isinstance(sub.args[0], (ast.Tuple, ast.List)):
                    for el in sub.args[0].elts:
                        evs.append(Event('ATT', n.id, q=owner, x=el, ast=sub))
                elif m in ('extend', 'pop', 'clear', 'reverse'):
                    evs.append(Event('OTHER', n.id, q=owner, how=m, ast=sub))
        if isinstance(st, ast.Assign):
            for t in st.targets:
                elts = t.elts if isinstance(t, (ast.Tuple, ast.List)) else [t]
                vals = st.value.elts if isinstance(t, (ast.Tuple, ast.List)) and isinstance(st.value, (ast.Tuple, ast.List)) \
                    and len(st.value.elts) == len(elts) else [st.value] * len(elts)
                unpacked = isinstance(t, (ast.Tuple, ast.List)) and vals[0] is st.value
                for tt, vv in zip(elts, vals):
                    if isinstance(tt, ast.Attribute) and tt.attr == 'parent':
                        if unpacked:
                            evs.append(Event('OTHER', n.id, q=tt.value, how='unpacked-parent', ast=st))
                            continue
                        evs.append(Event('PAR', n.id, x=tt.value, q=vv, ast=st))
                    elif isinstance(tt, ast.Attribute) and tt.attr == 'children':
                        kind = 'CLR'
                        v = vv
                        if isinstance(v, ast.Call) and isinstance(v.func, ast.Name) and v.func.id == 'sorted' \
                                and v.args and path(_children_owner(v.args[0]) or ast.Constant(0)) == path(tt.value):
                            kind = 'PERM'
                        evs.append(Event(kind, n.id, q=tt.value, value=v, ast=st))
                    elif isinstance(tt, ast.Subscript) and _children_owner(tt.value) is not None:
                        evs.append(Event('OTHER', n.id, q=_children_owner(tt.value), how='setitem', ast=st))
        elif isinstance(st, ast.AugAssign):
            if isinstance(st.target, ast.Attribute) and st.target.attr == 'children':
                evs.append(Event('OTHER', n.id, q=st.target.value, how='augassign', ast=st))
            if isinstance(st.target, ast.Attribute) and st.target.attr == 'parent':
                evs.append(Event('OTHER', n.id, q=st.target.value, how='augassign-parent', ast=st))
        elif isinstance(st, ast.Delete):
            for t in st.targets:
                if isinstance(t, ast.Subscript) and _children_owner(t.value) is not None:
                    evs.append(Event('OTHER', n.id, q=_children_owner(t.value), how='delitem', ast=st))
                if isinstance(t, ast.Attribute) and t.attr in ('children', 'parent'):
                    evs.append(Event('OTHER', n.id, q=t.value, how='delattr', ast=st))
    return evs


def _walk_stmt(st):
    """Walk a simple statement (not into nested defs; a nested definition itself does nothing until it is called)."""
    if isinstance(st, (ast.FunctionDef, ast.AsyncFunctionDef, ast.ClassDef)):
        return
    yield st
    for x in walk_own(st):
        yield x


def data_key(prog, func, sub):
    """Resolve the key of `X.data[<key>]`: a string constant, a local bound once to a string
    constant, or the loop variable of a for over a constant list -> list of possible keys."""
    s = sub.slice
    if isinstance(s, ast.Constant) and isinstance(s.value, str):
        return [s.value]
    if isinstance(s, ast.Name):
        # local bound once to a constant
        defs = []
        for n in walk_own(func.node):
            if isinstance(n, ast.Assign):
                for t in n.targets:
                    if isinstance(t, ast.Name) and t.id == s.id:
                        defs.append(n.value)
            elif isinstance(n, (ast.For, ast.comprehension)):
                if isinstance(n.target, ast.Name) and n.target.id == s.id:
                    defs.append(('iter', n.iter))
            elif isinstance(n, ast.AugAssign) and isinstance(n.target, ast.Name) and n.target.id == s.id:
                defs.append(None)
        if len(defs) == 1:
            d = defs[0]
            if isinstance(d, ast.Constant) and isinstance(d.value, str):
                return [d.value]
            if isinstance(d, tuple):
                it = d[1]
                try:
                    vals = _const_list(prog, func, it)
                except AnalysisError:
                    vals = None
                if vals is not None and all(isinstance(v, str) for v in vals):
                    return list(vals)
    return None


def _const_list(prog, func, e):
    if isinstance(e, (ast.List, ast.Tuple)) and all(isinstance(x, ast.Constant) for x in e.elts):
        return [x.value for x in e.elts]
    if isinstance(e, ast.Name) and e.id not in func.locals and e.id in func.module.consts:
        return prog.const_value(func.module.name, e.id)
    if isinstance(e, ast.Attribute) and isinstance(e.value, ast.Name) \
            and e.value.id in func.module.aliases and e.value.id not in func.locals:
        return prog.const_value(func.module.aliases[e.value.id], e.attr)
    return None


def data_events(prog, func):
    """Stores into / deletions from `X.data[k]` (own statements only, no callees)."""
    cfg = func.cfg
    evs = []
    for n in cfg.eval_nodes():
        if n.kind == 'stmt':
            st = n.ast
            targets = []
            if isinstance(st, ast.Assign):
                for t in st.targets:
                    targets.extend(t.elts if isinstance(t, (ast.Tuple, ast.List)) else [t])
                val = st.value
            elif isinstance(st, ast.AugAssign):
                targets = [st.target]
                val = st
            elif isinstance(st, ast.Delete):
                targets = list(st.targets)
                val = None
            else:
                targets = []
                val = None
            for t in targets:
                if isinstance(t, ast.Subscript) and isinstance(t.value, ast.Attribute) \
                        and t.value.attr == 'data':
                    keys = data_key(prog, func, t)
                    evs.append(Event('DATA', n.id, x=t.value.value, keys=keys, value=val, ast=st,
                                     aug=isinstance(st, ast.AugAssign), delete=isinstance(st, ast.Delete)))
                elif isinstance(t, ast.Attribute) and t.attr == 'data':
                    evs.append(Event('DATAALL', n.id, x=t.value, value=val, ast=st))
            # mutating calls on data dict: X.data.update(...), X.data.pop(...)
            for sub in _walk_stmt(st):
                if isinstance(sub, ast.Call) and isinstance(sub.func, ast.Attribute) \
                        and isinstance(sub.func.value, ast.Attribute) and sub.func.value.attr == 'data' \
                        and sub.func.attr in ('update', 'pop', 'clear', 'setdefault', 'popitem'):
                    evs.append(Event('DATAALL', n.id, x=sub.func.value.value, value=None, ast=st))
    return evs


def fresh_paths(prog, func):
    """Access paths that denote nodes created in this function: `v = trees.Tree(...)`,
    and `L[-1]` when every L.append(...) argument is a Tree(...) call."""
    fresh = {}
    appended = {}
    for n in walk_own(func.node):
        if isinstance(n, ast.Assign) and is_tree_ctor(prog, func, n.value):
            for t in n.targets:
                p = path(t)
                if p:
                    fresh.setdefault(p, []).append(n)
        if isinstance(n, ast.Call) and isinstance(n.func, ast.Attribute) and n.func.attr == 'append' \
                and isinstance(n.func.value, ast.Name) and len(n.args) == 1:
            appended.setdefault(n.func.value.id, []).append(n.args[0])
    for lst, args in appended.items():
        if args and all(is_tree_ctor(prog, func, a) for a in args):
            fresh[lst + '[-1]'] = args
    return fresh


def strip_copy(e):
    """list(x) / tuple(x) / iter(x) hand out the same elements in the same order as x: for the question *which*
    values a loop variable takes they are transparent."""
    while isinstance(e, ast.Call) and isinstance(e.func, ast.Name) and e.func.id in ('list', 'tuple', 'iter') \
            and len(e.args) == 1 and not e.keywords:
        e = e.args[0]
    return e


def name_defs(func, name):
    """All (cfg node id, value ast | ('iter', iter ast, target ast) | None) definitions of a local."""
    cfg = func.cfg
    out = []
    for n in cfg.eval_nodes():
        if n.kind == 'stmt':
            st = n.ast
            if isinstance(st, ast.Assign):
                for t in st.targets:
                    if isinstance(t, ast.Name) and t.id == name:
                        out.append((n.id, st.value))
                    elif isinstance(t, (ast.Tuple, ast.List)):
                        for i, tt in enumerate(t.elts):
                            if isinstance(tt, ast.Name) and tt.id == name:
                                v = st.value
                                if isinstance(v, (ast.Tuple, ast.List)) and len(v.elts) == len(t.elts):
                                    out.append((n.id, v.elts[i]))
                                else:
                                    out.append((n.id, ('unpack', v, i)))
            elif isinstance(st, ast.AugAssign):
                if isinstance(st.target, ast.Name) and st.target.id == name:
                    out.append((n.id, ('aug', st)))
            elif isinstance(st, (ast.Import, ast.ImportFrom)):
                pass
        elif n.kind == 'iter':
            for sub in ast.walk(n.ast.target):
                if isinstance(sub, ast.Name) and sub.id == name:
                    out.append((n.id, ('iter', strip_copy(n.ast.iter), n.ast.target)))
        elif n.kind == 'with':
            for item in n.ast.items:
                if item.optional_vars is not None:
                    for sub in ast.walk(item.optional_vars):
                        if isinstance(sub, ast.Name) and sub.id == name:
                            out.append((n.id, ('with', item.context_expr)))
        elif n.kind == 'except':
            pass
    return out


def single_def(func, name, at):
    """The unique definition of local `name` reaching CFG node `at`, if there is exactly one
    definition in the function that dominates `at` and no other definition lies between."""
    defs = name_defs(func, name)
    if name in func.params:
        if not defs:
            return ('param', None)
    cfg = func.cfg
    dom = [d for d in defs if cfg.dominates(d[0], at) and d[0] != at]
    if not dom:
        return None
    # the closest dominating def
    best = None
    for d in dom:
        if best is None or cfg.dominates(best[0], d[0]):
            best = d
    # no other def between best and at
    btw = cfg.between(best[0], at)
    for d in defs:
        if d[0] != best[0] and d[0] in btw:
            return None
    return best


def resolve(func, e, at, depth=0):
    """Access path of expression e at node `at`, following single local definitions whose
    right-hand side is itself an access path (alias resolution): parent -> subtree.parent."""
    p = path(e)
    if p is None:
        return None
    if depth > 4:
        return p
    r = root_name(e)
    if r is None:
        return p
    d = single_def(func, r, at)
    if d is None or d[0] == 'param':
        return p
    val = d[1]
    if isinstance(val, ast.AST):
        vp = path(val)
        if vp is not None and isinstance(val, (ast.Attribute, ast.Subscript)):
            # substitute, provided the rhs path is not killed between def and use
            from .core import no_kill_between
            if no_kill_between(func.cfg, d[0], at, [vp]):
                rp = resolve(func, val, d[0], depth + 1) or vp
                return rp + p[len(r):]
    return p
