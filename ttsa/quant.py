"""Search loops as boolean programs.

A function that answers "is there an element with property P?" (or "is there none?") by looping over a collection -
with early returns, flags, break / continue, for-else, nested loops - is abstracted to a finite boolean program:

    state = (CFG node, values of the local boolean flags, P of the current element, `seen`)

`seen` records whether *any* element of the collection has P: it is set when an element is bound by the loop that
feeds the predicate (its P is chosen nondeterministically at that point, whether or not the code then looks at
it), and when the code leaves a loop early (break, return) the unvisited rest is given a nondeterministic P as well.
All reachable states are explored (the state space is finite); at every return the returned truth value is compared
with what the specification requires as a function of `seen`.  Anything the abstraction cannot follow (a condition on
something other than P or a tracked flag) raises Unrecognised: the caller reports no verdict.
"""
import ast

from .core import Unrecognised, norm_test, unparse, _expand_fact


class SearchLoop(object):
    def __init__(self, func, is_atom, element_loop=None, element_names=()):
        """is_atom(fact) -> True if the normal-form fact says P(current element) (positive sense),
        None if it does not talk about P.  element_loop(node) -> True for the `iter` node that binds the element."""
        self.f = func
        self.cfg = func.cfg
        self.is_atom = is_atom
        self.element_loop = element_loop
        # names whose value depends on the current element: a condition on them may well imply (not) P
        dep = set(element_names)
        changed = True
        while changed:
            changed = False
            for n in func.cfg.eval_nodes():
                if n.kind == 'stmt' and isinstance(n.ast, ast.Assign):
                    if dep & set(x.id for x in ast.walk(n.ast.value) if isinstance(x, ast.Name)):
                        for t in n.ast.targets:
                            for x in ast.walk(t):
                                if isinstance(x, ast.Name) and x.id not in dep:
                                    dep.add(x.id)
                                    changed = True
        self.dependent = dep

    # ---- conditions
    def _atom_sense(self, expr, pol):
        """+1 if (expr, pol) asserts P, -1 if it asserts not P, None if it is not about P."""
        fa = norm_test(expr, pol)
        out = [(fa, 0)]
        _expand_fact(self.f, fa, 0, out)
        for (g, _) in out:
            r = self.is_atom(g)
            if r is not None:
                return 1 if r else -1
        # the negation may be the recognisable form
        fb = norm_test(expr, not pol)
        out = [(fb, 0)]
        _expand_fact(self.f, fb, 0, out)
        for (g, _) in out:
            r = self.is_atom(g)
            if r is not None:
                return -1 if r else 1
        return None

    def _flag_cond(self, expr, pol, flags):
        e = expr
        while isinstance(e, ast.UnaryOp) and isinstance(e.op, ast.Not):
            e = e.operand
            pol = not pol
        if isinstance(e, ast.Name) and e.id in flags:
            v = flags[e.id]
            if v is None:
                raise Unrecognised('flag `%s` has no known value' % e.id)
            return v == pol
        if isinstance(e, ast.Compare) and len(e.ops) == 1 and isinstance(e.left, ast.Name) and e.left.id in flags \
                and isinstance(e.comparators[0], ast.Constant) and isinstance(e.comparators[0].value, bool):
            v = flags[e.left.id] == e.comparators[0].value
            if isinstance(e.ops[0], (ast.NotEq, ast.IsNot)):
                v = not v
            return v == pol
        return None

    def _value(self, e, flags, cur):
        if isinstance(e, ast.Constant) and isinstance(e.value, bool):
            return e.value
        if isinstance(e, ast.Name) and e.id in flags and flags[e.id] is not None:
            return flags[e.id]
        if isinstance(e, ast.UnaryOp) and isinstance(e.op, ast.Not):
            v = self._value(e.operand, flags, cur)
            return None if v is None else (not v)
        s = self._atom_sense(e, True)
        if s is not None and cur is not None:
            return cur if s == 1 else (not cur)
        return None

    # ---- exploration
    def explore(self):
        """set of (returned truth value, seen, cfg node of the return)."""
        cfg = self.cfg
        # tracked flags: locals that are only ever assigned booleans / P
        flags0 = {}
        for n in cfg.eval_nodes():
            if n.kind == 'stmt' and isinstance(n.ast, ast.Assign) and len(n.ast.targets) == 1 \
                    and isinstance(n.ast.targets[0], ast.Name):
                flags0.setdefault(n.ast.targets[0].id, []).append(n.ast.value)
        tracked = set()
        for nm, vals in flags0.items():
            if all((isinstance(v, ast.Constant) and isinstance(v.value, bool)) or self._atom_sense(v, True) is not None
                   or (isinstance(v, ast.UnaryOp) and isinstance(v.op, ast.Not)) for v in vals):
                tracked.add(nm)
        el_loops = set(n.id for n in cfg.eval_nodes() if n.kind == 'iter' and self.element_loop and self.element_loop(n))
        if not el_loops:
            raise Unrecognised('no loop binds the element the predicate is about')
        outer_loops = set()
        for l in el_loops:
            outer_loops |= set(cfg.nodes[l].loops)
        PEND = '<unvisited P below the current outer element>'
        start = (cfg.entry, tuple(sorted([(t, None) for t in tracked] + [(PEND, False)])), None, False)
        seen_states = set([start])
        work = [start]
        results = set()
        steps = 0
        while work:
            steps += 1
            if steps > 200000:
                raise Unrecognised('state space too large')
            (n, fl, cur, seen) = work.pop()
            flags = dict(fl)
            node = cfg.nodes[n]

            def push(s, flags_=None, cur_=cur, seen_=seen):
                st = (s, tuple(sorted((flags_ if flags_ is not None else flags).items())), cur_, seen_)
                if st not in seen_states:
                    seen_states.add(st)
                    work.append(st)
            if node.kind == 'stmt' and isinstance(node.ast, ast.Return):
                v = self._value(node.ast.value, flags, cur) if node.ast.value is not None else None
                if v is None:
                    raise Unrecognised('returned value `%s` is not a tracked truth value' % (
                        unparse(node.ast.value) if node.ast.value is not None else 'None'))
                rests = [False, True] if node.loops else [False]
                for r in rests:
                    results.add((v, seen or r or bool(flags.get(PEND)), n))
                continue
            if node.kind == 'stmt' and isinstance(node.ast, ast.Break):
                inner_break = bool(node.loops) and node.loops[-1] in el_loops
                for r in (False, True):
                    for s in cfg.succ[n]:
                        nf = dict(flags)
                        if inner_break:
                            nf[PEND] = False    # the unvisited rest of this element list is accounted for by r
                        push(s, nf, seen_=seen or r or (bool(flags.get(PEND)) and not inner_break))
                continue
            if node.kind == 'stmt' and isinstance(node.ast, ast.Assign) and len(node.ast.targets) == 1 \
                    and isinstance(node.ast.targets[0], ast.Name) and node.ast.targets[0].id in tracked:
                v = self._value(node.ast.value, flags, cur)
                if v is None:
                    raise Unrecognised('flag assignment `%s` not followed' % unparse(node.ast))
                nf = dict(flags)
                nf[node.ast.targets[0].id] = v
                for s in cfg.succ[n]:
                    if cfg.nodes[s].kind != 'except':
                        push(s, nf)
                continue
            if node.kind == 'stmt' and isinstance(node.ast, (ast.AugAssign,)) and isinstance(node.ast.target, ast.Name) \
                    and node.ast.target.id in tracked:
                raise Unrecognised('flag `%s` is updated arithmetically' % node.ast.target.id)
            if node.kind == 'iter':
                inside = [s for s in cfg.succ[n] if n in cfg.nodes[s].loops]
                outside = [s for s in cfg.succ[n] if n not in cfg.nodes[s].loops and cfg.nodes[s].kind != 'except']
                if n in outer_loops:
                    # arriving here with an unvisited P element below the previous outer element: it exists all the same
                    seen2 = seen or bool(flags.get(PEND))
                    for s in inside:
                        for pd in (False, True):
                            nf = dict(flags)
                            nf[PEND] = pd
                            push(s, nf, seen_=seen2)
                    for s in outside:
                        nf = dict(flags)
                        nf[PEND] = False
                        push(s, nf, seen_=seen2)
                    continue
                for s in inside:
                    if n in el_loops:
                        for p in (False, True):
                            push(s, cur_=p, seen_=seen or p)
                    else:
                        push(s)
                for s in outside:
                    if n in el_loops:
                        nf = dict(flags)
                        nf[PEND] = False        # every element below this outer element was visited
                        push(s, nf, cur_=None)
                    else:
                        push(s, cur_=cur)
                continue
            if node.kind == 'test' and isinstance(node.owner, ast.While):
                raise Unrecognised('while loop')
            if node.kind == 'assume':
                sense = self._atom_sense(node.ast, node.pol)
                if sense is not None:
                    if cur is None:
                        raise Unrecognised('the predicate is tested outside the loop over the elements')
                    if (sense == 1) == cur:
                        for s in cfg.succ[n]:
                            push(s)
                    continue
                fc = self._flag_cond(node.ast, node.pol, flags)
                if fc is not None:
                    if fc:
                        for s in cfg.succ[n]:
                            push(s)
                    continue
                names = set(x.id for x in ast.walk(node.ast) if isinstance(x, ast.Name))
                if names & self.dependent or not self.dependent:
                    raise Unrecognised('condition `%s` is neither the predicate nor a tracked flag, and looks at the '
                                       'element' % unparse(node.ast)[:60])
                # a condition on something else: it can go either way whatever P is
                for s in cfg.succ[n]:
                    push(s)
                continue
            if n == cfg.exit:
                # fell off the end: returns None
                results.add((None, seen, n))
                continue
            for s in cfg.succ[n]:
                if cfg.nodes[s].kind != 'except':
                    push(s)
        return results
