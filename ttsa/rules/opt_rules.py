"""R-OPTKEY (K1 K2 K3), DECOR (get_label), R-SIBLING (reader options agree across formats)."""
import ast

from ..core import (AnalysisError, Unrecognised, path, unparse, norm_test, facts_at, walk_own, split_assumes,
                    const_str, no_kill_between)
from ..events import name_defs, single_def
from ..report import Ob

MANDATORY = {
    ('transform.substitute_terminals', 'terminalfile'): 'documented under Parameters',
    ('transform.insert_terminals', 'terminalfile'): 'documented under Parameters',
    ('transform.filter_by_length', 'filteroperator'): 'documented under Parameters',
    ('transform.filter_by_length', 'filtervalue'): 'documented under Parameters',
}
PROTOCOL = {
    'grammar.LabelGenerator.next': 'internal protocol of binarize_rule (func, pos, vert, fanout always passed)',
    'grammar.MarkovLabelGenerator.next': 'internal protocol of binarize_rule (func, pos, vert, fanout always passed)',
}


def _parents(func):
    parents = {}
    for n in ast.walk(func.node):
        for c in ast.iter_child_nodes(n):
            parents[c] = n
    return parents


def key_tests(func):
    """[(ast Compare, key ast, polarity-of-`in`)] for tests `<x> in <kw>` on the **kw dict."""
    out = []
    if not func.kwarg:
        return out
    for n in walk_own(func.node):
        if isinstance(n, ast.Compare) and len(n.ops) == 1 and isinstance(n.ops[0], (ast.In, ast.NotIn)) \
                and isinstance(n.comparators[0], ast.Name) and n.comparators[0].id == func.kwarg:
            out.append(n)
    return out


def keys_consumed(prog, func, _memo=None, _stack=None):
    """Option keys a function tests or loads on its **kw, transitively through calls that forward it."""
    _memo = {} if _memo is None else _memo
    _stack = set() if _stack is None else _stack
    if func.fq in _memo:
        return _memo[func.fq]
    if func.fq in _stack or not func.kwarg:
        return set()
    _stack.add(func.fq)
    keys = set()
    for t in key_tests(func):
        k = const_str(t.left)
        if k is not None:
            keys.add(k)
    for n in walk_own(func.node):
        if isinstance(n, ast.Subscript) and isinstance(n.value, ast.Name) and n.value.id == func.kwarg:
            k = const_str(n.slice)
            if k is not None:
                keys.add(k)
        if isinstance(n, ast.Call):
            c = prog.callee(n, func)
            if c:
                g = prog.func(c[0], c[1], required=False)
                if g is not None and g.kwarg and any(k.arg is None and isinstance(k.value, ast.Name)
                                                     and k.value.id == func.kwarg for k in n.keywords):
                    keys |= keys_consumed(prog, g, _memo, _stack)
                elif g is not None and g.kwarg:
                    for k in n.keywords:
                        if k.arg is not None and k.arg in keys_consumed(prog, g, _memo, _stack):
                            pass
    _stack.discard(func.fq)
    _memo[func.fq] = keys
    return keys


def r_optkey(prog, tier):
    obs = []
    ntests = 0
    for f in prog.all_funcs():
        if not f.kwarg:
            continue
        cfg = f.cfg
        parents = None
        # names that run over a literal tuple / list of option names: `[o in params for o in ('always_label', 'always_gf')]`
        literal_runs = {}
        for x_ in ast.walk(f.node):
            gens_ = x_.generators if isinstance(x_, (ast.ListComp, ast.SetComp, ast.GeneratorExp, ast.DictComp)) else (
                [x_] if isinstance(x_, ast.For) else [])
            for g_ in gens_:
                if isinstance(g_.target, ast.Name) and isinstance(g_.iter, (ast.Tuple, ast.List)) and g_.iter.elts \
                        and all(const_str(e_) is not None for e_ in g_.iter.elts):
                    literal_runs.setdefault(g_.target.id, []).append([const_str(e_) for e_ in g_.iter.elts])
        for t in key_tests(f):
            ntests += 1
            k = const_str(t.left)
            if k is None and isinstance(t.left, ast.Name) and len(literal_runs.get(t.left.id, ())) == 1 and not any(
                    isinstance(y_, ast.Name) and y_.id == t.left.id and isinstance(y_.ctx, ast.Store) and not any(
                        y_ is z_ for g2_ in ast.walk(f.node) if isinstance(g2_, (ast.For, ast.comprehension)) for z_ in ast.walk(g2_.target))
                    for y_ in ast.walk(f.node)):
                k = '|'.join(literal_runs[t.left.id][0])
            obs.append(Ob('R-OPTKEY/K1', f.fq, 'option test `%s` looks up a literal key' % unparse(t),
                          k is not None, 'key %r' % k if k is not None else
                          'the left operand is not a string literal: the *value* of `%s` is looked up among '
                          'the option names, so the option is never honoured' % unparse(t.left),
                          construct='k1:' + unparse(t), line=t.lineno, nontrivial=k is None))
        # K2: loads kw['k']
        for n in walk_own(f.node):
            if isinstance(n, ast.Subscript) and isinstance(n.value, ast.Name) and n.value.id == f.kwarg \
                    and isinstance(n.ctx, ast.Load):
                k = const_str(n.slice)
                if k is None:
                    obs.append(Ob('R-OPTKEY/K2', f.fq, 'option load `%s` uses a literal key' % unparse(n), False,
                                  'computed option key', construct='k2:' + unparse(n), line=n.lineno))
                    continue
                ok = False
                why = 'load of option %r is not dominated by a test `%r in %s`' % (k, k, f.kwarg)
                try:
                    at = cfg.node_of(n)
                except AnalysisError:
                    at = None
                if at is not None:
                    for (fa, nid) in facts_at(cfg, at):
                        if fa == ('haskey', f.kwarg, k, True):
                            ok = True
                            why = 'dominated by `%s`' % unparse(cfg.nodes[nid].ast)
                if not ok:
                    # same boolean expression: 'k' in kw and kw['k'] ...   /  kw['k'] if 'k' in kw else ...
                    if parents is None:
                        parents = _parents(f)
                    p = n
                    while p in parents and not ok:
                        q = parents[p]
                        if isinstance(q, ast.BoolOp) and isinstance(q.op, ast.And):
                            idx = [i for i, v in enumerate(q.values) if v is p or p in ast.walk(v)]
                            for v in q.values[:idx[0] if idx else 0]:
                                for (ce, pol) in split_assumes(v, True):
                                    if norm_test(ce, pol) == ('haskey', f.kwarg, k, True):
                                        ok = True
                                        why = 'guarded in the same condition by `%s`' % unparse(ce)
                        if isinstance(q, ast.IfExp) and (p is q.body or p in ast.walk(q.body)):
                            for (ce, pol) in split_assumes(q.test, True):
                                if norm_test(ce, pol) == ('haskey', f.kwarg, k, True):
                                    ok = True
                                    why = 'guarded by the conditional expression `%s`' % unparse(q.test)
                        p = q
                        if isinstance(q, ast.stmt):
                            break
                if not ok:
                    # inside a `try` whose handler catches the missing key
                    if parents is None:
                        parents = _parents(f)
                    p = n
                    while p in parents and not ok:
                        q = parents[p]
                        if isinstance(q, ast.Try) and any(p is b_ or p in ast.walk(b_) for b_ in q.body):
                            for h_ in q.handlers:
                                names_ = [h_.type] if not isinstance(h_.type, ast.Tuple) else list(h_.type.elts)
                                if h_.type is None or any(isinstance(x_, ast.Name) and x_.id in ('KeyError', 'LookupError', 'Exception')
                                                          for x_ in names_ if x_ is not None):
                                    ok = True
                                    why = 'inside `try`, the missing key is caught by `except %s`' % (
                                        unparse(h_.type) if h_.type is not None else '')
                        p = q
                        if isinstance(q, (ast.FunctionDef,)):
                            break
                if not ok and (f.fq, k) in MANDATORY:
                    ok = True
                    why = 'MANDATORY table: ' + MANDATORY[(f.fq, k)]
                if not ok and f.fq in PROTOCOL:
                    ok = True
                    why = 'PROTOCOL table: ' + PROTOCOL[f.fq]
                obs.append(Ob('R-OPTKEY/K2', f.fq, 'option load `%s` happens only when the option is present'
                              % unparse(n), ok, why, construct='k2:' + unparse(n), line=n.lineno))
    # K4: one option, one way of asking: `'k' in kw` (given at all) in one place and `kw.get('k')` (given and true) in another
    # disagree for `k:0` / `k=False` - one decision is taken as if the option were set, the other as if it were not
    for f in prog.all_funcs():
        if not f.kwarg:
            continue
        by_presence, by_value = {}, {}
        for x in walk_own(f.node):
            if isinstance(x, ast.Compare) and len(x.ops) == 1 and isinstance(x.ops[0], (ast.In, ast.NotIn)) \
                    and const_str(x.left) is not None and isinstance(x.comparators[0], ast.Name) and x.comparators[0].id == f.kwarg:
                by_presence.setdefault(const_str(x.left), x)
        conds = []
        for x in walk_own(f.node):
            if isinstance(x, (ast.If, ast.While, ast.IfExp)):
                conds.append(x.test)
        for t in conds:
            parts = [t]
            while parts:
                e = parts.pop()
                if isinstance(e, ast.BoolOp):
                    parts.extend(e.values)
                elif isinstance(e, ast.UnaryOp) and isinstance(e.op, ast.Not):
                    parts.append(e.operand)
                elif isinstance(e, ast.Call) and isinstance(e.func, ast.Attribute) and e.func.attr == 'get' \
                        and isinstance(e.func.value, ast.Name) and e.func.value.id == f.kwarg and e.args and const_str(e.args[0]) is not None \
                        and (len(e.args) == 1 or (isinstance(e.args[1], ast.Constant) and not e.args[1].value)):
                    by_value.setdefault(const_str(e.args[0]), e)
        for k in sorted(set(by_presence) & set(by_value)):
            obs.append(Ob('R-OPTKEY/K4', f.fq, 'option %r is asked for in one way throughout the function' % k, False,
                          '`%s` (line %d) asks whether the option is given, `%s` (line %d) whether its value is true: with %s:0 (or '
                          '%s=False) the two decisions contradict each other' % (unparse(by_presence[k]), by_presence[k].lineno,
                                                                                   unparse(by_value[k]), by_value[k].lineno, k, k),
                          construct='k4:%s' % k, line=by_value[k].lineno))
    # K3: forwarding inside the reader / writer call trees
    memo = {}
    documented = {'treeinput': set(prog.registry('treeinput', 'INPUT_OPTIONS')),
                  'treeoutput': set(prog.registry('treeoutput', 'OUTPUT_OPTIONS'))}
    nfw = 0
    for modname, opts in sorted(documented.items()):
        for f in sorted(prog.modules[modname].funcs.values(), key=lambda x: x.fq):
            if not f.kwarg:
                continue
            for n in walk_own(f.node):
                if not isinstance(n, ast.Call):
                    continue
                c = prog.callee(n, f)
                if not c:
                    continue
                g = prog.func(c[0], c[1], required=False)
                if g is None or not g.kwarg:
                    continue
                need = keys_consumed(prog, g, memo) & opts
                if not need:
                    continue
                nfw += 1
                star = any(k.arg is None and isinstance(k.value, ast.Name) and k.value.id == f.kwarg
                           for k in n.keywords)
                named = set(k.arg for k in n.keywords if k.arg is not None)
                ok = star or need <= named
                if not ok and any(k.arg is None for k in n.keywords):
                    # some other dictionary is unpacked: a copy of the options (possibly with entries added or taken
                    # out), an options object ... - what it holds is not followed
                    src = [k.value for k in n.keywords if k.arg is None][0]
                    copies = isinstance(src, ast.Call) and unparse(src.func) == 'dict' and src.args \
                        and isinstance(src.args[0], ast.Name) and src.args[0].id == f.kwarg
                    if copies:
                        ok = True
                        star = True
                    else:
                        ok = None
                obs.append(Ob('R-OPTKEY/K3', f.fq, 'call `%s(...)` hands on the options %s that the callee '
                              'interprets' % (unparse(n.func), sorted(need)), ok,
                              ('forwards **%s' % f.kwarg) if star else
                              ('passes %s by name' % sorted(named & need)) if ok else
                              'unpacks `%s`, whose content is not followed' % unparse([k.value for k in n.keywords if k.arg is None][0])[:50]
                              if ok is None else
                              'the callee never sees option(s) %s' % sorted(need - named),
                              construct='k3:%s:%s' % (unparse(n.func), sorted(need)), line=n.lineno))
    return obs, {'option_key_tests': ntests, 'forwarding_call_sites': nfw}


# ------------------------------------------------------------------------------------ DECOR

DECOR_FIELDS = ['edge', 'head', 'split', 'block_number']
DECOR_KEY = {'edge': ('gf',), 'head': ('mark_heads_marking',),
             'split': ('boyd_split_marking', 'boyd_split_numbering'),
             'block_number': ('boyd_split_numbering',)}


def _field_aliases(f):
    """locals that stand for `<node>.data` (alias of the field table) or for one field of it"""
    from ..core import _unique_assign
    tables, fields = {}, {}
    for nm in f.locals:
        v = _unique_assign(f, nm)
        if isinstance(v, ast.Attribute) and v.attr == 'data':
            tables[nm] = unparse(v.value)
    for nm in f.locals:
        v = _unique_assign(f, nm)
        if isinstance(v, ast.Subscript) and const_str(v.slice):
            base = v.value
            if (isinstance(base, ast.Attribute) and base.attr == 'data') or (isinstance(base, ast.Name) and base.id in tables):
                fields[nm] = const_str(v.slice)
    return tables, fields


def _data_fields_read(e, f=None):
    out = []
    tables, fields = _field_aliases(f) if f is not None else ({}, {})
    for n in ast.walk(e):
        if isinstance(n, ast.Subscript) and const_str(n.slice):
            if isinstance(n.value, ast.Attribute) and n.value.attr == 'data':
                out.append(const_str(n.slice))
            elif isinstance(n.value, ast.Name) and n.value.id in tables:
                out.append(const_str(n.slice))
        elif isinstance(n, ast.Name) and n.id in fields:
            out.append(fields[n.id])
    return out


def _flatten_components(v, f=None, at=None, depth=0):
    """components of a label expression: '%s%s' % (a, b) | a + b + c | f-string | ''.join([...]) | nested ones;
    a local whose only definition is such an expression is flattened through it."""
    def rec(e):
        if depth > 3:
            return [e]
        sub = _flatten_components(e, f, at, depth + 1) if isinstance(e, (ast.BinOp, ast.JoinedStr, ast.Call)) else None
        if sub is None and isinstance(e, ast.Name) and f is not None:
            from ..core import _unique_assign
            d = _unique_assign(f, e.id)
            if isinstance(d, (ast.BinOp, ast.JoinedStr)) :
                sub = _flatten_components(d, f, at, depth + 1)
        return sub if sub is not None else [e]
    if isinstance(v, ast.BinOp) and isinstance(v.op, ast.Mod) and const_str(v.left) is not None:
        fmt = const_str(v.left)
        args = list(v.right.elts) if isinstance(v.right, ast.Tuple) else [v.right]
        if fmt.replace('%s', '') == '' and fmt.count('%s') == len(args):
            out = []
            for x in args:
                out.extend(rec(x))
            return out
        return None
    if isinstance(v, ast.BinOp) and isinstance(v.op, ast.Add):
        comps = []

        def flat(e):
            if isinstance(e, ast.BinOp) and isinstance(e.op, ast.Add):
                flat(e.left)
                flat(e.right)
            else:
                comps.extend(rec(e))
        flat(v)
        return comps
    if isinstance(v, ast.JoinedStr):
        if any(isinstance(x, ast.Constant) and x.value for x in v.values):
            return None
        out = []
        for x in v.values:
            if isinstance(x, ast.FormattedValue):
                if x.format_spec is not None or x.conversion not in (-1, 115):
                    return None
                out.extend(rec(x.value))
        return out
    if isinstance(v, ast.Call) and isinstance(v.func, ast.Attribute) and v.func.attr == 'join' \
            and const_str(v.func.value) == '' and len(v.args) == 1 and isinstance(v.args[0], (ast.List, ast.Tuple)):
        out = []
        for x in v.args[0].elts:
            out.extend(rec(x))
        return out
    if isinstance(v, ast.Call) and isinstance(v.func, ast.Attribute) and v.func.attr == 'format' \
            and const_str(v.func.value) is not None and not v.keywords:
        fmt = const_str(v.func.value)
        if fmt.replace('{}', '') == '' and fmt.count('{}') == len(v.args):
            out = []
            for x in v.args:
                out.extend(rec(x))
            return out
        return None
    if isinstance(v, ast.Name):
        r = rec(v)
        return r
    return None


DECOR_OPTION_KEYS = ('gf', 'gf_terminals', 'mark_heads_marking', 'boyd_split_marking', 'boyd_split_numbering')


def sepnames_all(f):
    """locals that hold the gf separator: some definition reads the gf_separator option or the default constant"""
    out = set()
    for nm in f.locals:
        for (_, v) in name_defs(f, nm):
            if isinstance(v, ast.AST) and ('gf_separator' in unparse(v) or 'DEFAULT_GF_SEPARATOR' in unparse(v)):
                out.add(nm)
    return out


def _fields_of_case(c, f, common):
    import re
    out = set(_data_fields_read(c.value, f)) if c.value is not None else set()
    for fa in c.facts:
        if fa in common:
            continue
        for t in fa[1:]:
            if isinstance(t, str):
                out |= set(re.findall(r"\.data\[['\"](\w+)['\"]\]", t))
    return out


def _is_empty_str(e):
    return isinstance(e, ast.Constant) and e.value == ''


def r_decor(prog, tier):
    from ..values import expr_cases
    obs = []
    f = prog.func('trees', 'get_label')
    cfg = f.cfg
    kw = f.kwarg
    if not kw:
        raise Unrecognised('get_label has no **params', partial=obs)
    rets = [n for n in cfg.eval_nodes() if n.kind == 'stmt' and isinstance(n.ast, ast.Return)]
    if not rets:
        raise Unrecognised('get_label has no return', partial=obs)
    comps_of = {}
    for r in rets:
        comps_of[r.id] = _flatten_components(r.ast.value, f, r.id) if r.ast.value is not None else []
    known = [len(c) for c in comps_of.values() if c is not None]
    most = max(known) if known else 0
    main = None
    for r in rets:
        if comps_of[r.id] is not None and len(comps_of[r.id]) == most and most >= 2:
            main = r
    info = []     # per component of the main return: (cases, common facts, fields)
    if main is not None:
        for c in comps_of[main.id]:
            cases = expr_cases(f, c, main.id)
            common = set(cases[0].facts)
            for cs in cases[1:]:
                common &= set(cs.facts)
            if len(cases) == 1:
                common = set()
            fields = set()
            for cs in cases:
                fields |= _fields_of_case(cs, f, common)
            info.append((cases, common, fields))
    for r in rets:
        comps = comps_of[r.id]
        rtxt = unparse(r.ast)
        if comps is None:
            obs.append(Ob('DECOR/RETURN', f.fq, 'return `%s` carries the label and every decoration' % rtxt[:60], None,
                          'shape of the returned expression not recognised', construct='ret:' + rtxt, line=r.lineno))
            continue
        if r is not main and main is not None and len(comps) < most:
            # a shorter return is fine on paths on which the dropped decorations are empty anyway
            here = [x[0] for x in facts_at(cfg, r.id)]
            kept = set()
            for c in comps:
                for cs in expr_cases(f, c, r.id):
                    kept |= _fields_of_case(cs, f, set())
            lost = []
            unknown = False
            for (cases, common, fields) in info[1:]:
                if fields and fields <= kept:
                    continue
                if not fields:
                    unknown = True
                    continue
                for cs in cases:
                    if cs.kind != 'value':
                        unknown = True
                        continue
                    if _is_empty_str(cs.value):
                        continue
                    keys = [fa for fa in cs.facts if fa[0] == 'haskey' and fa[1] == kw]
                    if not keys:
                        unknown = True
                        continue
                    excluded = any((fa[0], fa[1], fa[2], not fa[3]) in here for fa in keys) \
                        or ('truthy', kw, False) in here or ('cmp', 'len(%s)' % kw, '==', '0') in here
                    if not excluded:
                        lost.append((sorted(fields), [fa[2] for fa in keys if fa[3]]))
            if lost:
                verdict, why = False, 'this path returns %d component(s) while another return has %d: the decoration(s) %s ' \
                                      'are dropped although nothing on this path rules their options out' \
                                      % (len(comps), most, '; '.join('%s (option %s)' % (x[0], '/'.join(x[1])) for x in lost))
            elif unknown:
                verdict, why = None, 'shorter return; the decorations it drops could not all be tied to options'
            else:
                verdict, why = True, 'shorter return on a path on which the dropped decorations are switched off'
            obs.append(Ob('DECOR/RETURN', f.fq, 'return `%s` carries the label and every decoration' % rtxt[:60], verdict,
                          why, construct='ret:' + rtxt, line=r.lineno))
            continue
        if r is not main:
            continue
        tied = [fields for (_, _, fields) in info]
        ok = None
        why = 'components could not all be tied to their node fields'
        if len(comps) == 5:
            order_ok = 'label' in tied[0] and 'edge' in tied[1] and 'head' in tied[2] \
                and 'split' in tied[3] and 'block_number' not in tied[3] and 'block_number' in tied[4]
            if order_ok:
                ok, why = True, 'five components, tied to label/edge/head/split/block_number in this order'
            elif all(tied[1:]) and all(len(t - {'split'}) <= 1 for t in tied[1:]):
                firsts = []
                for t in tied[1:]:
                    t2 = t - {'split'} if len(t) > 1 else t
                    firsts.append(sorted(t2)[0])
                if sorted(firsts) == ['block_number', 'edge', 'head', 'split'] and firsts != ['edge', 'head', 'split', 'block_number']:
                    ok, why = False, 'the decorations are concatenated in the order %s, not function, head mark, split mark, ' \
                                     'split number' % firsts
        elif len(comps) < 5:
            ok, why = None, '%d components (a decoration may have been merged into another one)' % len(comps)
        obs.append(Ob('DECOR/RETURN', f.fq, 'the label is the category followed by function, head mark, split mark and '
                      'split number, in this order: `%s`' % rtxt[:60], ok, why, construct='ret:' + rtxt, line=r.lineno))
    if main is None:
        return obs, {}
    for idx, (comp, (cases, common, _)) in enumerate(zip(comps_of[main.id], info)):
        if idx == 0:
            continue
        c = unparse(comp)
        has_empty = any(cs.kind == 'value' and _is_empty_str(cs.value) for cs in cases)
        obs.append(Ob('DECOR/DEFAULT', f.fq, 'decoration `%s` is the empty string unless an option sets it' % c,
                      True if has_empty else None, 'has an "" case' if has_empty else 'no "" default recognised',
                      construct='dflt:' + c, line=f.node.lineno, nontrivial=False))
        for cs in cases:
            if cs.kind != 'value':
                obs.append(Ob('DECOR/GUARD', f.fq, 'decoration `%s`' % c, None, 'definition of kind %s not modelled' % cs.kind,
                              construct='decor-kind:' + c, line=cfg.nodes[cs.node].lineno))
                continue
            val = cs.value
            if _is_empty_str(val):
                continue
            nid = cs.node
            if isinstance(val, ast.Call) and prog.callee(val, f) is not None:
                obs.append(Ob('DECOR/GUARD', f.fq, 'decoration `%s` computed by a helper' % c, None,
                              'delegated to %s.%s: not followed' % prog.callee(val, f), construct='decor-helper:' + c,
                              line=cfg.nodes[nid].lineno))
                continue
            fields = _fields_of_case(cs, f, set())
            need = None
            for fld in ('block_number', 'edge', 'head', 'split'):
                if fld in fields:
                    need = DECOR_KEY[fld]
                    break
            if need is None:
                obs.append(Ob('DECOR/GUARD', f.fq, 'decoration `%s = %s` is tied to a node field'
                              % (c, unparse(val)[:40]), None, 'reads no node field this rule can see',
                              construct='decor-free:' + unparse(val), line=cfg.nodes[nid].lineno))
                continue
            fl = list(cs.facts)
            have = [fa for fa in fl if fa[0] == 'haskey' and fa[1] == kw and fa[3] is True]
            ok = any(fa[2] in need for fa in have)
            verdict = True if ok else None
            why = 'only under `%r in %s`' % ([fa[2] for fa in have if fa[2] in need][0], kw) if ok else \
                'the option test was not recognised'
            if not ok:
                # positive evidence 1: the key is tested, but inside an `or` (the decoration can be switched on without it)
                for fa in fl:
                    if fa[0] == 'opaque' and fa[2] is True and any("'%s' in %s" % (k, kw) in fa[1] for k in need) and ' or ' in fa[1]:
                        verdict, why = False, 'the option %s is only one alternative of `%s`: the decoration can appear ' \
                                              'without it' % (need, fa[1][:70])
                # positive evidence 2: every condition on this case is understood and none mentions the option
                # a condition on something computed from the options (an options object, a flag set from `k in kw`) is
                # not "a condition that does not mention the option"
                optish = set()
                for _r in range(3):
                    for nm_ in f.locals:
                        if nm_ in optish or nm_ == kw:
                            continue
                        for (_, dv_) in name_defs(f, nm_):
                            if isinstance(dv_, ast.AST) and any(isinstance(x_, ast.Name) and (x_.id == kw or x_.id in optish)
                                                                for x_ in ast.walk(dv_)):
                                optish.add(nm_)
                import re as _re
                through_options = any(set(_re.findall(r'[A-Za-z_][A-Za-z0-9_]*', str(t))) & optish
                                      for fa in fl if fa[0] in ('truthy', 'none', 'cmp', 'opaque') for t in fa[1:] if isinstance(t, str))
                understood = not through_options and all(fa[0] in ('haskey', 'truthy', 'none', 'cmp') or
                                 (fa[0] == 'opaque' and not any("'%s'" % k in fa[1] for k in DECOR_OPTION_KEYS)
                                  and kw not in fa[1]) for fa in fl)
                mentions = any(any("'%s'" % k in str(t) for k in need) for fa in fl for t in fa[1:])
                if verdict is None and understood and not mentions:
                    verdict, why = False, 'the decoration is computed without consulting option %s at all' % (need,)
            # independence: must not depend on another decoration option being absent
            if verdict is not False:
                for fa in fl:
                    txt = fa[1] if fa[0] in ('opaque',) else ''
                    neg = (fa[0] == 'haskey' and fa[1] == kw and fa[3] is False and fa[2] in DECOR_OPTION_KEYS and fa[2] not in need
                           and fa[2] != 'gf_terminals') \
                        or (fa[0] == 'opaque' and fa[2] is False and ' or ' not in txt
                            and any("'%s' in %s" % (k, kw) in txt for k in DECOR_OPTION_KEYS if k not in need and k != 'gf_terminals'))
                    if neg:
                        verdict, why = False, 'the decoration is written only when another output option is absent (`%s`): ' \
                                              'with both options one of them is lost' % (fa[1] if fa[0] == 'opaque' else fa[2])
            obs.append(Ob('DECOR/GUARD', f.fq, 'decoration `%s = %s` appears exactly under option %s'
                          % (c, unparse(val)[:40], ' / '.join(need)), verdict, why,
                          construct='decor:%s=%s' % (c, unparse(val)), line=cfg.nodes[nid].lineno))
            if 'block_number' in fields or 'split' in fields:
                # the split decorations belong to nodes that ARE block nodes now: the `split` flag decides, not whether a
                # number happens to be stored on the node (one survives from an earlier boyd_split)
                by_flag = any(fa[0] == 'truthy' and fa[1].endswith(".data['split']") and fa[2] is True for fa in fl)
                by_key = [fa for fa in fl if fa[0] in ('haskey', 'in') and 'block_number' in str(fa) and '.data' in str(fa)]
                if by_key and not by_flag:
                    obs.append(Ob('DECOR/GUARD', f.fq, 'decoration `%s = %s` is written for nodes flagged as split' % (c, unparse(val)[:40]),
                                  False, 'the decoration depends on `%s` - whether a block number is stored on the node - and not on the '
                                  '`split` flag: a number left over from an earlier boyd_split is printed on a node that is not a '
                                  'block node (any more)' % (by_key[0],), construct='decor-splitflag:%s' % c, line=cfg.nodes[nid].lineno))
            if 'edge' in fields:
                ok2 = None
                for fa in fl:
                    if fa[0] == 'opaque' and fa[2] is True and ' or ' in fa[1] and 'has_children(' in fa[1] and "'gf_terminals' in %s" % kw in fa[1]:
                        ok2 = True
                if ok2 is None and ('haskey', kw, 'gf_terminals', True) in fl and any(
                        fa[0] == 'opaque' and fa[2] is True and 'has_children(' in fa[1] and ' or ' not in fa[1] for fa in fl):
                    ok2 = False
                    gt_and = True
                if ok2 is None and not any('gf_terminals' in str(t) for fa in fl for t in fa[1:]) \
                        and all(fa[0] in ('haskey', 'truthy', 'none', 'cmp', 'opaque') for fa in fl) \
                        and not any(isinstance(x, ast.Call) and prog.callee(x, f) not in (None, ('trees', 'has_children'))
                                    for x in walk_own(f.node)):
                    ok2 = False
                # placeholder functions start with the literal "-" (DEFAULT_EDGE is "--"), whatever separator is chosen
                for x_ in walk_own(f.node):
                    if isinstance(x_, ast.Call) and isinstance(x_.func, ast.Attribute) and x_.func.attr == 'startswith' \
                            and "data['edge']" in unparse(x_.func.value) and x_.args:
                        a_ = x_.args[0]
                        okp = True if const_str(a_) == '-' else None
                        whyp = 'compared with the literal "-"'
                        if isinstance(a_, ast.Name) and a_.id in sepnames_all(f):
                            okp = False
                            whyp = 'the placeholder test uses the separator variable `%s`: with gf_separator:# the default ' \
                                   'function "--" is appended to every label' % a_.id
                        obs.append(Ob('DECOR/GUARD', f.fq, 'the placeholder function (starting with "-") is never written', okp, whyp,
                                      construct='decor-placeholder', line=x_.lineno))
                obs.append(Ob('DECOR/GUARD', f.fq, 'tokens get the function label only with gf_terminals', ok2,
                              'guard `has_children(tree) or \'gf_terminals\' in params`' if ok2 else
                              (('the function label needs a phrase AND gf_terminals (both are separate conditions): phrases '
                                'without the option and tokens with it get none' if any(
                                    ('haskey', kw, 'gf_terminals', True) == fa for fa in fl) else 'gf_terminals is never consulted')
                               if ok2 is False else 'guard not recognised'),
                              construct='decor-gfterm', line=cfg.nodes[nid].lineno))
                sepnames = [n.id for n in ast.walk(val) if isinstance(n, ast.Name) and n.id != f.params[0]]
                ok3 = None
                for s_ in sepnames:
                    sd = [v2 for (_, v2) in name_defs(f, s_) if isinstance(v2, ast.AST)]
                    txt = ' '.join(unparse(v2) for v2 in sd)
                    if 'DEFAULT_GF_SEPARATOR' in txt and "'gf_separator'" in txt:
                        ok3 = True
                    elif 'DEFAULT_GF_SEPARATOR' in txt and "'gf_separator'" not in txt and len(sd) == 1:
                        ok3 = False
                obs.append(Ob('DECOR/GUARD', f.fq, 'the function label is joined with the gf_separator option '
                              '(default DEFAULT_GF_SEPARATOR)', ok3,
                              'separator: the option, else the default constant' if ok3 else
                              ('the gf_separator option is ignored' if ok3 is False else 'separator source not recognised'),
                              construct='decor-gfsep', line=cfg.nodes[nid].lineno))
    return obs, {}


# ------------------------------------------------------------------------------------ R-SIBLING

EXPECTED_PIECES = [('part', 'label'), ('sep', 'DEFAULT_GAPPING_SEPARATOR', 'gapindex'), ('part', 'gapindex'),
                   ('sep', 'DEFAULT_COINDEX_SEPARATOR', 'coindex'), ('part', 'coindex'), ('part', 'headmarker')]
GF_SPLIT_FUNCS = ['tigerxml_build_tree', 'brackets', 'export_parse_line']


def _flatten_add(e):
    out = []

    def flat(x):
        if isinstance(x, ast.BinOp) and isinstance(x.op, ast.Add):
            flat(x.left)
            flat(x.right)
        else:
            out.append(x)
    flat(e)
    return out


def _const_name(e):
    """'DEFAULT_X' for trees.DEFAULT_X / DEFAULT_X, "''" for the empty string, literal text else."""
    if isinstance(e, ast.Attribute) and isinstance(e.value, ast.Name) and e.value.id == 'trees':
        return e.attr
    if isinstance(e, ast.Name):
        return e.id
    if isinstance(e, ast.Constant) and isinstance(e.value, str):
        return repr(e.value)
    return unparse(e)


def _sep_symbol(f, name, at, lp):
    """Symbolic value of a separator variable at node `at`:
    ('sep', CONST, FIELD) if it is CONST when lp.FIELD is non-empty and '' when it is empty."""
    import re
    from ..values import value_cases, is_empty_fact
    cs = value_cases(f, name, at, expand=False)
    if not cs or any(c.kind != 'value' for c in cs):
        return ('unknown', name)
    if len(cs) == 1:
        return ('const', _const_name(cs[0].value))
    if len(cs) == 2:
        flds = set()
        for c in cs:
            for fa in c.facts:
                for txt in fa[1:]:
                    if isinstance(txt, str):
                        flds |= set(re.findall(r'\b%s\.(\w+)' % re.escape(lp), txt))
        for fld in sorted(flds):
            t = '%s.%s' % (lp, fld)
            e = [c for c in cs if is_empty_fact(c.facts, t, True)]
            ne = [c for c in cs if is_empty_fact(c.facts, t, False)]
            if len(e) == 1 and len(ne) == 1 and e[0] is not ne[0]:
                ev, nv = _const_name(e[0].value), _const_name(ne[0].value)
                if ev == "''":
                    return ('sep', nv, fld)
                return ('mixed', nv, ev, fld)
    return ('unknown', name)


def gf_split_pieces(prog, f):
    """(pieces, edge_ok, site line, parse call ok) of the label re-assembly governed by gf_split."""
    cfg = f.cfg
    kw = f.kwarg
    found = None
    for n in cfg.eval_nodes():
        if n.kind != 'stmt' or not isinstance(n.ast, ast.Assign):
            continue
        if ('haskey', kw, 'gf_split', True) not in [x[0] for x in facts_at(cfg, n.id)]:
            continue
        ops = _flatten_add(n.ast.value)
        if len(ops) >= 3 and any(isinstance(o, ast.Attribute) and o.attr == 'label' for o in ops):
            found = (n, ops)
    if not found:
        raise Unrecognised('no label re-assembly under gf_split in %s' % f.fq)
    n, ops = found
    lp = None
    for o in ops:
        if isinstance(o, ast.Attribute) and o.attr == 'label' and isinstance(o.value, ast.Name):
            lp = o.value.id
    pieces = []
    for o in ops:
        if isinstance(o, ast.Attribute) and isinstance(o.value, ast.Name) and o.value.id == lp:
            pieces.append(('part', o.attr))
        elif isinstance(o, ast.Name):
            pieces.append(_sep_symbol(f, o.id, n.id, lp))
        else:
            pieces.append(('const', _const_name(o)))
    # edge <- lp.gf in the same region
    edge_ok = False
    for m in cfg.eval_nodes():
        if m.kind == 'stmt' and isinstance(m.ast, ast.Assign) and unparse(m.ast.value) == '%s.gf' % lp \
                and ('haskey', kw, 'gf_split', True) in [x[0] for x in facts_at(cfg, m.id)]:
            t = unparse(m.ast.targets[0])
            if t.endswith("['edge']"):
                edge_ok = True
            elif isinstance(m.ast.targets[0], ast.Name):
                # a local that is stored as the edge label afterwards
                for m2 in cfg.eval_nodes():
                    if m2.kind == 'stmt' and isinstance(m2.ast, ast.Assign) and unparse(m2.ast.targets[0]).endswith("['edge']") \
                            and unparse(m2.ast.value) == t:
                        edge_ok = True
    # parse call passes the separator option
    parse_ok = False
    d = single_def(f, lp, n.id)
    if d and d[0] != 'param' and isinstance(d[1], ast.Call) and prog.callee(d[1], f) == ('trees', 'parse_label'):
        for k in d[1].keywords:
            if k.arg == 'gf_separator' and isinstance(k.value, ast.Name):
                sd = name_defs(f, k.value.id)
                has_default = any(isinstance(v, ast.AST) and _const_name(v) == 'DEFAULT_GF_SEPARATOR' for (_, v) in sd)
                has_opt = any(isinstance(v, ast.AST) and unparse(v) == "%s['gf_separator']" % kw for (_, v) in sd)
                parse_ok = has_default and has_opt and len(sd) == 2
    return pieces, edge_ok, n.lineno, parse_ok


def format_label_separators(prog):
    """[(SEPARATOR, field)] in the order format_label appends them."""
    f = prog.func('trees', 'format_label')
    lab = f.params[0]
    out = []
    for n in f.cfg.eval_nodes():
        if n.kind == 'stmt' and isinstance(n.ast, (ast.AugAssign, ast.Assign)):
            v = n.ast.value
            ops = _flatten_add(v)
            for i, o in enumerate(ops[:-1]):
                nx = ops[i + 1]
                if isinstance(nx, ast.Attribute) and isinstance(nx.value, ast.Name) and nx.value.id == lab \
                        and nx.attr in ('gapindex', 'coindex') and _const_name(o).startswith('DEFAULT_'):
                    out.append((_const_name(o), nx.attr))
    return out


def r_sibling(prog, tier):
    obs = []
    fl = format_label_separators(prog)
    exp = [(p[1], p[2]) for p in EXPECTED_PIECES if p[0] == 'sep']
    obs.append(Ob('R-SIBLING/GFSPLIT', 'trees.format_label', 'format_label joins gap index and co-index with '
                  'their own separators, gap index first', True if fl == exp else (None if len(fl) < 2 else False),
                  'appends %s' % fl if fl == exp else 'format_label appends %s, expected %s' % (fl, exp),
                  construct='fmt-seps', line=prog.func('trees', 'format_label').node.lineno))
    for nm in GF_SPLIT_FUNCS:
        f = prog.func('treeinput', nm)
        try:
            pieces, edge_ok, line, parse_ok = gf_split_pieces(prog, f)
        except Unrecognised as e:
            obs.append(Ob('R-SIBLING/GFSPLIT', f.fq, 'gf_split re-assembles the label with the separators format_label uses',
                          None, str(e), construct='gfsplit-unrecognised'))
            continue
        ok = pieces == EXPECTED_PIECES
        if not ok and any(p_[0] == 'unknown' for p_ in pieces):
            ok = None
        edge_ok = True if edge_ok else None
        parse_ok = True if parse_ok else None
        obs.append(Ob('R-SIBLING/GFSPLIT', f.fq, 'gf_split re-assembles the label as label [=gapindex] [-coindex] '
                      'headmarker with the separators format_label uses', ok,
                      'pieces %s' % pieces if ok else 'pieces %s differ from %s' % (pieces, EXPECTED_PIECES),
                      construct='gfsplit-pieces:%s' % (pieces,), line=line, witness={'pieces': [list(p) for p in pieces]}))
        obs.append(Ob('R-SIBLING/GFSPLIT', f.fq, 'gf_split stores the split-off function as the edge label', edge_ok,
                      'edge <- parsed gf' if edge_ok else 'no `edge = <parsed>.gf` under gf_split',
                      construct='gfsplit-edge', line=line))
        obs.append(Ob('R-SIBLING/GFSPLIT', f.fq, 'gf_split parses with the gf_separator option (default '
                      'DEFAULT_GF_SEPARATOR)', parse_ok,
                      'parse_label(..., gf_separator=<default overridden by the option>)' if parse_ok else
                      'the separator handed to parse_label is not the option with the documented default',
                      construct='gfsplit-sep', line=line))
    # replace_parens: same traversal and call in every reader, before the yield
    readers = [prog.func('treeinput', n) for n in ('tigerxml', 'brackets', 'export')]
    for f in readers:
        cfg = f.cfg
        kw = f.kwarg
        ys = [n for n in cfg.eval_nodes() if n.kind == 'stmt' and isinstance(n.ast, ast.Expr)
              and isinstance(n.ast.value, ast.Yield)]
        if len(ys) != 1:
            obs.append(Ob('R-SIBLING/PARENS', f.fq, 'replace_parens', None, '%d yield statements' % len(ys), construct='parens-shape'))
            continue
        y = ys[0]
        yv = unparse(y.ast.value.value)
        ok = False
        other_table = None
        why = 'no loop over trees.preorder(%s) calling trees.replace_chars(., trees.BRACKETS) under ' \
              '`\'replace_parens\' in params` before the yield' % yv
        for n in cfg.eval_nodes():
            if n.kind == 'iter' and unparse(n.ast.iter) == 'trees.preorder(%s)' % yv \
                    and ('haskey', kw, 'replace_parens', True) in [x[0] for x in facts_at(cfg, n.id)] \
                    and cfg.can_reach(n.id, y.id):
                tv = unparse(n.ast.target)
                for m in cfg.eval_nodes():
                    if n.id in m.loops and m.kind == 'stmt':
                        for sub in walk_own(m.ast):
                            if isinstance(sub, ast.Call) and prog.callee(sub, f) == ('trees', 'replace_chars') \
                                    and len(sub.args) == 2 and unparse(sub.args[0]) == tv \
                                    and unparse(sub.args[1]) == 'trees.BRACKETS' \
                                    and cfg.in_every_iteration(n.id, m.id):
                                ok = True
                                why = 'for %s in trees.preorder(%s): trees.replace_chars(%s, trees.BRACKETS)' % (tv, yv, tv)
                            elif isinstance(sub, ast.Call) and prog.callee(sub, f) == ('trees', 'replace_chars') \
                                    and len(sub.args) == 2 and unparse(sub.args[0]) == tv \
                                    and isinstance(sub.args[1], ast.Attribute) and unparse(sub.args[1].value) == 'trees' \
                                    and sub.args[1].attr != 'BRACKETS' and any(
                                        isinstance(st_, ast.Assign) and isinstance(st_.targets[0], ast.Name)
                                        and st_.targets[0].id == sub.args[1].attr and isinstance(st_.value, (ast.Dict, ast.Call))
                                        for st_ in prog.modules['trees'].tree.body):
                                other_table = unparse(sub.args[1])
        verdict = True if ok else None
        if not ok and other_table:
            verdict = False
            why = 'under replace_parens this reader maps the brackets with the table `%s`, the other readers and the ' \
                  'writers with trees.BRACKETS: the same option has a different effect depending on the format' % other_table
        if not ok:
            # the loop may live in a helper called under the option
            for n in cfg.eval_nodes():
                if n.kind == 'stmt' and ('haskey', kw, 'replace_parens', True) in [x[0] for x in facts_at(cfg, n.id)] \
                        and cfg.can_reach(n.id, y.id):
                    for sub in walk_own(n.ast):
                        if isinstance(sub, ast.Call) and prog.callee(sub, f) and sub.args and unparse(sub.args[0]) == yv:
                            g = prog.func(*prog.callee(sub, f), required=False)
                            if g is not None and any(isinstance(x, ast.Call) and prog.callee(x, g) == ('trees', 'replace_chars')
                                                     and len(x.args) == 2 and unparse(x.args[1]) == 'trees.BRACKETS'
                                                     for x in walk_own(g.node)) \
                                    and any(isinstance(x, ast.For) and unparse(x.iter) == 'trees.preorder(%s)' % g.params[0]
                                            for x in walk_own(g.node)):
                                verdict = True
                                why = 'delegated to %s, which maps trees.BRACKETS over trees.preorder of the sentence' % g.fq
            if verdict is None and not any('replace_parens' in unparse(cfg.nodes[x[1]].ast) for n in cfg.eval_nodes()
                                           for x in facts_at(cfg, n.id)):
                verdict = False
                why = 'the replace_parens option is never consulted by this reader'
        obs.append(Ob('R-SIBLING/PARENS', f.fq, 'replace_parens maps the brackets in every node of the sentence '
                      'before it is yielded', verdict, why, construct='parens', line=y.lineno))
    # quiet: every message of a reader is suppressed by quiet
    nq = 0
    for f in sorted(prog.modules['treeinput'].funcs.values(), key=lambda x: x.fq):
        cfg = f.cfg
        for n in cfg.eval_nodes():
            if n.kind != 'stmt':
                continue
            for sub in walk_own(n.ast):
                is_print = isinstance(sub, ast.Call) and isinstance(sub.func, ast.Name) and sub.func.id == 'print'
                is_write = isinstance(sub, ast.Call) and unparse(sub.func) in ('sys.stderr.write', 'sys.stdout.write')
                if not (is_print or is_write):
                    continue
                nq += 1
                kw = f.kwarg
                facts_ = [x[0] for x in facts_at(cfg, n.id)]
                ok = kw is not None and ('haskey', kw, 'quiet', False) in facts_
                if not ok:
                    # a message helper: the options arrive in a positional parameter (every caller hands over its own
                    # options), or the helper prints without asking and every call of it is itself under `not quiet`
                    sites = [(g_, c_) for g_ in prog.modules['treeinput'].funcs.values() for c_ in walk_own(g_.node)
                             if isinstance(c_, ast.Call) and prog.callee(c_, g_) == (f.module.name, f.qual)]
                    via = [p_ for p_ in f.params if ('haskey', p_, 'quiet', False) in facts_]
                    if via and sites:
                        i_ = f.params.index(via[0])
                        hands = [len(c_.args) > i_ and isinstance(c_.args[i_], ast.Name) and c_.args[i_].id == g_.kwarg
                                 for (g_, c_) in sites]
                        ok = True if all(hands) else None
                    elif kw is None and sites and not via:
                        guarded = []
                        for (g_, c_) in sites:
                            nid_ = None
                            for m_ in g_.cfg.eval_nodes():
                                if any(x_ is c_ for r_ in g_.cfg.exprs(m_.id) for x_ in ast.walk(r_)):
                                    nid_ = m_.id
                            guarded.append(nid_ is not None and g_.kwarg is not None and
                                           ('haskey', g_.kwarg, 'quiet', False) in [x[0] for x in facts_at(g_.cfg, nid_)])
                        ok = True if all(guarded) else (None if any(guarded) else False)
                    elif kw is None and not sites:
                        ok = None           # a function nothing in the readers calls directly
                obs.append(Ob('R-SIBLING/QUIET', f.fq, 'message `%s` is suppressed by the quiet option'
                              % unparse(sub)[:60], ok, 'dominated by `not \'quiet\' in params`' if ok else
                              'printed even with quiet', construct='quiet:' + unparse(sub), line=n.lineno))
    # continuous / sentence ids
    obs.extend(_sid_rules(prog))
    return obs, {'reader_messages': nq}


def _counter_first_value(f, c, use):
    """Value of counter `c` at its first use `use` (cfg node) in the first loop iteration:
    constant initialiser outside the loops + number of `+= 1` that dominate the use inside the loop."""
    cfg = f.cfg
    defs = name_defs(f, c)
    # the index of an enumerate() loop: counts from its start value (0 when none is given)
    if len(defs) == 1 and isinstance(defs[0][1], tuple) and defs[0][1][0] == 'iter':
        it, tg = defs[0][1][1], defs[0][1][2]
        if isinstance(it, ast.Call) and unparse(it.func) == 'enumerate' and isinstance(tg, ast.Tuple) and tg.elts \
                and isinstance(tg.elts[0], ast.Name) and tg.elts[0].id == c:
            st = it.args[1] if len(it.args) > 1 else next((k.value for k in it.keywords if k.arg == 'start'), None)
            if st is None:
                return 0, 'index of enumerate() without a start value', []
            if isinstance(st, ast.Constant) and isinstance(st.value, int):
                return st.value, 'index of enumerate() from %d' % st.value, []
            return None, 'enumerate() start `%s`' % unparse(st), []
    inits = [(n, v) for (n, v) in defs if isinstance(v, ast.Constant) and isinstance(v.value, int)
             and not cfg.nodes[n].loops]
    incs = [(n, v) for (n, v) in defs if isinstance(v, tuple) and v[0] == 'aug']
    other = [(n, v) for (n, v) in defs if (n, v) not in inits and (n, v) not in incs]
    if len(inits) != 1:
        return None, 'no single constant initialiser outside the loops', other
    val = inits[0][1].value
    for (n, v) in incs:
        if unparse(v[1]) != '%s += 1' % c:
            return None, 'counter changed by `%s`' % unparse(v[1]), other
        if cfg.dominates(n, use):
            val += 1
    if len(incs) != 1:
        return None, '%d increments' % len(incs), other
    return val, 'initialised to %d, %s' % (inits[0][1].value, 'incremented before use'
                                           if val != inits[0][1].value else 'incremented after use'), other


def _sid_rules(prog):
    obs = []
    spec = {
        'export': ("int(line.split()[1])", 'the number after #BOS'),
        'tigerxml': (None, 'the last number in the id attribute'),
    }
    for nm in ('export', 'tigerxml', 'brackets'):
        f = prog.func('treeinput', nm)
        cfg = f.cfg
        kw = f.kwarg
        stores = []
        for n in cfg.eval_nodes():
            if n.kind == 'stmt' and isinstance(n.ast, ast.Assign) and unparse(n.ast.targets[0]).endswith(".data['sid']"):
                stores.append(n)
        if not stores:
            obs.append(Ob('R-SIBLING/SID', f.fq, 'sentence id assignment', None, 'no store of the sentence id found',
                          construct='sid-shape-' + nm))
            continue
        from ..values import expr_cases
        cases = []
        for st in stores:
            base = [x[0] for x in facts_at(cfg, st.id)]
            ecs = expr_cases(f, st.ast.value, st.id)
            if not (all(c.kind == 'value' for c in ecs)
                    and any(('haskey', kw, 'continuous', True) in c.facts for c in ecs)
                    and any(('haskey', kw, 'continuous', False) in c.facts for c in ecs)):
                # not a value selected by the option: keep the expression itself (a counter, an id read earlier)
                from ..values import Case
                ecs = [Case([], st.ast.value, st.id)]
            for c in ecs:
                cases.append((base + list(c.facts), c.value, c.node, c.kind))
        st = stores[0]
        v = st.ast.value
        use = st.id
        if nm == 'brackets':
            ok = isinstance(v, ast.Name)
            why = 'sentence id is not a plain counter'
            if ok:
                val, how, other = _counter_first_value(f, v.id, use)
                first_ok = val == 1
                opt_ok = len(other) == 1 and isinstance(other[0][1], ast.AST) \
                    and unparse(other[0][1]) == "%s['brackets_firstid']" % kw \
                    and ('haskey', kw, 'brackets_firstid', True) in [x[0] for x in facts_at(cfg, other[0][0])] \
                    and not cfg.nodes[other[0][0]].loops
                ok = first_ok and opt_ok
                why = 'counter `%s`: %s; overridden once, before the loop, by brackets_firstid' % (v.id, how) if ok \
                    else 'counter `%s`: first value %s (%s); brackets_firstid override ok: %s' % (v.id, val, how, opt_ok)
            obs.append(Ob('R-SIBLING/SID', f.fq, 'bracket sentences are numbered from 1 (or brackets_firstid), '
                          'one per sentence', True if ok else (False if (isinstance(v, ast.Name) and val is not None and val != 1) else None),
                          why, construct='sid-brackets', line=st.lineno))
            continue
        ok = False
        why = 'sentence id is not `<counter> if \'continuous\' in params else <id from file>`'
        cont = [c for c in cases if ('haskey', kw, 'continuous', True) in c[0]]
        nocont = [c for c in cases if ('haskey', kw, 'continuous', False) in c[0]]
        cnt = fid = None
        val = src_ok = None
        src_why = ''
        if len(cases) == 2 and len(cont) == 1 and len(nocont) == 1 and cont[0][3] == 'value' and nocont[0][3] == 'value':
            cnt, fid = cont[0][1], nocont[0][1]
            if isinstance(cnt, ast.Name):
                val, how, other = _counter_first_value(f, cnt.id, cont[0][2])
                src_ok, src_why = _file_id_ok(f, nm, fid, nocont[0][2])
                ok = val == 1 and not other and src_ok
                why = 'counter `%s` (%s) when continuous, else %s' % (cnt.id, how, src_why) if ok else \
                    'counter `%s`: first value %s (%s), other definitions %d; file id: %s' \
                    % (cnt.id, val, how, len(other), src_why)
        verdict = True if ok else None
        if not ok and isinstance(cnt, ast.Name) and isinstance(fid, ast.Name) and fid is not None:
            # the two values the wrong way round: the file's id under `continuous`, the running number without it
            try:
                val2, how2, other2 = _counter_first_value(f, fid.id, nocont[0][2])
                src2, _w2 = _file_id_ok(f, nm, cnt, cont[0][2])
            except Exception:
                val2 = src2 = None
                other2 = [1]
            if val2 == 1 and not other2 and src2:
                verdict = False
                why = 'with `continuous` the id read from the file (`%s`) is stored, without it the running number `%s`: ' \
                      'the option does the opposite of what is documented, and every plain conversion renumbers the sentences' \
                      % (cnt.id, fid.id)
        if not ok and verdict is None and isinstance(cnt, ast.Name):
            if val is not None and val != 1:
                verdict = False
            elif src_ok is False and ('.search(' in src_why or '.match(' in src_why or '[0]' in src_why):
                verdict = False
        obs.append(Ob('R-SIBLING/SID', f.fq, 'sentence id is the running number from 1 with `continuous`, '
                      'else %s' % spec[nm][1], verdict, why, construct='sid-' + nm, line=st.lineno))
    return obs


def _file_id_ok(f, nm, fid, use):
    if nm == 'export':
        if isinstance(fid, ast.Name):
            defs = name_defs(f, fid.id)
            good = [d for d in defs if isinstance(d[1], ast.Call) and unparse(d[1].func) == 'int' and len(d[1].args) == 1
                    and isinstance(d[1].args[0], ast.Subscript) and unparse(d[1].args[0].slice) == '1'
                    and isinstance(d[1].args[0].value, ast.Call) and unparse(d[1].args[0].value.func).endswith('.split')
                    and not d[1].args[0].value.args]
            rest = [d for d in defs if d not in good and not (isinstance(d[1], ast.Constant) and d[1].value is None)]
            if len(good) == 1 and not rest:
                facts = [x[0] for x in facts_at(f.cfg, good[0][0])]
                if any(fa[0] == 'opaque' and '#BOS' in fa[1] and fa[2] for fa in facts):
                    return True, 'the integer after #BOS'
        return False, 'the id is not int(line.split()[1]) of the #BOS line'
    if nm == 'tigerxml':
        # int(<x>) where x = <re digits>.findall(<id attr>)[-1]
        e = fid
        if isinstance(e, ast.Call) and isinstance(e.func, ast.Name) and e.func.id == 'int' and len(e.args) == 1:
            a = e.args[0]
            chain = []
            seen = 0
            while isinstance(a, ast.Name) and seen < 5:
                seen += 1
                d = single_def(f, a.id, use)
                if not d or d[0] == 'param' or not isinstance(d[1], ast.AST):
                    break
                a = d[1]
                use = d[0]
            s = unparse(a)
            if isinstance(a, ast.Subscript) and s.endswith('[-1]') and '.findall(' in s:
                return True, 'the last group of digits of the id (`%s`)' % s
            return False, 'id taken as `%s`, not the last number of the id attribute' % s
        return False, 'id is not int(<last number>)'
    return False, '?'
