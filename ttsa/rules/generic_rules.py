"""Contradiction / misuse patterns that are wrong whatever the surrounding code does (each VIOLATED only on the
recognised pattern, silent otherwise).

R-SUBSTR     `x in v` where v holds the raw string value of an option: a substring test where membership in a list of
             names is meant
R-DEADCHECK  v = d.get(k, D) with D not None, followed by a test `v is None` that guards a raise: the check can never fire
R-FALSYZERO  truthiness test of a local that holds either None or a position counted from 0
R-DICTCOMP   dict comprehension with several generators whose key ignores the inner ones: entries overwrite each other
"""
import ast

from ..core import Unrecognised, unparse, walk_own, norm_test, facts_at, const_str
from ..events import name_defs
from ..report import Ob

MODULES = ('trees', 'treeinput', 'treeoutput', 'transform', 'transformconst', 'treeanalysis', 'grammar',
           'grammaranalysis', 'grammarinput', 'grammaroutput', 'transitions', 'transitionoutput', 'misc')


def _option_string_locals(f):
    """locals every definition of which is the raw value of an option (kw['k'] / kw.get('k', <str>)) or None / ''"""
    out = set()
    if not f.kwarg:
        return out
    for nm in f.locals:
        defs = [v for (_, v) in name_defs(f, nm)]
        if not defs or not all(isinstance(v, ast.AST) for v in defs):
            continue
        raw = 0
        ok = True
        for v in defs:
            if isinstance(v, ast.Subscript) and isinstance(v.value, ast.Name) and v.value.id == f.kwarg and const_str(v.slice):
                raw += 1
            elif isinstance(v, ast.Call) and isinstance(v.func, ast.Attribute) and v.func.attr == 'get' \
                    and isinstance(v.func.value, ast.Name) and v.func.value.id == f.kwarg:
                raw += 1
            elif isinstance(v, ast.Constant) and (v.value is None or v.value == ''):
                pass
            else:
                ok = False
        if ok and raw:
            out.add(nm)
    return out


def r_substr(prog, tier):
    obs = []
    n = 0
    registry_funcs = set(prog.registry('transform', 'TRANSFORMATIONS')) | set(prog.registry('treeinput', 'INPUT_FORMATS')) \
        | set(prog.registry('treeoutput', 'OUTPUT_FORMATS'))
    for mod in MODULES:
        for f in sorted(prog.modules[mod].funcs.values(), key=lambda x: x.fq):
            opts = _option_string_locals(f)
            for x in walk_own(f.node):
                if isinstance(x, ast.Compare) and len(x.ops) == 1 and isinstance(x.ops[0], (ast.In, ast.NotIn)):
                    r = x.comparators[0]
                    raw = isinstance(r, ast.Name) and r.id in opts
                    direct = isinstance(r, ast.Subscript) and isinstance(r.value, ast.Name) and r.value.id == f.kwarg \
                        and const_str(r.slice) is not None and f.kwarg is not None
                    if not (raw or direct):
                        continue
                    if isinstance(x.left, ast.Constant):
                        continue        # a literal looked up in the value: a flag in a dictionary, a character in a string
                    if f.name not in registry_funcs:
                        continue        # only functions called with options parsed from the command line (strings)
                    n += 1
                    obs.append(Ob('R-SUBSTR', f.fq, 'membership test `%s` is not a substring test on an option string' % unparse(x),
                                  False, '`%s` is the raw string given for an option: `in` tests whether the left side is a '
                                  'SUBSTRING of it (e.g. "WP" in "WP$"), not whether it is one of the listed names'
                                  % unparse(r), construct='substr:' + unparse(x), line=x.lineno))
    obs.append(Ob('R-SUBSTR', 'package', 'scan for substring tests on option strings covered every function', True,
                  '%d found' % n, construct='substr-scan', nontrivial=False))
    return obs, {}


def r_deadcheck(prog, tier):
    obs = []
    n = 0
    for mod in MODULES:
        for f in sorted(prog.modules[mod].funcs.values(), key=lambda x: x.fq):
            cfg = f.cfg
            for nm in f.locals:
                defs = name_defs(f, nm)
                gets = [(nid, v) for (nid, v) in defs if isinstance(v, ast.Call) and isinstance(v.func, ast.Attribute)
                        and v.func.attr == 'get' and len(v.args) == 2]
                others = [d for d in defs if d not in gets]
                if not gets or not all(isinstance(d[1], (ast.List, ast.Dict, ast.Tuple, ast.Set)) or
                                       (isinstance(d[1], ast.Constant) and d[1].value is not None) for d in others):
                    continue
                for (nid, v) in gets:
                    dflt = v.args[1]
                    nonnull = isinstance(dflt, ast.Constant) and dflt.value is not None \
                        or isinstance(dflt, (ast.List, ast.Dict, ast.Tuple, ast.Set))
                    if isinstance(dflt, ast.Name) and dflt.id in f.locals:
                        dd = [x for (m, x) in name_defs(f, dflt.id) if m != nid]
                        nonnull = bool(dd) and all(isinstance(x, (ast.List, ast.Dict, ast.Tuple, ast.Set)) or
                                                   (isinstance(x, ast.Constant) and x.value is not None) for x in dd)
                    if not nonnull:
                        continue
                    # a test `nm is None` reached from this definition whose true branch raises
                    for a in cfg.nodes:
                        if a.kind != 'assume' or norm_test(a.ast, a.pol) != ('none', nm, True):
                            continue
                        if a.id not in cfg.reach(nid, avoid=frozenset(m for (m, _) in defs if m != nid)):
                            continue
                        raises = [s for s in cfg.reach(a.id) if cfg.nodes[s].kind == 'stmt' and isinstance(cfg.nodes[s].ast, ast.Raise)
                                  and cfg.dominates(a.id, s)]
                        if raises:
                            n += 1
                            obs.append(Ob('R-DEADCHECK', f.fq, 'the rejection under `%s is None` can fire' % nm, False,
                                          '`%s = %s` never yields None for an absent key (the default is `%s`), so the `raise` '
                                          'under `%s is None` is dead: what it was meant to reject is accepted silently'
                                          % (nm, unparse(v)[:50], unparse(dflt), nm),
                                          construct='deadcheck:%s:%s' % (nm, unparse(v)[:50]), line=cfg.nodes[raises[0]].lineno))
                    # ... or any other test for None: it always has the same outcome, what was meant for the absent key never runs
                    for a in cfg.nodes:
                        if a.kind != 'assume' or norm_test(a.ast, a.pol) != ('none', nm, False):
                            continue
                        if a.id not in cfg.reach(nid, avoid=frozenset(m for (m, _) in defs if m != nid)):
                            continue
                        if any(o_.construct == 'deadcheck:%s:%s' % (nm, unparse(v)[:50]) for o_ in obs):
                            continue
                        n += 1
                        obs.append(Ob('R-DEADCHECK', f.fq, 'the test `%s is not None` can fail' % nm, False,
                                      '`%s = %s` never yields None for an absent key (the default is `%s`), so `%s` is always true: '
                                      'what the code does when the key is absent is what it does when it is given' % (
                                          nm, unparse(v)[:50], unparse(dflt), unparse(a.ast)[:40]),
                                      construct='deadtest:%s:%s' % (nm, unparse(v)[:50]), line=a.lineno))
                        break
            # the same after the lookup was spelled out (x = D; if k in kw: x = kw[k]): every definition is a non-None constant
            # or an option value, so a test for None on x is constant
            if f.kwarg:
                for nm in f.locals:
                    defs = name_defs(f, nm)
                    if len(defs) < 2 or nm in f.params:
                        continue
                    consts_ = [v for (_, v) in defs if isinstance(v, ast.Constant) and v.value is not None and isinstance(v.value, str)]
                    opts_ = [v for (_, v) in defs if isinstance(v, ast.Subscript) and isinstance(v.value, ast.Name)
                             and v.value.id == f.kwarg and isinstance(v.slice, ast.Constant)]
                    if not consts_ or not opts_ or len(consts_) + len(opts_) != len(defs):
                        continue
                    for a in cfg.nodes:
                        if a.kind == 'assume' and norm_test(a.ast, a.pol) == ('none', nm, False):
                            n += 1
                            obs.append(Ob('R-DEADCHECK', f.fq, 'the test `%s is not None` can fail' % nm, False,
                                          '`%s` is `%s` unless the option %s is given, never None: `%s` is always true, so what the code '
                                          'does when the option is absent is what it does when it is given' % (
                                              nm, unparse(consts_[0]), unparse(opts_[0].slice), unparse(a.ast)[:40]),
                                          construct='deadtest-opt:%s' % nm, line=a.lineno))
                            break
            # the same with the lookup written directly in the test:  if d.get(k, D) is None: raise
            for a in cfg.nodes:
                if a.kind != 'assume':
                    continue
                fa = norm_test(a.ast, a.pol)
                if fa[0] != 'none' or fa[2] is not True:
                    continue
                try:
                    e = ast.parse(fa[1], mode='eval').body
                except SyntaxError:
                    continue
                if isinstance(e, ast.Call) and isinstance(e.func, ast.Attribute) and e.func.attr == 'get' and len(e.args) == 2 \
                        and isinstance(e.args[1], ast.Constant) and e.args[1].value is not None:
                    raises = [s_ for s_ in cfg.reach(a.id) if cfg.nodes[s_].kind == 'stmt' and isinstance(cfg.nodes[s_].ast, ast.Raise)
                              and cfg.dominates(a.id, s_)]
                    if raises:
                        n += 1
                        obs.append(Ob('R-DEADCHECK', f.fq, 'the rejection under `%s is None` can fire' % fa[1][:40], False,
                                      '`%s` never yields None for an absent key (the default is `%s`), so the `raise` under it is '
                                      'dead: what it was meant to reject is accepted silently' % (fa[1][:50], unparse(e.args[1])),
                                      construct='deadcheck:' + fa[1][:50], line=cfg.nodes[raises[0]].lineno))
    obs.append(Ob('R-DEADCHECK', 'package', 'scan for presence checks made dead by a non-None default covered every function',
                  True, '%d found' % n, construct='deadcheck-scan', nontrivial=False))
    return obs, {}


def r_falsyzero(prog, tier):
    obs = []
    n = 0
    for mod in MODULES:
        for f in sorted(prog.modules[mod].funcs.values(), key=lambda x: x.fq):
            cfg = f.cfg
            # positions counted from 0: first element of an enumerate target without start
            idx = set()
            for x in ast.walk(f.node):
                if isinstance(x, (ast.For, ast.comprehension)) and isinstance(x.iter, ast.Call) and unparse(x.iter.func) == 'enumerate' \
                        and len(x.iter.args) == 1 and not x.iter.keywords and isinstance(x.target, ast.Tuple) \
                        and x.target.elts and isinstance(x.target.elts[0], ast.Name):
                    idx.add(x.target.elts[0].id)
            for nm in f.locals:
                defs = [v for (_, v) in name_defs(f, nm)]
                if len(defs) < 2 or not all(isinstance(v, ast.AST) for v in defs):
                    continue
                nones = [v for v in defs if isinstance(v, ast.Constant) and v.value is None]
                poss = [v for v in defs if isinstance(v, ast.Name) and v.id in idx]
                if not nones or not poss or len(nones) + len(poss) != len(defs):
                    continue
                for a in cfg.nodes:
                    if a.kind == 'assume' and norm_test(a.ast, a.pol)[0] == 'truthy' and norm_test(a.ast, a.pol)[1] == nm:
                        n += 1
                        obs.append(Ob('R-FALSYZERO', f.fq, 'test `%s` distinguishes "no position" from position 0' % unparse(a.ast), False,
                                      '`%s` is either None or a position counted from 0; its truth value treats position 0 like '
                                      'None' % nm, construct='falsyzero:%s:%s' % (nm, unparse(a.ast)), line=a.lineno))
                        break
    obs.append(Ob('R-FALSYZERO', 'package', 'scan for truthiness tests of index-or-None locals covered every function', True,
                  '%d found' % n, construct='falsyzero-scan', nontrivial=False))
    return obs, {}


def r_dictcomp(prog, tier):
    obs = []
    n = 0
    for mod in MODULES:
        for f in sorted(prog.modules[mod].funcs.values(), key=lambda x: x.fq):
            for x in walk_own(f.node):
                if isinstance(x, ast.DictComp) and len(x.generators) >= 2:
                    keyn = set(y.id for y in ast.walk(x.key) if isinstance(y, ast.Name))
                    inner = set()
                    for g in x.generators[1:]:
                        inner |= set(y.id for y in ast.walk(g.target) if isinstance(y, ast.Name))
                    if inner and not (keyn & inner):
                        n += 1
                        obs.append(Ob('R-DICTCOMP', f.fq, 'dictionary comprehension `%s` keeps every entry it builds' % unparse(x)[:70],
                                      False, 'the key `%s` does not depend on the inner loop variable(s) %s: for each key only the '
                                      'value built last survives' % (unparse(x.key), sorted(inner)),
                                      construct='dictcomp:' + unparse(x)[:70], line=x.lineno))
    obs.append(Ob('R-DICTCOMP', 'package', 'scan for self-overwriting dictionary comprehensions covered every function', True,
                  '%d found' % n, construct='dictcomp-scan', nontrivial=False))
    return obs, {}


def r_staleacc(prog, tier):
    """Inside a loop a location is rebuilt from a copy of itself that was taken before the loop and never refreshed:
    every iteration starts again from the original value, so only the last step survives."""
    obs = []
    n = 0
    from ..core import _unique_assign, path
    for mod in MODULES:
        for f in sorted(prog.modules[mod].funcs.values(), key=lambda x: x.fq):
            cfg = f.cfg
            for m in cfg.eval_nodes():
                if m.kind != 'stmt' or not isinstance(m.ast, ast.Assign) or not m.loops or len(m.ast.targets) != 1:
                    continue
                P = path(m.ast.targets[0])
                if P is None or not isinstance(m.ast.targets[0], (ast.Subscript, ast.Attribute)):
                    continue
                for x in ast.walk(m.ast.value):
                    if isinstance(x, ast.Name) and x.id in f.locals:
                        defs = name_defs(f, x.id)
                        if len(defs) != 1 or not isinstance(defs[0][1], ast.AST):
                            continue
                        dn, dv = defs[0]
                        if path(dv) == P and m.loops[0] not in cfg.nodes[dn].loops and cfg.dominates(dn, m.id) \
                                and not cfg.nodes[dn].loops:
                            # the location itself must not be read in the new value (then it would be up to date)
                            if any(path(y) == P for y in ast.walk(m.ast.value) if isinstance(y, (ast.Subscript, ast.Attribute))):
                                continue
                            n += 1
                            obs.append(Ob('R-STALEACC', f.fq, 'the value built up in `%s` starts from its current content' % P, False,
                                          '`%s = %s` was read once before the loop (line %d); every iteration rebuilds `%s` from '
                                          'that original value, so earlier iterations are overwritten' % (
                                              x.id, unparse(dv), cfg.nodes[dn].lineno, P),
                                          construct='staleacc:%s:%s' % (P, x.id), line=m.lineno))
    obs.append(Ob('R-STALEACC', 'package', 'scan for accumulations restarted from a stale copy covered every function', True,
                  '%d found' % n, construct='staleacc-scan', nontrivial=False))
    return obs, {}


def r_zerotable(prog, tier):
    """A table created with a zero for every key (a counter table) is assigned a count inside a loop instead of being
    added to: when a key comes up twice only the last count survives."""
    obs = []
    n = 0
    for mod in MODULES:
        for f in sorted(prog.modules[mod].funcs.values(), key=lambda x: x.fq):
            cfg = f.cfg
            zero = set()
            for nm in f.locals:
                defs = [v for (_, v) in name_defs(f, nm)]
                if len(defs) == 1 and isinstance(defs[0], ast.AST):
                    v = defs[0]
                    if isinstance(v, ast.DictComp) and isinstance(v.value, ast.Constant) and v.value.value == 0:
                        zero.add(nm)
                    elif isinstance(v, ast.Call) and unparse(v.func) in ('dict.fromkeys',) and len(v.args) == 2 \
                            and isinstance(v.args[1], ast.Constant) and v.args[1].value == 0:
                        zero.add(nm)
            for m in cfg.eval_nodes():
                if m.kind == 'stmt' and isinstance(m.ast, ast.Assign) and m.loops and len(m.ast.targets) == 1 \
                        and isinstance(m.ast.targets[0], ast.Subscript) and isinstance(m.ast.targets[0].value, ast.Name) \
                        and m.ast.targets[0].value.id in zero and not isinstance(m.ast.value, ast.Constant):
                    t = unparse(m.ast.targets[0])
                    if t in unparse(m.ast.value):
                        continue            # T[k] = T[k] + v
                    adds = any(x.kind == 'stmt' and isinstance(x.ast, ast.AugAssign) and unparse(x.ast.target) == t for x in cfg.eval_nodes())
                    n += 1
                    obs.append(Ob('R-ZEROTABLE', f.fq, 'counter table entry `%s` is added to' % t, False,
                                  '`%s` starts at 0 for every key and is ASSIGNED `%s` inside a loop: when a key comes up again the '
                                  'earlier count is lost' % (m.ast.targets[0].value.id, unparse(m.ast.value)[:40]),
                                  construct='zerotable:' + unparse(m.ast)[:60], line=m.lineno))
    obs.append(Ob('R-ZEROTABLE', 'package', 'scan for assigned (not accumulated) counter tables covered every function', True,
                  '%d found' % n, construct='zerotable-scan', nontrivial=False))
    return obs, {}


def r_strsort(prog, tier):
    """Numbers (token positions, node numbers) are sorted by their text: 1, 10, 11, 2, ..."""
    obs = []
    n = 0

    def textual(k):
        if isinstance(k, ast.Name) and k.id in ('str', 'repr', 'unicode'):
            return True
        if isinstance(k, ast.Lambda) and len(k.args.args) == 1 and isinstance(k.body, ast.Call) \
                and isinstance(k.body.func, ast.Name) and k.body.func.id in ('str', 'repr', 'unicode', 'format') \
                and len(k.body.args) == 1 and isinstance(k.body.args[0], ast.Name) and k.body.args[0].id == k.args.args[0].arg:
            return True
        return False

    def numberish(e):
        if isinstance(e, ast.Subscript) and isinstance(e.slice, ast.Constant) and e.slice.value == 'num' \
                and isinstance(e.value, ast.Attribute) and e.value.attr == 'data':
            return True
        if isinstance(e, ast.Constant) and isinstance(e.value, int) and not isinstance(e.value, bool):
            return True
        if isinstance(e, ast.Call) and isinstance(e.func, ast.Name) and e.func.id in ('int', 'len'):
            return True
        return False
    for mod in MODULES:
        for f in sorted(prog.modules[mod].funcs.values(), key=lambda x: x.fq):
            for c in walk_own(f.node):
                if not isinstance(c, ast.Call):
                    continue
                key = next((k.value for k in c.keywords if k.arg == 'key'), None)
                if key is None or not textual(key):
                    continue
                if isinstance(c.func, ast.Name) and c.func.id in ('sorted', 'min', 'max') and c.args:
                    src = c.args[0]
                elif isinstance(c.func, ast.Attribute) and c.func.attr == 'sort':
                    src = c.func.value
                else:
                    continue
                while isinstance(src, ast.Call) and ((isinstance(src.func, ast.Attribute) and src.func.attr == 'keys'
                                                      and not src.args) or (isinstance(src.func, ast.Name)
                                                                            and src.func.id in ('list', 'tuple', 'set') and len(src.args) == 1)):
                    src = src.func.value if isinstance(src.func, ast.Attribute) else src.args[0]
                numeric = False
                if isinstance(src, ast.Name) and src.id in f.locals:
                    keys = [x.targets[0].slice for x in walk_own(f.node) if isinstance(x, ast.Assign) and len(x.targets) == 1
                            and isinstance(x.targets[0], ast.Subscript) and isinstance(x.targets[0].value, ast.Name)
                            and x.targets[0].value.id == src.id]
                    apps = [x.args[0] for x in walk_own(f.node) if isinstance(x, ast.Call) and isinstance(x.func, ast.Attribute)
                            and x.func.attr in ('append', 'add') and isinstance(x.func.value, ast.Name) and x.func.value.id == src.id
                            and len(x.args) == 1]
                    defs = [v for (_, v) in name_defs(f, src.id) if isinstance(v, ast.AST)]
                    empty = all(isinstance(v, (ast.Dict, ast.List, ast.Set)) and not (getattr(v, 'keys', None) or getattr(v, 'elts', None))
                                or (isinstance(v, ast.Call) and isinstance(v.func, ast.Name) and v.func.id in ('dict', 'list', 'set') and not v.args)
                                for v in defs)
                    items = keys + apps
                    numeric = bool(items) and empty and all(numberish(k) for k in items)
                elif isinstance(src, (ast.ListComp, ast.GeneratorExp, ast.SetComp)):
                    numeric = numberish(src.elt)
                if numeric:
                    n += 1
                    obs.append(Ob('R-STRSORT', f.fq, 'numbers are put in numeric order: `%s`' % unparse(c)[:60], False,
                                  'the sorted values are token / node numbers and the key turns them into text: 10 sorts before 2, '
                                  'so sentences of ten or more tokens come out in the wrong order', construct='strsort:' + unparse(c)[:60],
                                  line=c.lineno))
    obs.append(Ob('R-STRSORT', 'package', 'scan for numbers sorted by their text covered every function', True,
                  '%d found' % n, construct='strsort-scan', nontrivial=False))
    return obs, {}


def r_fmtdata(prog, tier):
    """A %-format string is assembled from data: `(text + " ||| %s") % x` interprets the `%` characters of the text."""
    obs = []
    n = 0
    from ..core import _unique_assign

    def parts(e):
        if isinstance(e, ast.BinOp) and isinstance(e.op, ast.Add):
            return parts(e.left) + parts(e.right)
        return [e]
    for mod in MODULES:
        for f in sorted(prog.modules[mod].funcs.values(), key=lambda x: x.fq):
            for c in walk_own(f.node):
                if not (isinstance(c, ast.BinOp) and isinstance(c.op, ast.Mod)):
                    continue
                left = c.left
                if isinstance(left, ast.Name) and left.id in f.locals:
                    v = _unique_assign(f, left.id)
                    if isinstance(v, ast.AST):
                        left = v
                ps = parts(left)
                if len(ps) < 2:
                    continue
                lits = [p_ for p_ in ps if isinstance(p_, ast.Constant) and isinstance(p_.value, str)]
                data = [p_ for p_ in ps if not isinstance(p_, ast.Constant)]
                if data and any('%' in p_.value.replace('%%', '') for p_ in lits):
                    n += 1
                    obs.append(Ob('R-FMTDATA', f.fq, 'format strings are literals: `%s`' % unparse(c)[:60], False,
                                  'the format string is assembled from `%s` and a literal: a `%%` in that text is read as a '
                                  'conversion (`100%%` raises, `%%%%` loses a character)' % unparse(data[0])[:40],
                                  construct='fmtdata:' + unparse(c)[:60], line=c.lineno))
    obs.append(Ob('R-FMTDATA', 'package', 'scan for format strings assembled from data covered every function', True,
                  '%d found' % n, construct='fmtdata-scan', nontrivial=False))
    return obs, {}


def r_counterunion(prog, tier):
    """`table |= Counter(...)`: the union of counters keeps the larger count, it does not add."""
    obs = []
    n = 0
    for mod in MODULES:
        for f in sorted(prog.modules[mod].funcs.values(), key=lambda x: x.fq):
            for c in walk_own(f.node):
                hit = None
                if isinstance(c, ast.AugAssign) and isinstance(c.op, ast.BitOr) and isinstance(c.value, ast.Call) \
                        and unparse(c.value.func) in ('Counter', 'collections.Counter'):
                    hit = c
                if isinstance(c, ast.BinOp) and isinstance(c.op, ast.BitOr) and any(
                        isinstance(x, ast.Call) and unparse(x.func) in ('Counter', 'collections.Counter') for x in (c.left, c.right)):
                    hit = c
                if hit is not None:
                    n += 1
                    obs.append(Ob('R-COUNTERUNION', f.fq, 'counts are added: `%s`' % unparse(hit)[:60], False,
                                  '`|` on counters is the union (the LARGER of the two counts per key), not the sum: a word seen '
                                  'twice with the same tag still counts once', construct='cunion:' + unparse(hit)[:60], line=hit.lineno))
    obs.append(Ob('R-COUNTERUNION', 'package', 'scan for counter unions covered every function', True, '%d found' % n,
                  construct='cunion-scan', nontrivial=False))
    return obs, {}


def r_instr(prog, tier):
    """`x in ('negra')` - a parenthesised string, not a tuple: the test is a substring test."""
    obs = []
    n = 0
    for mod in MODULES:
        for f in sorted(prog.modules[mod].funcs.values(), key=lambda x: x.fq):
            for c in walk_own(f.node):
                if isinstance(c, ast.Compare) and len(c.ops) == 1 and isinstance(c.ops[0], (ast.In, ast.NotIn)) \
                        and isinstance(c.comparators[0], ast.Constant) and isinstance(c.comparators[0].value, str) \
                        and len(c.comparators[0].value) >= 2 and any(ch.isalpha() for ch in c.comparators[0].value) \
                        and not isinstance(c.left, ast.Constant):
                    n += 1
                    lit = c.comparators[0].value
                    obs.append(Ob('R-INSTR', f.fq, 'membership in a collection of names, not in one name: `%s`' % unparse(c)[:60], False,
                                  'the right-hand side is the string %r (parentheses do not make a tuple): the test holds for every '
                                  'substring of it - %r, %r and the empty string are accepted like %r' % (lit, lit[:-1], lit[1:3], lit),
                                  construct='instr:' + unparse(c)[:60], line=c.lineno))
    obs.append(Ob('R-INSTR', 'package', 'scan for membership tests against a single string covered every function', True,
                  '%d found' % n, construct='instr-scan', nontrivial=False))
    return obs, {}


def r_ordefault(prog, tier):
    """`kw.get(k) or DEFAULT`: an option given with an empty or zero value is replaced by the default."""
    obs = []
    n = 0
    for mod in MODULES:
        for f in sorted(prog.modules[mod].funcs.values(), key=lambda x: x.fq):
            if not f.kwarg:
                continue
            for c in walk_own(f.node):
                if not (isinstance(c, ast.BoolOp) and isinstance(c.op, ast.Or) and len(c.values) == 2):
                    continue
                l, r = c.values
                from_kw = (isinstance(l, ast.Call) and isinstance(l.func, ast.Attribute) and l.func.attr == 'get'
                           and isinstance(l.func.value, ast.Name) and l.func.value.id == f.kwarg and len(l.args) == 1) or \
                          (isinstance(l, ast.Subscript) and isinstance(l.value, ast.Name) and l.value.id == f.kwarg)
                if from_kw and not (isinstance(r, ast.Constant) and r.value is None):
                    n += 1
                    obs.append(Ob('R-ORDEFAULT', f.fq, 'an option that is given is used as given: `%s`' % unparse(c)[:60], False,
                                  '`or` replaces every falsy value, not only a missing one: an option explicitly given as the empty '
                                  'string (or 0) is silently replaced by `%s`' % unparse(r)[:30],
                                  construct='ordefault:' + unparse(c)[:60], line=c.lineno))
    obs.append(Ob('R-ORDEFAULT', 'package', 'scan for option values defaulted with `or` covered every function', True,
                  '%d found' % n, construct='ordefault-scan', nontrivial=False))
    return obs, {}


def r_keycopy(prog, tier):
    """In a block that copies fields from one node to another field by field, one line copies ANOTHER field."""
    obs = []
    n = 0
    for mod in MODULES:
        for f in sorted(prog.modules[mod].funcs.values(), key=lambda x: x.fq):
            for blk in ast.walk(f.node):
                for fld in ('body', 'orelse'):
                    lst = getattr(blk, fld, None)
                    if not (isinstance(lst, list) and lst and isinstance(lst[0], ast.stmt)):
                        continue
                    copies = []
                    for st in lst:
                        if isinstance(st, ast.Assign) and len(st.targets) == 1 and isinstance(st.targets[0], ast.Subscript) \
                                and isinstance(st.targets[0].value, ast.Attribute) and st.targets[0].value.attr == 'data' \
                                and isinstance(st.value, ast.Subscript) and isinstance(st.value.value, ast.Attribute) \
                                and st.value.value.attr == 'data' and isinstance(st.targets[0].slice, ast.Constant) \
                                and isinstance(st.value.slice, ast.Constant):
                            copies.append((unparse(st.targets[0].value.value), unparse(st.value.value.value),
                                           st.targets[0].slice.value, st.value.slice.value, st))
                    for (a_, b_, k1, k2, st) in copies:
                        if k1 == k2 or a_ == b_:
                            continue
                        same = [c_ for c_ in copies if c_[0] == a_ and c_[1] == b_ and c_[2] == c_[3]]
                        dup = [c_ for c_ in same if c_[3] == k2]
                        if len(same) >= 2 and dup and not any(c_[3] == k1 for c_ in copies if c_[0] == a_ and c_[1] == b_):
                            n += 1
                            obs.append(Ob('R-KEYCOPY', f.fq, 'fields are copied to the field of the same name: `%s`' % unparse(st)[:60], False,
                                          'the neighbouring lines copy `%s` to `%s` field by field; this one fills %r from %r, which the '
                                          'block copies a second time, and %r of the source is never read' % (b_[:30], a_[:30], k1, k2, k1),
                                          construct='keycopy:' + unparse(st)[:60], line=st.lineno))
    obs.append(Ob('R-KEYCOPY', 'package', 'scan for crossed field copies covered every function', True, '%d found' % n,
                  construct='keycopy-scan', nontrivial=False))
    return obs, {}


def r_sharedmut(prog, tier):
    """One mutable object, made before a loop, is stored into many slots inside it and later changed through a slot."""
    obs = []
    n = 0
    for mod in MODULES:
        for f in sorted(prog.modules[mod].funcs.values(), key=lambda x: x.fq):
            cfg = f.cfg
            for nm in sorted(f.locals):
                dv = name_defs(f, nm)
                if len(dv) != 1 or not isinstance(dv[0][1], ast.AST):
                    continue
                dn, v = dv[0]
                mutable = isinstance(v, (ast.Dict, ast.List, ast.Set)) or (
                    isinstance(v, ast.Call) and isinstance(v.func, ast.Name) and v.func.id in ('dict', 'list', 'set', 'defaultdict', 'Counter'))
                if not mutable:
                    continue
                for m in cfg.eval_nodes():
                    if m.kind != 'stmt' or not isinstance(m.ast, ast.Assign) or not m.loops or len(m.ast.targets) != 1:
                        continue
                    t = m.ast.targets[0]
                    if not (isinstance(t, ast.Subscript) and isinstance(m.ast.value, ast.Name) and m.ast.value.id == nm):
                        continue
                    if m.loops[0] in cfg.nodes[dn].loops:
                        continue            # made afresh in the same loop
                    slot = unparse(t)
                    # changed through the slot somewhere (an element store or an augmented assignment on the slot)
                    muts = [x for x in cfg.eval_nodes() if x.kind == 'stmt' and isinstance(x.ast, (ast.Assign, ast.AugAssign))
                            and any(isinstance(tt, ast.Subscript) and unparse(tt.value) == slot
                                    for tt in (x.ast.targets if isinstance(x.ast, ast.Assign) else [x.ast.target]))]
                    if muts:
                        n += 1
                        obs.append(Ob('R-SHAREDMUT', f.fq, 'every slot gets an object of its own: `%s`' % unparse(m.ast)[:60], False,
                                      '`%s = %s` (line %d) is made once, before the loop; every `%s` stored inside it is that same object, '
                                      'and `%s` (line %d) changes it for all of them: the last value wins everywhere' % (
                                          nm, unparse(v)[:30], cfg.nodes[dn].lineno, slot[:40], unparse(muts[0].ast)[:40], muts[0].lineno),
                                      construct='sharedmut:%s:%s' % (nm, slot[:40]), line=m.lineno))
    obs.append(Ob('R-SHAREDMUT', 'package', 'scan for one mutable object stored into many slots covered every function', True,
                  '%d found' % n, construct='sharedmut-scan', nontrivial=False))
    return obs, {}


def r_leakvar(prog, tier):
    """Inside an outer loop, the variable of a finished inner `for` loop is read after that loop and is bound nowhere
    else: it holds the leftover of the last inner iteration - or, when the inner loop did not run for this outer
    element, the leftover of an earlier outer element (or nothing at all)."""
    obs = []
    n = 0
    for mod in MODULES:
        for f in sorted(prog.modules[mod].funcs.values(), key=lambda x: x.fq):
            fn = f.node
            parents = {}
            for p_ in ast.walk(fn):
                for c_ in ast.iter_child_nodes(p_):
                    parents[c_] = p_

            def chain(x):
                out = []
                while x in parents:
                    x = parents[x]
                    out.append(x)
                return out
            loops = [x for x in walk_own(fn) if isinstance(x, ast.For)]
            stores = {}
            for x in walk_own(fn):
                if isinstance(x, ast.Name) and isinstance(x.ctx, (ast.Store, ast.Del)):
                    stores.setdefault(x.id, []).append(x)
            for L in loops:
                outer = [a for a in chain(L) if isinstance(a, (ast.For, ast.While))]
                if not outer:
                    continue
                tnames = set(x.id for x in ast.walk(L.target) if isinstance(x, ast.Name))
                for t in sorted(tnames):
                    if t in f.params:
                        continue
                    # bound only as the target of statement loops none of which encloses the use (checked below)
                    binders = []
                    okb = True
                    for st_ in stores.get(t, []):
                        ch = chain(st_)
                        b = next((a for a in ch if isinstance(a, (ast.For, ast.comprehension)) and any(
                            y is st_ for y in ast.walk(a.target))), None)
                        if b is None:
                            okb = False
                        else:
                            binders.append(b)
                    if not okb:
                        continue
                    for u in walk_own(fn):
                        if not (isinstance(u, ast.Name) and u.id == t and isinstance(u.ctx, ast.Load)):
                            continue
                        ch = chain(u)
                        if any(b in ch for b in binders):
                            continue        # inside (the header or body of) a loop / comprehension that binds it
                        # comprehension elements are children of the ListComp, the binder is the comprehension node
                        comp_bound = False
                        for a in ch:
                            if isinstance(a, (ast.ListComp, ast.SetComp, ast.GeneratorExp, ast.DictComp)):
                                if any(t in [y.id for y in ast.walk(g.target) if isinstance(y, ast.Name)] for g in a.generators):
                                    comp_bound = True
                        if comp_bound:
                            continue
                        if outer[0] not in ch:
                            continue
                        if not (getattr(u, 'lineno', 0) > getattr(L, 'end_lineno', 0)):
                            continue
                        # every binder of the name that precedes the use lies inside the same outer loop body
                        n += 1
                        obs.append(Ob('R-LEAKVAR', f.fq, 'the loop variable `%s` is read only where its loop binds it' % t, False,
                                      '`%s` is the variable of the loop at line %d and of nothing else; it is read at line %d, after '
                                      'that loop, inside the enclosing loop: it holds the leftover of the last iteration, or of an '
                                      'earlier outer element when the inner loop does not run' % (t, L.lineno, u.lineno),
                                      construct='leakvar:%s:%s' % (t, unparse(parents.get(u, u))[:50]), line=u.lineno))
                        break
    obs.append(Ob('R-LEAKVAR', 'package', 'scan for inner-loop variables read after their loop covered every function', True,
                  '%d found' % n, construct='leakvar-scan', nontrivial=False))
    return obs, {}


# --------------------------------------------------------------------------- fixtures: the patterns must be found

FIXTURE = {
    'transform': """
from . import trees
from collections import Counter
def fx(tree, **params):
    keep = params['keep']
    if tree.data['label'] in keep:
        return None
    idx = None
    for i, x in enumerate(tree.children):
        idx = i
    if not idx:
        pass
    v = tree.data.get('head', False)
    if v is None:
        raise ValueError('x')
    d = {a: {b: 1} for a in tree.children for b in a.children}
    lab = tree.data['label']
    while len(tree.children) == 1:
        tree.data['label'] = lab + '+' + tree.children[0].data['label']
        tree = tree.children[0]
    starts = {c: 0 for c in tree.children}
    for c in tree.children:
        starts[c] = len(c.children)
    for c in tree.children:
        for g in c.children:
            g.data['x'] = 1
        c.data['y'] = g.data['x']
    byn = {}
    for c in tree.children:
        byn[c.data['num']] = c
    for k in sorted(byn.keys(), key=str):
        pass
    seen = Counter()
    seen |= Counter([lab])
    line = lab + " ||| %s"
    out = line % idx
    if lab in ('negra'):
        pass
    sep = params.get('sep') or '-'
    tree.data['num'] = tree.children[0].data['num']
    tree.data['word'] = tree.children[0].data['lemma']
    tree.data['lemma'] = tree.children[0].data['lemma']
    zero = {'x': 0}
    table = {}
    for c in tree.children:
        table[c] = zero
        table[c]['x'] = len(c.children)
    return tree
TRANSFORMATIONS = [fx]
""",
    'treeinput': "INPUT_FORMATS = []\n",
    'treeoutput': "OUTPUT_FORMATS = []\n",
}
_FIXTURE_DONE = {}


def _with_fixture(name, fn):
    """Wrap a zero-instance rule: on every run it must still find its pattern in the fixture."""
    def run(prog, tier):
        if name not in _FIXTURE_DONE:
            from ..core import Program, AnalysisError
            try:
                fx = Program(sources=FIXTURE)
                got = [o for o in fn(fx, tier)[0] if not o.ok]
            except AnalysisError:
                raise
            except Exception as e:
                raise AnalysisError('rule %s cannot be run on its fixture (%s: %s): the checker is broken' % (name, type(e).__name__, e))
            if not got:
                raise AnalysisError('rule %s no longer fires on its fixture: the checker is broken' % name)
            _FIXTURE_DONE[name] = len(got)
        obs, c = fn(prog, tier)
        c = dict(c)
        c['fixture_%s' % name] = 'pattern found in the built-in positive example'
        return obs, c
    return run


r_substr = _with_fixture('R-SUBSTR', r_substr)
r_deadcheck = _with_fixture('R-DEADCHECK', r_deadcheck)
r_falsyzero = _with_fixture('R-FALSYZERO', r_falsyzero)
r_dictcomp = _with_fixture('R-DICTCOMP', r_dictcomp)
r_staleacc = _with_fixture('R-STALEACC', r_staleacc)
r_zerotable = _with_fixture('R-ZEROTABLE', r_zerotable)
r_leakvar = _with_fixture('R-LEAKVAR', r_leakvar)
r_strsort = _with_fixture('R-STRSORT', r_strsort)
r_fmtdata = _with_fixture('R-FMTDATA', r_fmtdata)
r_counterunion = _with_fixture('R-COUNTERUNION', r_counterunion)
r_instr = _with_fixture('R-INSTR', r_instr)
r_ordefault = _with_fixture('R-ORDEFAULT', r_ordefault)
r_keycopy = _with_fixture('R-KEYCOPY', r_keycopy)
r_sharedmut = _with_fixture('R-SHAREDMUT', r_sharedmut)
