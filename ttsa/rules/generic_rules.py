"""Contradiction / misuse patterns that are wrong whatever the surrounding code does (each VIOLATED only on the
recognised pattern, silent otherwise).

R-SUBSTR     `x in v` where v holds the raw string value of an option: a substring test where membership in a list of
             names is meant
R-DEADCHECK  v = d.get(k, D) with D not None, followed by a test `v is None` that guards a raise: the check can never fire
R-FALSYZERO  truthiness test of a local that holds either None or a position counted from 0
R-DICTCOMP   dict comprehension with several generators whose key ignores the inner ones: entries overwrite each other
"""
import ast

from ..core import Unrecognised, unparse, walk_own, norm_test, facts_at, const_str
from ..events import name_defs
from ..report import Ob

MODULES = ('trees', 'treeinput', 'treeoutput', 'transform', 'transformconst', 'treeanalysis', 'grammar',
           'grammaranalysis', 'grammarinput', 'grammaroutput', 'transitions', 'transitionoutput', 'misc')


def _option_string_locals(f):
    """locals every definition of which is the raw value of an option (kw['k'] / kw.get('k', <str>)) or None / ''"""
    out = set()
    if not f.kwarg:
        return out
    for nm in f.locals:
        defs = [v for (_, v) in name_defs(f, nm)]
        if not defs or not all(isinstance(v, ast.AST) for v in defs):
            continue
        raw = 0
        ok = True
        for v in defs:
            if isinstance(v, ast.Subscript) and isinstance(v.value, ast.Name) and v.value.id == f.kwarg and const_str(v.slice):
                raw += 1
            elif isinstance(v, ast.Call) and isinstance(v.func, ast.Attribute) and v.func.attr == 'get' \
                    and isinstance(v.func.value, ast.Name) and v.func.value.id == f.kwarg:
                raw += 1
            elif isinstance(v, ast.Constant) and (v.value is None or v.value == ''):
                pass
            else:
                ok = False
        if ok and raw:
            out.add(nm)
    return out


def r_substr(prog, tier):
    obs = []
    n = 0
    registry_funcs = set(prog.registry('transform', 'TRANSFORMATIONS')) | set(prog.registry('treeinput', 'INPUT_FORMATS')) \
        | set(prog.registry('treeoutput', 'OUTPUT_FORMATS'))
    for mod in MODULES:
        for f in sorted(prog.modules[mod].funcs.values(), key=lambda x: x.fq):
            opts = _option_string_locals(f)
            for x in walk_own(f.node):
                if isinstance(x, ast.Compare) and len(x.ops) == 1 and isinstance(x.ops[0], (ast.In, ast.NotIn)):
                    r = x.comparators[0]
                    raw = isinstance(r, ast.Name) and r.id in opts
                    direct = isinstance(r, ast.Subscript) and isinstance(r.value, ast.Name) and r.value.id == f.kwarg \
                        and const_str(r.slice) is not None and f.kwarg is not None
                    if not (raw or direct):
                        continue
                    if isinstance(x.left, ast.Constant):
                        continue        # a literal looked up in the value: a flag in a dictionary, a character in a string
                    if f.name not in registry_funcs:
                        continue        # only functions called with options parsed from the command line (strings)
                    n += 1
                    obs.append(Ob('R-SUBSTR', f.fq, 'membership test `%s` is not a substring test on an option string' % unparse(x),
                                  False, '`%s` is the raw string given for an option: `in` tests whether the left side is a '
                                  'SUBSTRING of it (e.g. "WP" in "WP$"), not whether it is one of the listed names'
                                  % unparse(r), construct='substr:' + unparse(x), line=x.lineno))
    obs.append(Ob('R-SUBSTR', 'package', 'scan for substring tests on option strings covered every function', True,
                  '%d found' % n, construct='substr-scan', nontrivial=False))
    return obs, {}


def r_deadcheck(prog, tier):
    obs = []
    n = 0
    for mod in MODULES:
        for f in sorted(prog.modules[mod].funcs.values(), key=lambda x: x.fq):
            cfg = f.cfg
            for nm in f.locals:
                defs = name_defs(f, nm)
                gets = [(nid, v) for (nid, v) in defs if isinstance(v, ast.Call) and isinstance(v.func, ast.Attribute)
                        and v.func.attr == 'get' and len(v.args) == 2]
                others = [d for d in defs if d not in gets]
                if not gets or not all(isinstance(d[1], (ast.List, ast.Dict, ast.Tuple, ast.Set)) or
                                       (isinstance(d[1], ast.Constant) and d[1].value is not None) for d in others):
                    continue
                for (nid, v) in gets:
                    dflt = v.args[1]
                    nonnull = isinstance(dflt, ast.Constant) and dflt.value is not None \
                        or isinstance(dflt, (ast.List, ast.Dict, ast.Tuple, ast.Set))
                    if isinstance(dflt, ast.Name) and dflt.id in f.locals:
                        dd = [x for (m, x) in name_defs(f, dflt.id) if m != nid]
                        nonnull = bool(dd) and all(isinstance(x, (ast.List, ast.Dict, ast.Tuple, ast.Set)) or
                                                   (isinstance(x, ast.Constant) and x.value is not None) for x in dd)
                    if not nonnull:
                        continue
                    # a test `nm is None` reached from this definition whose true branch raises
                    for a in cfg.nodes:
                        if a.kind != 'assume' or norm_test(a.ast, a.pol) != ('none', nm, True):
                            continue
                        if a.id not in cfg.reach(nid, avoid=frozenset(m for (m, _) in defs if m != nid)):
                            continue
                        raises = [s for s in cfg.reach(a.id) if cfg.nodes[s].kind == 'stmt' and isinstance(cfg.nodes[s].ast, ast.Raise)
                                  and cfg.dominates(a.id, s)]
                        if raises:
                            n += 1
                            obs.append(Ob('R-DEADCHECK', f.fq, 'the rejection under `%s is None` can fire' % nm, False,
                                          '`%s = %s` never yields None for an absent key (the default is `%s`), so the `raise` '
                                          'under `%s is None` is dead: what it was meant to reject is accepted silently'
                                          % (nm, unparse(v)[:50], unparse(dflt), nm),
                                          construct='deadcheck:%s:%s' % (nm, unparse(v)[:50]), line=cfg.nodes[raises[0]].lineno))
                    # ... or any other test for None: it always has the same outcome, what was meant for the absent key never runs
                    for a in cfg.nodes:
                        if a.kind != 'assume' or norm_test(a.ast, a.pol) != ('none', nm, False):
                            continue
                        if a.id not in cfg.reach(nid, avoid=frozenset(m for (m, _) in defs if m != nid)):
                            continue
                        if any(o_.construct == 'deadcheck:%s:%s' % (nm, unparse(v)[:50]) for o_ in obs):
                            continue
                        n += 1
                        obs.append(Ob('R-DEADCHECK', f.fq, 'the test `%s is not None` can fail' % nm, False,
                                      '`%s = %s` never yields None for an absent key (the default is `%s`), so `%s` is always true: '
                                      'what the code does when the key is absent is what it does when it is given' % (
                                          nm, unparse(v)[:50], unparse(dflt), unparse(a.ast)[:40]),
                                      construct='deadtest:%s:%s' % (nm, unparse(v)[:50]), line=a.lineno))
                        break
            # the same after the lookup was spelled out (x = D; if k in kw: x = kw[k]): every definition is a non-None constant
            # or an option value, so a test for None on x is constant
            if f.kwarg:
                for nm in f.locals:
                    defs = name_defs(f, nm)
                    if len(defs) < 2 or nm in f.params:
                        continue
                    consts_ = [v for (_, v) in defs if isinstance(v, ast.Constant) and v.value is not None and isinstance(v.value, str)]
                    opts_ = [v for (_, v) in defs if isinstance(v, ast.Subscript) and isinstance(v.value, ast.Name)
                             and v.value.id == f.kwarg and isinstance(v.slice, ast.Constant)]
                    if not consts_ or not opts_ or len(consts_) + len(opts_) != len(defs):
                        continue
                    for a in cfg.nodes:
                        if a.kind == 'assume' and norm_test(a.ast, a.pol) == ('none', nm, False):
                            n += 1
                            obs.append(Ob('R-DEADCHECK', f.fq, 'the test `%s is not None` can fail' % nm, False,
                                          '`%s` is `%s` unless the option %s is given, never None: `%s` is always true, so what the code '
                                          'does when the option is absent is what it does when it is given' % (
                                              nm, unparse(consts_[0]), unparse(opts_[0].slice), unparse(a.ast)[:40]),
                                          construct='deadtest-opt:%s' % nm, line=a.lineno))
                            break
            # the same with the lookup written directly in the test:  if d.get(k, D) is None: raise
            for a in cfg.nodes:
                if a.kind != 'assume':
                    continue
                fa = norm_test(a.ast, a.pol)
                if fa[0] != 'none' or fa[2] is not True:
                    continue
                try:
                    e = ast.parse(fa[1], mode='eval').body
                except SyntaxError:
                    continue
                if isinstance(e, ast.Call) and isinstance(e.func, ast.Attribute) and e.func.attr == 'get' and len(e.args) == 2 \
                        and isinstance(e.args[1], ast.Constant) and e.args[1].value is not None:
                    raises = [s_ for s_ in cfg.reach(a.id) if cfg.nodes[s_].kind == 'stmt' and isinstance(cfg.nodes[s_].ast, ast.Raise)
                              and cfg.dominates(a.id, s_)]
                    if raises:
                        n += 1
                        obs.append(Ob('R-DEADCHECK', f.fq, 'the rejection under `%s is None` can fire' % fa[1][:40], False,
                                      '`%s` never yields None for an absent key (the default is `%s`), so the `raise` under it is '
                                      'dead: what it was meant to reject is accepted silently' % (fa[1][:50], unparse(e.args[1])),
                                      construct='deadcheck:' + fa[1][:50], line=cfg.nodes[raises[0]].lineno))
    obs.append(Ob('R-DEADCHECK', 'package', 'scan for presence checks made dead by a non-None default covered every function',
                  True, '%d found' % n, construct='deadcheck-scan', nontrivial=False))
    return obs, {}


def r_falsyzero(prog, tier):
    obs = []
    n = 0
    for mod in MODULES:
        for f in sorted(prog.modules[mod].funcs.values(), key=lambda x: x.fq):
            cfg = f.cfg
            # positions counted from 0: first element of an enumerate target without start
            idx = set()
            for x in ast.walk(f.node):
                if isinstance(x, (ast.For, ast.comprehension)) and isinstance(x.iter, ast.Call) and unparse(x.iter.func) == 'enumerate' \
                        and len(x.iter.args) == 1 and not x.iter.keywords and isinstance(x.target, ast.Tuple) \
                        and x.target.elts and isinstance(x.target.elts[0], ast.Name):
                    idx.add(x.target.elts[0].id)
            for nm in f.locals:
                defs = [v for (_, v) in name_defs(f, nm)]
                if len(defs) < 2 or not all(isinstance(v, ast.AST) for v in defs):
                    continue
                nones = [v for v in defs if isinstance(v, ast.Constant) and v.value is None]
                poss = [v for v in defs if isinstance(v, ast.Name) and v.id in idx]
                if not nones or not poss or len(nones) + len(poss) != len(defs):
                    continue
                for a in cfg.nodes:
                    if a.kind == 'assume' and norm_test(a.ast, a.pol)[0] == 'truthy' and norm_test(a.ast, a.pol)[1] == nm:
                        n += 1
                        obs.append(Ob('R-FALSYZERO', f.fq, 'test `%s` distinguishes "no position" from position 0' % unparse(a.ast), False,
                                      '`%s` is either None or a position counted from 0; its truth value treats position 0 like '
                                      'None' % nm, construct='falsyzero:%s:%s' % (nm, unparse(a.ast)), line=a.lineno))
                        break
    obs.append(Ob('R-FALSYZERO', 'package', 'scan for truthiness tests of index-or-None locals covered every function', True,
                  '%d found' % n, construct='falsyzero-scan', nontrivial=False))
    return obs, {}


def r_dictcomp(prog, tier):
    obs = []
    n = 0
    for mod in MODULES:
        for f in sorted(prog.modules[mod].funcs.values(), key=lambda x: x.fq):
            for x in walk_own(f.node):
                if isinstance(x, ast.DictComp) and len(x.generators) >= 2:
                    keyn = set(y.id for y in ast.walk(x.key) if isinstance(y, ast.Name))
                    inner = set()
                    for g in x.generators[1:]:
                        inner |= set(y.id for y in ast.walk(g.target) if isinstance(y, ast.Name))
                    if inner and not (keyn & inner):
                        n += 1
                        obs.append(Ob('R-DICTCOMP', f.fq, 'dictionary comprehension `%s` keeps every entry it builds' % unparse(x)[:70],
                                      False, 'the key `%s` does not depend on the inner loop variable(s) %s: for each key only the '
                                      'value built last survives' % (unparse(x.key), sorted(inner)),
                                      construct='dictcomp:' + unparse(x)[:70], line=x.lineno))
    obs.append(Ob('R-DICTCOMP', 'package', 'scan for self-overwriting dictionary comprehensions covered every function', True,
                  '%d found' % n, construct='dictcomp-scan', nontrivial=False))
    return obs, {}


def r_staleacc(prog, tier):
    """Inside a loop a location is rebuilt from a copy of itself that was taken before the loop and never refreshed:
    every iteration starts again from the original value, so only the last step survives."""
    obs = []
    n = 0
    from ..core import _unique_assign, path
    for mod in MODULES:
        for f in sorted(prog.modules[mod].funcs.values(), key=lambda x: x.fq):
            cfg = f.cfg
            for m in cfg.eval_nodes():
                if m.kind != 'stmt' or not isinstance(m.ast, ast.Assign) or not m.loops or len(m.ast.targets) != 1:
                    continue
                P = path(m.ast.targets[0])
                if P is None or not isinstance(m.ast.targets[0], (ast.Subscript, ast.Attribute)):
                    continue
                for x in ast.walk(m.ast.value):
                    if isinstance(x, ast.Name) and x.id in f.locals:
                        defs = name_defs(f, x.id)
                        if len(defs) != 1 or not isinstance(defs[0][1], ast.AST):
                            continue
                        dn, dv = defs[0]
                        if path(dv) == P and m.loops[0] not in cfg.nodes[dn].loops and cfg.dominates(dn, m.id) \
                                and not cfg.nodes[dn].loops:
                            # the location itself must not be read in the new value (then it would be up to date)
                            if any(path(y) == P for y in ast.walk(m.ast.value) if isinstance(y, (ast.Subscript, ast.Attribute))):
                                continue
                            n += 1
                            obs.append(Ob('R-STALEACC', f.fq, 'the value built up in `%s` starts from its current content' % P, False,
                                          '`%s = %s` was read once before the loop (line %d); every iteration rebuilds `%s` from '
                                          'that original value, so earlier iterations are overwritten' % (
                                              x.id, unparse(dv), cfg.nodes[dn].lineno, P),
                                          construct='staleacc:%s:%s' % (P, x.id), line=m.lineno))
    obs.append(Ob('R-STALEACC', 'package', 'scan for accumulations restarted from a stale copy covered every function', True,
                  '%d found' % n, construct='staleacc-scan', nontrivial=False))
    return obs, {}


def r_zerotable(prog, tier):
    """A table created with a zero for every key (a counter table) is assigned a count inside a loop instead of being
    added to: when a key comes up twice only the last count survives."""
    obs = []
    n = 0
    for mod in MODULES:
        for f in sorted(prog.modules[mod].funcs.values(), key=lambda x: x.fq):
            cfg = f.cfg
            zero = set()
            for nm in f.locals:
                defs = [v for (_, v) in name_defs(f, nm)]
                if len(defs) == 1 and isinstance(defs[0], ast.AST):
                    v = defs[0]
                    if isinstance(v, ast.DictComp) and isinstance(v.value, ast.Constant) and v.value.value == 0:
                        zero.add(nm)
                    elif isinstance(v, ast.Call) and unparse(v.func) in ('dict.fromkeys',) and len(v.args) == 2 \
                            and isinstance(v.args[1], ast.Constant) and v.args[1].value == 0:
                        zero.add(nm)
            for m in cfg.eval_nodes():
                if m.kind == 'stmt' and isinstance(m.ast, ast.Assign) and m.loops and len(m.ast.targets) == 1 \
                        and isinstance(m.ast.targets[0], ast.Subscript) and isinstance(m.ast.targets[0].value, ast.Name) \
                        and m.ast.targets[0].value.id in zero and not isinstance(m.ast.value, ast.Constant):
                    t = unparse(m.ast.targets[0])
                    if t in unparse(m.ast.value):
                        continue            # T[k] = T[k] + v
                    adds = any(x.kind == 'stmt' and isinstance(x.ast, ast.AugAssign) and unparse(x.ast.target) == t for x in cfg.eval_nodes())
                    n += 1
                    obs.append(Ob('R-ZEROTABLE', f.fq, 'counter table entry `%s` is added to' % t, False,
                                  '`%s` starts at 0 for every key and is ASSIGNED `%s` inside a loop: when a key comes up again the '
                                  'earlier count is lost' % (m.ast.targets[0].value.id, unparse(m.ast.value)[:40]),
                                  construct='zerotable:' + unparse(m.ast)[:60], line=m.lineno))
    obs.append(Ob('R-ZEROTABLE', 'package', 'scan for assigned (not accumulated) counter tables covered every function', True,
                  '%d found' % n, construct='zerotable-scan', nontrivial=False))
    return obs, {}


def r_strsort(prog, tier):
    """Numbers (token positions, node numbers) are sorted by their text: 1, 10, 11, 2, ..."""
    obs = []
    n = 0

    def textual(k):
        if isinstance(k, ast.Name) and k.id in ('str', 'repr', 'unicode'):
            return True
        if isinstance(k, ast.Lambda) and len(k.args.args) == 1 and isinstance(k.body, ast.Call) \
                and isinstance(k.body.func, ast.Name) and k.body.func.id in ('str', 'repr', 'unicode', 'format') \
                and len(k.body.args) == 1 and isinstance(k.body.args[0], ast.Name) and k.body.args[0].id == k.args.args[0].arg:
            return True
        return False

    def numberish(e):
        if isinstance(e, ast.Subscript) and isinstance(e.slice, ast.Constant) and e.slice.value == 'num' \
                and isinstance(e.value, ast.Attribute) and e.value.attr == 'data':
            return True
        if isinstance(e, ast.Constant) and isinstance(e.value, int) and not isinstance(e.value, bool):
            return True
        if isinstance(e, ast.Call) and isinstance(e.func, ast.Name) and e.func.id in ('int', 'len'):
            return True
        return False
    for mod in MODULES:
        for f in sorted(prog.modules[mod].funcs.values(), key=lambda x: x.fq):
            for c in walk_own(f.node):
                if not isinstance(c, ast.Call):
                    continue
                key = next((k.value for k in c.keywords if k.arg == 'key'), None)
                if key is None or not textual(key):
                    continue
                if isinstance(c.func, ast.Name) and c.func.id in ('sorted', 'min', 'max') and c.args:
                    src = c.args[0]
                elif isinstance(c.func, ast.Attribute) and c.func.attr == 'sort':
                    src = c.func.value
                else:
                    continue
                while isinstance(src, ast.Call) and ((isinstance(src.func, ast.Attribute) and src.func.attr == 'keys'
                                                      and not src.args) or (isinstance(src.func, ast.Name)
                                                                            and src.func.id in ('list', 'tuple', 'set') and len(src.args) == 1)):
                    src = src.func.value if isinstance(src.func, ast.Attribute) else src.args[0]
                numeric = False
                if isinstance(src, ast.Name) and src.id in f.locals:
                    keys = [x.targets[0].slice for x in walk_own(f.node) if isinstance(x, ast.Assign) and len(x.targets) == 1
                            and isinstance(x.targets[0], ast.Subscript) and isinstance(x.targets[0].value, ast.Name)
                            and x.targets[0].value.id == src.id]
                    apps = [x.args[0] for x in walk_own(f.node) if isinstance(x, ast.Call) and isinstance(x.func, ast.Attribute)
                            and x.func.attr in ('append', 'add') and isinstance(x.func.value, ast.Name) and x.func.value.id == src.id
                            and len(x.args) == 1]
                    defs = [v for (_, v) in name_defs(f, src.id) if isinstance(v, ast.AST)]
                    empty = all(isinstance(v, (ast.Dict, ast.List, ast.Set)) and not (getattr(v, 'keys', None) or getattr(v, 'elts', None))
                                or (isinstance(v, ast.Call) and isinstance(v.func, ast.Name) and v.func.id in ('dict', 'list', 'set') and not v.args)
                                for v in defs)
                    items = keys + apps
                    numeric = bool(items) and empty and all(numberish(k) for k in items)
                elif isinstance(src, (ast.ListComp, ast.GeneratorExp, ast.SetComp)):
                    numeric = numberish(src.elt)
                if numeric:
                    n += 1
                    obs.append(Ob('R-STRSORT', f.fq, 'numbers are put in numeric order: `%s`' % unparse(c)[:60], False,
                                  'the sorted values are token / node numbers and the key turns them into text: 10 sorts before 2, '
                                  'so sentences of ten or more tokens come out in the wrong order', construct='strsort:' + unparse(c)[:60],
                                  line=c.lineno))
    obs.append(Ob('R-STRSORT', 'package', 'scan for numbers sorted by their text covered every function', True,
                  '%d found' % n, construct='strsort-scan', nontrivial=False))
    return obs, {}


def r_fmtdata(prog, tier):
    """A %-format string is assembled from data: `(text + " ||| %s") % x` interprets the `%` characters of the text."""
    obs = []
    n = 0
    from ..core import _unique_assign

    def parts(e):
        if isinstance(e, ast.BinOp) and isinstance(e.op, ast.Add):
            return parts(e.left) + parts(e.right)
        return [e]
    for mod in MODULES:
        for f in sorted(prog.modules[mod].funcs.values(), key=lambda x: x.fq):
            for c in walk_own(f.node):
                if not (isinstance(c, ast.BinOp) and isinstance(c.op, ast.Mod)):
                    continue
                left = c.left
                if isinstance(left, ast.Name) and left.id in f.locals:
                    v = _unique_assign(f, left.id)
                    if isinstance(v, ast.AST):
                        left = v
                ps = parts(left)
                if len(ps) < 2:
                    continue
                lits = [p_ for p_ in ps if isinstance(p_, ast.Constant) and isinstance(p_.value, str)]
                data = [p_ for p_ in ps if not isinstance(p_, ast.Constant)]
                if data and any('%' in p_.value.replace('%%', '') for p_ in lits):
                    n += 1
                    obs.append(Ob('R-FMTDATA', f.fq, 'format strings are literals: `%s`' % unparse(c)[:60], False,
                                  'the format string is assembled from `%s` and a literal: a `%%` in that text is read as a '
                                  'conversion (`100%%` raises, `%%%%` loses a character)' % unparse(data[0])[:40],
                                  construct='fmtdata:' + unparse(c)[:60], line=c.lineno))
    obs.append(Ob('R-FMTDATA', 'package', 'scan for format strings assembled from data covered every function', True,
                  '%d found' % n, construct='fmtdata-scan', nontrivial=False))
    return obs, {}


def r_counterunion(prog, tier):
    """`table |= Counter(...)`: the union of counters keeps the larger count, it does not add."""
    obs = []
    n = 0
    for mod in MODULES:
        for f in sorted(prog.modules[mod].funcs.values(), key=lambda x: x.fq):
            for c in walk_own(f.node):
                hit = None
                if isinstance(c, ast.AugAssign) and isinstance(c.op, ast.BitOr) and isinstance(c.value, ast.Call) \
                        and unparse(c.value.func) in ('Counter', 'collections.Counter'):
                    hit = c
                if isinstance(c, ast.BinOp) and isinstance(c.op, ast.BitOr) and any(
                        isinstance(x, ast.Call) and unparse(x.func) in ('Counter', 'collections.Counter') for x in (c.left, c.right)):
                    hit = c
                if hit is not None:
                    n += 1
                    obs.append(Ob('R-COUNTERUNION', f.fq, 'counts are added: `%s`' % unparse(hit)[:60], False,
                                  '`|` on counters is the union (the LARGER of the two counts per key), not the sum: a word seen '
                                  'twice with the same tag still counts once', construct='cunion:' + unparse(hit)[:60], line=hit.lineno))
    obs.append(Ob('R-COUNTERUNION', 'package', 'scan for counter unions covered every function', True, '%d found' % n,
                  construct='cunion-scan', nontrivial=False))
    return obs, {}


def r_instr(prog, tier):
    """`x in ('negra')` - a parenthesised string, not a tuple: the test is a substring test."""
    obs = []
    n = 0
    for mod in MODULES:
        for f in sorted(prog.modules[mod].funcs.values(), key=lambda x: x.fq):
            for c in walk_own(f.node):
                if not (isinstance(c, ast.Compare) and len(c.ops) == 1 and isinstance(c.ops[0], (ast.In, ast.NotIn))):
                    continue
                rhs = c.comparators[0]
                # a named constant of the package that holds one string: `x in (DEFAULT_LABEL)`
                if isinstance(rhs, ast.Name) and rhs.id not in f.locals and isinstance(f.module.consts.get(rhs.id), ast.Constant):
                    rhs = f.module.consts[rhs.id]
                elif isinstance(rhs, ast.Attribute) and isinstance(rhs.value, ast.Name) and rhs.value.id in f.module.aliases \
                        and rhs.value.id not in f.locals and isinstance(
                            prog.modules[f.module.aliases[rhs.value.id]].consts.get(rhs.attr), ast.Constant):
                    rhs = prog.modules[f.module.aliases[rhs.value.id]].consts[rhs.attr]
                if isinstance(rhs, ast.Constant) and isinstance(rhs.value, str) \
                        and len(rhs.value) >= 2 and any(ch.isalpha() for ch in rhs.value) \
                        and not isinstance(c.left, ast.Constant):
                    n += 1
                    lit = rhs.value
                    obs.append(Ob('R-INSTR', f.fq, 'membership in a collection of names, not in one name: `%s`' % unparse(c)[:60], False,
                                  'the right-hand side is the string %r (parentheses do not make a tuple): the test holds for every '
                                  'substring of it - %r, %r and the empty string are accepted like %r' % (lit, lit[:-1], lit[1:3], lit),
                                  construct='instr:' + unparse(c)[:60], line=c.lineno))
    obs.append(Ob('R-INSTR', 'package', 'scan for membership tests against a single string covered every function', True,
                  '%d found' % n, construct='instr-scan', nontrivial=False))
    return obs, {}


def r_ordefault(prog, tier):
    """`kw.get(k) or DEFAULT`: an option given with an empty or zero value is replaced by the default."""
    obs = []
    n = 0
    for mod in MODULES:
        for f in sorted(prog.modules[mod].funcs.values(), key=lambda x: x.fq):
            if not f.kwarg:
                continue
            for c in walk_own(f.node):
                if not (isinstance(c, ast.BoolOp) and isinstance(c.op, ast.Or) and len(c.values) == 2):
                    continue
                l, r = c.values
                from_kw = (isinstance(l, ast.Call) and isinstance(l.func, ast.Attribute) and l.func.attr == 'get'
                           and isinstance(l.func.value, ast.Name) and l.func.value.id == f.kwarg and len(l.args) == 1) or \
                          (isinstance(l, ast.Subscript) and isinstance(l.value, ast.Name) and l.value.id == f.kwarg)
                if from_kw and not (isinstance(r, ast.Constant) and r.value is None):
                    n += 1
                    obs.append(Ob('R-ORDEFAULT', f.fq, 'an option that is given is used as given: `%s`' % unparse(c)[:60], False,
                                  '`or` replaces every falsy value, not only a missing one: an option explicitly given as the empty '
                                  'string (or 0) is silently replaced by `%s`' % unparse(r)[:30],
                                  construct='ordefault:' + unparse(c)[:60], line=c.lineno))
    obs.append(Ob('R-ORDEFAULT', 'package', 'scan for option values defaulted with `or` covered every function', True,
                  '%d found' % n, construct='ordefault-scan', nontrivial=False))
    return obs, {}


def r_keycopy(prog, tier):
    """In a block that copies fields from one node to another field by field, one line copies ANOTHER field."""
    obs = []
    n = 0
    for mod in MODULES:
        for f in sorted(prog.modules[mod].funcs.values(), key=lambda x: x.fq):
            for blk in ast.walk(f.node):
                for fld in ('body', 'orelse'):
                    lst = getattr(blk, fld, None)
                    if not (isinstance(lst, list) and lst and isinstance(lst[0], ast.stmt)):
                        continue
                    copies = []
                    for st in lst:
                        if isinstance(st, ast.Assign) and len(st.targets) == 1 and isinstance(st.targets[0], ast.Subscript) \
                                and isinstance(st.targets[0].value, ast.Attribute) and st.targets[0].value.attr == 'data' \
                                and isinstance(st.value, ast.Subscript) and isinstance(st.value.value, ast.Attribute) \
                                and st.value.value.attr == 'data' and isinstance(st.targets[0].slice, ast.Constant) \
                                and isinstance(st.value.slice, ast.Constant):
                            copies.append((unparse(st.targets[0].value.value), unparse(st.value.value.value),
                                           st.targets[0].slice.value, st.value.slice.value, st))
                    for (a_, b_, k1, k2, st) in copies:
                        if k1 == k2 or a_ == b_:
                            continue
                        same = [c_ for c_ in copies if c_[0] == a_ and c_[1] == b_ and c_[2] == c_[3]]
                        dup = [c_ for c_ in same if c_[3] == k2]
                        if len(same) >= 2 and dup and not any(c_[3] == k1 for c_ in copies if c_[0] == a_ and c_[1] == b_):
                            n += 1
                            obs.append(Ob('R-KEYCOPY', f.fq, 'fields are copied to the field of the same name: `%s`' % unparse(st)[:60], False,
                                          'the neighbouring lines copy `%s` to `%s` field by field; this one fills %r from %r, which the '
                                          'block copies a second time, and %r of the source is never read' % (b_[:30], a_[:30], k1, k2, k1),
                                          construct='keycopy:' + unparse(st)[:60], line=st.lineno))
    obs.append(Ob('R-KEYCOPY', 'package', 'scan for crossed field copies covered every function', True, '%d found' % n,
                  construct='keycopy-scan', nontrivial=False))
    return obs, {}


def r_sharedmut(prog, tier):
    """One mutable object, made before a loop, is stored into many slots inside it and later changed through a slot."""
    obs = []
    n = 0
    for mod in MODULES:
        for f in sorted(prog.modules[mod].funcs.values(), key=lambda x: x.fq):
            cfg = f.cfg
            for nm in sorted(f.locals):
                dv = name_defs(f, nm)
                if len(dv) != 1 or not isinstance(dv[0][1], ast.AST):
                    continue
                dn, v = dv[0]
                mutable = isinstance(v, (ast.Dict, ast.List, ast.Set)) or (
                    isinstance(v, ast.Call) and isinstance(v.func, ast.Name) and v.func.id in ('dict', 'list', 'set', 'defaultdict', 'Counter'))
                if not mutable:
                    continue
                for m in cfg.eval_nodes():
                    if m.kind != 'stmt' or not isinstance(m.ast, ast.Assign) or not m.loops or len(m.ast.targets) != 1:
                        continue
                    t = m.ast.targets[0]
                    if not (isinstance(t, ast.Subscript) and isinstance(m.ast.value, ast.Name) and m.ast.value.id == nm):
                        continue
                    if m.loops[0] in cfg.nodes[dn].loops:
                        continue            # made afresh in the same loop
                    slot = unparse(t)
                    # changed through the slot somewhere (an element store or an augmented assignment on the slot)
                    muts = [x for x in cfg.eval_nodes() if x.kind == 'stmt' and isinstance(x.ast, (ast.Assign, ast.AugAssign))
                            and any(isinstance(tt, ast.Subscript) and unparse(tt.value) == slot
                                    for tt in (x.ast.targets if isinstance(x.ast, ast.Assign) else [x.ast.target]))]
                    if muts:
                        n += 1
                        obs.append(Ob('R-SHAREDMUT', f.fq, 'every slot gets an object of its own: `%s`' % unparse(m.ast)[:60], False,
                                      '`%s = %s` (line %d) is made once, before the loop; every `%s` stored inside it is that same object, '
                                      'and `%s` (line %d) changes it for all of them: the last value wins everywhere' % (
                                          nm, unparse(v)[:30], cfg.nodes[dn].lineno, slot[:40], unparse(muts[0].ast)[:40], muts[0].lineno),
                                      construct='sharedmut:%s:%s' % (nm, slot[:40]), line=m.lineno))
    obs.append(Ob('R-SHAREDMUT', 'package', 'scan for one mutable object stored into many slots covered every function', True,
                  '%d found' % n, construct='sharedmut-scan', nontrivial=False))
    return obs, {}


# ------------------------------------------------------------------------------------ R-SHAREDTABLE

_TABLE_MUTATORS = {'append', 'remove', 'pop', 'extend', 'insert', 'clear', 'sort', 'reverse', 'update', 'add', 'discard',
                   'popleft', 'appendleft', 'setdefault', 'popitem'}


def _module_tables(prog):
    """{(module, NAME): lineno} of module-level names bound exactly once to a mutable display / constructor."""
    out = {}
    for mn, m in prog.modules.items():
        counts = {}
        for st in m.tree.body:
            if isinstance(st, ast.Assign):
                for t in st.targets:
                    if isinstance(t, ast.Name):
                        counts[t.id] = counts.get(t.id, 0) + 1
        for st in m.tree.body:
            if isinstance(st, ast.Assign) and len(st.targets) == 1 and isinstance(st.targets[0], ast.Name) \
                    and counts.get(st.targets[0].id) == 1:
                v = st.value
                if isinstance(v, (ast.Dict, ast.List, ast.Set)) or (
                        isinstance(v, ast.Call) and unparse(v.func).split('.')[-1] in ('dict', 'list', 'set', 'defaultdict',
                                                                                       'Counter', 'OrderedDict', 'deque')):
                    out[(mn, st.targets[0].id)] = st.lineno
    return out


def _live(f, derived, nm, at):
    """The table that local nm may refer into at cfg node `at`: one of its table definitions reaches `at` unredefined."""
    cfg = f.cfg
    defs = set(d for (d, _) in name_defs(f, nm))
    for (d, t) in derived.get(nm, ()):
        start = cfg.entry if d == 'entry' else d
        if at is None or at == start or at in cfg.reach(start, avoid=frozenset(defs - {d})):
            return t
    return None


def _shared_ref(prog, f, e, tables, derived, at=None):
    """The module-level table (or table-fed parameter) that expression e may refer into at cfg node `at`, or None.
    Elements count (they are the same objects); copies (list(), dict(), sorted(), slices, comprehensions) do not."""
    if isinstance(e, ast.Name):
        if e.id in derived:
            return _live(f, derived, e.id, at)
        if e.id not in f.locals and e.id not in f.params and (f.module.name, e.id) in tables:
            return '%s.%s' % (f.module.name, e.id)
        return None
    if isinstance(e, ast.Attribute) and isinstance(e.value, ast.Name) and e.value.id in f.module.aliases \
            and e.value.id not in f.locals and (f.module.aliases[e.value.id], e.attr) in tables:
        return '%s.%s' % (f.module.aliases[e.value.id], e.attr)
    if isinstance(e, ast.Subscript) and not isinstance(e.slice, ast.Slice):
        return _shared_ref(prog, f, e.value, tables, derived, at)
    if isinstance(e, ast.Call) and isinstance(e.func, ast.Attribute) and e.func.attr == 'get' and e.args:
        return _shared_ref(prog, f, e.func.value, tables, derived, at)
    return None


def _derived_locals(prog, f, tables, fed):
    """{local: [(defining cfg node | 'entry', table)]}: the definitions that make a local (or a table-fed parameter)
    refer into a shared table."""
    derived = dict((f.params[i], [('entry', t)]) for (i, t) in fed.items() if i < len(f.params))
    for _ in range(4):
        grew = False
        for nm in sorted(f.locals):
            for (d, v) in name_defs(f, nm):
                if any(d == d0 for (d0, _) in derived.get(nm, ())):
                    continue
                r = None
                if isinstance(v, ast.AST):
                    r = _shared_ref(prog, f, v, tables, derived, d)
                elif isinstance(v, tuple) and v and v[0] == 'iter':
                    it = v[1]
                    if isinstance(it, ast.Call) and isinstance(it.func, ast.Attribute) and it.func.attr in ('values', 'items') \
                            and not it.args:
                        it = it.func.value
                    r = _shared_ref(prog, f, it, tables, derived, d)
                if r:
                    derived.setdefault(nm, []).append((d, r))
                    grew = True
        if not grew:
            break
    return derived


def _node_of(f, astnode):
    """cfg node evaluating the given expression / statement (None: position unknown, every definition counts)."""
    cfg = f.cfg
    cache = getattr(f, '_expr_nodes', None)
    if cache is None:
        cache = {}
        for m in cfg.eval_nodes():
            if m.kind == 'stmt' and m.ast is not None:
                cache.setdefault(id(m.ast), m.id)
            for root in cfg.exprs(m.id):
                for sub in ast.walk(root):
                    cache.setdefault(id(sub), m.id)
        try:
            f._expr_nodes = cache
        except Exception:
            pass
    return cache.get(id(astnode))


def r_sharedtable(prog, tier):
    """A table made once at module level (head rules, bracket names, default options) is changed in place through a
    local name, an element or a parameter it was handed to: the change stays for the rest of the process, so what a call
    does depends on the calls before it."""
    obs = []
    tables = _module_tables(prog)
    funcs = [f for mod in MODULES if mod in prog.modules for f in sorted(prog.modules[mod].funcs.values(), key=lambda x: x.fq)]
    fed = {}            # fq -> {param index: table}
    found = {}
    for _round in range(3):
        grew = False
        for f in funcs:
            derived = _derived_locals(prog, f, tables, fed.get(f.fq, {}))
            for c in walk_own(f.node):
                if not isinstance(c, ast.Call) or c.keywords and any(k.arg is None for k in c.keywords):
                    continue
                if any(isinstance(a, ast.Starred) for a in c.args):
                    continue
                tgt = prog.callee(c, f)
                g = prog.func(tgt[0], tgt[1], required=False) if tgt else None
                if g is None or g.node.args.vararg or g.node.args.posonlyargs:
                    continue
                at = _node_of(f, c)
                for i, a in enumerate(c.args):
                    r = _shared_ref(prog, f, a, tables, derived, at)
                    if r and i < len(g.params) and i not in fed.setdefault(g.fq, {}):
                        fed[g.fq][i] = r
                        grew = True
                for k in c.keywords:
                    r = _shared_ref(prog, f, k.value, tables, derived, at)
                    if r and k.arg in g.params and g.params.index(k.arg) not in fed.setdefault(g.fq, {}):
                        fed[g.fq][g.params.index(k.arg)] = r
                        grew = True
        if not grew:
            break
    n = 0
    called_in_functions = set()
    for g in funcs:
        for c in walk_own(g.node):
            if isinstance(c, ast.Call):
                tgt = prog.callee(c, g)
                if tgt:
                    called_in_functions.add('%s.%s' % tgt)
            elif isinstance(c, ast.Name) and isinstance(c.ctx, ast.Load):
                called_in_functions.add('%s.%s' % (g.module.name, c.id))        # handed on as a value
    for f in funcs:
        at_load = any(isinstance(y, ast.Call) and isinstance(y.func, ast.Name) and y.func.id == f.node.name
                      for st in f.module.tree.body if not isinstance(st, (ast.FunctionDef, ast.ClassDef)) for y in ast.walk(st)) \
            or any(isinstance(dec, ast.Name) and dec.id == f.node.name for g in funcs if g.module is f.module
                   for dec in g.node.decorator_list)
        if at_load and f.fq not in called_in_functions and f.cls is None:
            continue            # called while the module is loaded only (a registering decorator, a table builder)
        derived = _derived_locals(prog, f, tables, fed.get(f.fq, {}))
        for x in walk_own(f.node):
            hit = None
            if isinstance(x, (ast.Assign, ast.AugAssign, ast.Delete)):
                tg = x.targets if isinstance(x, (ast.Assign, ast.Delete)) else [x.target]
                flat = []
                for t in tg:
                    flat.extend(t.elts if isinstance(t, (ast.Tuple, ast.List)) else [t])
                for t in flat:
                    if isinstance(t, ast.Subscript):
                        r = _shared_ref(prog, f, t.value, tables, derived, _node_of(f, x))
                        if r:
                            hit = (r, x)
            elif isinstance(x, ast.Call) and isinstance(x.func, ast.Attribute) and x.func.attr in _TABLE_MUTATORS:
                r = _shared_ref(prog, f, x.func.value, tables, derived, _node_of(f, x))
                if r:
                    hit = (r, x)
            if hit:
                n += 1
                r, x = hit
                obs.append(Ob('R-SHAREDTABLE', f.fq, 'the module-level table `%s` is only read' % r, False,
                              '`%s` (line %d) changes `%s` - or one of its entries - in place; the table is made once when the '
                              'module is loaded, so the change is seen by every later call in the process'
                              % (unparse(x)[:60], x.lineno, r), construct='sharedtable:%s:%s' % (r, unparse(x)[:50]),
                              line=x.lineno))
    obs.append(Ob('R-SHAREDTABLE', 'package', 'scan for in-place changes of module-level tables covered every function', True,
                  '%d module-level tables, %d table-fed parameters, %d found' % (len(tables), sum(len(v) for v in fed.values()), n),
                  construct='sharedtable-scan', nontrivial=False))
    return obs, {}


# ------------------------------------------------------------------------------------ R-ONESHOT

_ONESHOT_MAKERS = ('filter', 'map', 'zip', 'iter', 'reversed', 'enumerate', 'itertools.chain', 'itertools.filterfalse',
                   'itertools.islice', 'itertools.takewhile', 'itertools.dropwhile', 'itertools.starmap')


def r_oneshot(prog, tier):
    """A local holds a one-shot iterator (filter / map / zip / generator expression / a generator function of the
    package) and is run through twice: the second run finds it exhausted and silently does nothing."""
    obs = []
    n = 0
    for mod in MODULES:
        if mod not in prog.modules:
            continue
        for f in sorted(prog.modules[mod].funcs.values(), key=lambda x: x.fq):
            cfg = f.cfg
            for nm in sorted(f.locals):
                dv = name_defs(f, nm)
                if len(dv) != 1 or not isinstance(dv[0][1], ast.AST) or nm in f.params:
                    continue
                dn, v = dv[0]
                one = isinstance(v, ast.GeneratorExp) or (isinstance(v, ast.Call) and unparse(v.func) in _ONESHOT_MAKERS)
                if not one and isinstance(v, ast.Call):
                    tgt = prog.callee(v, f)
                    g = prog.func(tgt[0], tgt[1], required=False) if tgt else None
                    one = g is not None and any(isinstance(y, (ast.Yield, ast.YieldFrom)) for y in walk_own(g.node))
                if not one:
                    continue
                # complete runs: `for x in nm`, a comprehension over nm, list(nm) / sorted(nm) / sum(nm) ...
                runs = []
                runs_break = []
                for m in cfg.eval_nodes():
                    for root in cfg.exprs(m.id):
                        for sub in ast.walk(root):
                            if isinstance(sub, ast.comprehension) and isinstance(sub.iter, ast.Name) and sub.iter.id == nm:
                                runs.append(m)
                            if isinstance(sub, ast.Call) and isinstance(sub.func, ast.Name) and sub.func.id in (
                                    'list', 'tuple', 'sorted', 'set', 'sum', 'max', 'min', 'len', 'dict', 'frozenset') \
                                    and sub.args and isinstance(sub.args[0], ast.Name) and sub.args[0].id == nm:
                                runs.append(m)
                    if m.kind == 'iter' and isinstance(m.ast.iter, ast.Name) and m.ast.iter.id == nm:
                        # a loop that can be left early (break / return) may leave something for a later run
                        body_leaves = any(isinstance(y, ast.Break) for st_ in m.ast.body for y in ast.walk(st_))
                        if not body_leaves:
                            runs.append(m)
                        else:
                            runs_break.append(m)
                other_uses = sum(1 for y in walk_own(f.node) if isinstance(y, ast.Name) and y.id == nm and isinstance(y.ctx, ast.Load))
                # a loop that can be left with `break` takes the elements one stretch at a time; that is what `iter()` /
                # `islice` are used for on purpose, but not what a generator expression / filter / map / zip bound to a name is for
                stretch_ok = isinstance(v, ast.GeneratorExp) or (isinstance(v, ast.Call) and unparse(v.func) in ('filter', 'map', 'zip'))
                cand = runs + (runs_break if stretch_ok else [])
                if not cand or other_uses != len(runs) + len(runs_break):
                    continue            # handed on, next()-ed or tested elsewhere: not modelled
                # one run that sits in a loop the iterator was made outside of: the second time round it is empty
                again = [m_ for m_ in cand if any(l_ not in cfg.nodes[dn].loops for l_ in m_.loops)]
                if again:
                    m_ = again[0]
                    outer = [l_ for l_ in m_.loops if l_ not in cfg.nodes[dn].loops][0]
                    n += 1
                    obs.append(Ob('R-ONESHOT', f.fq, 'a one-shot iterator is run through once: `%s`' % nm, False,
                                  '`%s = %s` (line %d) can be consumed only once, but it is run through at line %d inside the loop '
                                  'at line %d, which it was made outside of: from the second round of that loop on it is empty and '
                                  'the run does nothing' % (nm, unparse(v)[:40], cfg.nodes[dn].lineno, m_.lineno, cfg.nodes[outer].lineno),
                                  construct='oneshot-loop:%s:%s' % (nm, unparse(v)[:40]), line=m_.lineno))
                    continue
                if len(runs) < 2:
                    continue
                for a in runs:
                    for b in runs:
                        if a is b or b.id not in cfg.reach(a.id, avoid=frozenset([dn])):
                            continue
                        if a.id in cfg.reach(b.id, avoid=frozenset([dn])) and a.lineno > b.lineno:
                            continue
                        n += 1
                        obs.append(Ob('R-ONESHOT', f.fq, 'a one-shot iterator is run through once: `%s`' % nm, False,
                                      '`%s = %s` (line %d) can be consumed only once; after the run at line %d the run at line %d '
                                      'finds it exhausted and does nothing' % (nm, unparse(v)[:40], cfg.nodes[dn].lineno, a.lineno,
                                                                               b.lineno),
                                      construct='oneshot:%s:%s' % (nm, unparse(v)[:40]), line=b.lineno))
                        break
                    else:
                        continue
                    break
    # a one-shot iterator bound at module level and run through inside a function: the first call uses it up
    for mod in MODULES:
        if mod not in prog.modules:
            continue
        m = prog.modules[mod]
        for nm, v in m.consts.items():
            one = isinstance(v, ast.GeneratorExp) or (isinstance(v, ast.Call) and unparse(v.func) in _ONESHOT_MAKERS)
            if not one:
                continue
            for f in sorted(m.funcs.values(), key=lambda x: x.fq):
                if nm in f.locals:
                    continue
                for x in walk_own(f.node):
                    it = None
                    if isinstance(x, (ast.For, ast.comprehension)) and isinstance(x.iter, ast.Name) and x.iter.id == nm:
                        it = x
                    if it is not None:
                        n += 1
                        obs.append(Ob('R-ONESHOT', f.fq, 'a one-shot iterator is run through once: `%s`' % nm, False,
                                      '`%s = %s` is made once, when the module is loaded; the loop over it in %s uses it up the first '
                                      'time it runs - every later run (the next node, the next call) finds it empty'
                                      % (nm, unparse(v)[:40], f.fq), construct='oneshot-module:%s' % nm,
                                      line=getattr(x, 'lineno', getattr(x.iter, 'lineno', 0))))
    obs.append(Ob('R-ONESHOT', 'package', 'scan for one-shot iterators consumed twice covered every function', True,
                  '%d found' % n, construct='oneshot-scan', nontrivial=False))
    return obs, {}


# ------------------------------------------------------------------------------------ R-LOOPRESET

def r_loopreset(prog, tier):
    """A collecting list / dict / set is created anew in every iteration of the very loop that fills it and read only
    after that loop: what the earlier iterations collected is thrown away, only the last one is seen."""
    obs = []
    n = 0
    for mod in MODULES:
        if mod not in prog.modules:
            continue
        for f in sorted(prog.modules[mod].funcs.values(), key=lambda x: x.fq):
            cfg = f.cfg
            for nm in sorted(f.locals):
                dv = name_defs(f, nm)
                if len(dv) != 1 or not isinstance(dv[0][1], ast.AST) or nm in f.params:
                    continue
                dn, v = dv[0]
                fresh = (isinstance(v, (ast.List, ast.Dict, ast.Set)) and not (getattr(v, 'elts', None) or getattr(v, 'keys', None))) \
                    or (isinstance(v, ast.Call) and isinstance(v.func, ast.Name) and v.func.id in ('list', 'dict', 'set') and not v.args
                        and not v.keywords)
                dnode = cfg.nodes[dn]
                if not fresh or not dnode.loops:
                    continue
                L = dnode.loops[-1]
                if cfg.nodes[L].kind != 'iter' or not cfg.in_every_iteration(L, dn):
                    continue
                fills, reads_in, reads_after = [], [], []
                for m in cfg.eval_nodes():
                    for root in cfg.exprs(m.id):
                        for sub in ast.walk(root):
                            if not (isinstance(sub, ast.Name) and sub.id == nm and isinstance(sub.ctx, ast.Load)):
                                continue
                            inside = L in m.loops or m.id == L
                            par = None
                            for cand in ast.walk(root):
                                if any(ch is sub for ch in ast.iter_child_nodes(cand)):
                                    par = cand
                            fill = isinstance(par, ast.Attribute) and par.attr in ('append', 'extend', 'add', 'update', 'insert')
                            fill = fill or (isinstance(par, ast.Subscript) and isinstance(par.ctx, ast.Store))
                            if fill and inside and m.loops and m.loops[-1] == L:
                                fills.append(m)
                            elif inside:
                                reads_in.append(m)
                            else:
                                reads_after.append(m)
                if not fills or reads_in or not reads_after:
                    continue
                if not all(dn in cfg.coreach(m_.id) and cfg.dominates(dn, m_.id) for m_ in fills):
                    continue
                n += 1
                obs.append(Ob('R-LOOPRESET', f.fq, 'what the loop collects in `%s` is still there after the loop' % nm, False,
                              '`%s = %s` (line %d) runs in every iteration of the loop at line %d that fills `%s` (`%s`, line %d); '
                              '`%s` is read only after the loop (line %d): it holds what the last iteration put in, everything '
                              'collected before is gone' % (nm, unparse(v), dnode.lineno, cfg.nodes[L].lineno, nm,
                                                            unparse(fills[0].ast)[:40], fills[0].lineno, nm, reads_after[0].lineno),
                              construct='loopreset:%s' % nm, line=dnode.lineno))
    obs.append(Ob('R-LOOPRESET', 'package', 'scan for collections emptied by the loop that fills them covered every function', True,
                  '%d found' % n, construct='loopreset-scan', nontrivial=False))
    return obs, {}


# ------------------------------------------------------------------------------------ R-WRONGCHECK

def r_wrongcheck(prog, tier):
    """`if 'k' not in A.data: raise ...` is followed by reads of B.data['k'] - never of A.data['k'] - with nothing that
    shows the key on B: the check looks at the wrong node (it rejects good input and lets the bad one through to a KeyError)."""
    obs = []
    n = 0
    for mod in MODULES:
        if mod not in prog.modules:
            continue
        for f in sorted(prog.modules[mod].funcs.values(), key=lambda x: x.fq):
            cfg = f.cfg
            for t in cfg.nodes:
                if t.kind != 'assume' or not isinstance(t.ast, ast.Compare) or len(t.ast.ops) != 1:
                    continue
                c = t.ast
                absent = (isinstance(c.ops[0], ast.NotIn) and t.pol) or (isinstance(c.ops[0], ast.In) and not t.pol)
                if not absent or not (isinstance(c.left, ast.Constant) and isinstance(c.left.value, str)):
                    continue
                cont = c.comparators[0]
                if not (isinstance(cont, ast.Attribute) and cont.attr == 'data'):
                    continue
                key, A = c.left.value, unparse(cont.value)
                # the absent branch raises at once
                succ = [cfg.nodes[x] for x in cfg.succ[t.id]]
                if not (len(succ) == 1 and succ[0].kind == 'stmt' and isinstance(succ[0].ast, ast.Raise)):
                    continue
                present = [m for m in cfg.nodes if m.kind == 'assume' and m.ast is t.ast and m.pol != t.pol]
                if not present:
                    continue
                region = cfg.reach(present[0].id)
                readsA, readsB = [], []
                for m in cfg.eval_nodes():
                    if m.id not in region:
                        continue
                    for root in cfg.exprs(m.id):
                        for sub in ast.walk(root):
                            if isinstance(sub, ast.Subscript) and isinstance(sub.ctx, ast.Load) and isinstance(sub.value, ast.Attribute) \
                                    and sub.value.attr == 'data' and isinstance(sub.slice, ast.Constant) and sub.slice.value == key:
                                (readsA if unparse(sub.value.value) == A else readsB).append((m, unparse(sub.value.value)))
                if readsA or not readsB:
                    continue
                m0, B = readsB[0]
                if not cfg.dominates(present[0].id, m0.id) or m0.loops != t.loops:
                    continue
                shown = any(fa[0] in ('in', 'haskey') and key in str(fa) and B in str(fa) for (fa, _) in facts_at(cfg, m0.id))
                stores = any(isinstance(x, ast.Subscript) and isinstance(x.ctx, ast.Store) and isinstance(x.slice, ast.Constant)
                             and x.slice.value == key and isinstance(x.value, ast.Attribute) and unparse(x.value.value) == B
                             for x in walk_own(f.node))
                storesA = any(isinstance(x, ast.Subscript) and isinstance(x.ctx, ast.Store) and isinstance(x.slice, ast.Constant)
                              and x.slice.value == key and isinstance(x.value, ast.Attribute) and unparse(x.value.value) == A
                              for x in walk_own(f.node))
                # A made from B (a copy of its data, an alias) or the other way round: the check on one says something about the other
                ra, rb = A.split('[')[0].split('.')[0], B.split('[')[0].split('.')[0]
                related = False
                for (x_, y_) in ((ra, rb), (rb, ra)):
                    for (_, dv_) in name_defs(f, x_):
                        if isinstance(dv_, ast.Name) and dv_.id == y_:
                            related = True
                        for c_ in (ast.walk(dv_) if isinstance(dv_, ast.AST) else ()):
                            if isinstance(c_, ast.Call) and unparse(c_.func).split('.')[-1] in ('Tree', 'copy', 'deepcopy', 'dict') \
                                    and any(isinstance(z_, ast.Name) and z_.id == y_ for a_ in c_.args for z_ in ast.walk(a_)):
                                related = True
                # the same for a list the node was put into (`split.append(Tree(subtree.data))` ... `split[-1]`)
                for c_ in walk_own(f.node):
                    if isinstance(c_, ast.Call) and isinstance(c_.func, ast.Attribute) and c_.func.attr in ('append', 'insert') \
                            and unparse(c_.func.value) in (ra, rb):
                        other_ = rb if unparse(c_.func.value) == ra else ra
                        if any(isinstance(z_, ast.Name) and z_.id == other_ for a_ in c_.args for z_ in ast.walk(a_)):
                            related = True
                if shown or stores or storesA or related:
                    continue
                n += 1
                obs.append(Ob('R-WRONGCHECK', f.fq, 'a key is checked on the node it is read from', False,
                              '`%s%s` (line %d) rejects a node without %r on `%s`, but what is read next is `%s.data[%r]` (line %d) and '
                              '`%s.data[%r]` never: input that is fine is refused when `%s` carries no %r, and a missing %r on `%s` '
                              'gets through to a KeyError' % ('' if t.pol else 'not ', unparse(t.ast), t.lineno, key, A, B, key, m0.lineno,
                                                             A, key, A, key, key, B),
                              construct='wrongcheck:%s:%s:%s' % (key, A, B), line=t.lineno))
    obs.append(Ob('R-WRONGCHECK', 'package', 'scan for key checks on another node than the one read covered every function', True,
                  '%d found' % n, construct='wrongcheck-scan', nontrivial=False))
    return obs, {}


# ------------------------------------------------------------------------------------ R-STALESNAP

def r_stalesnap(prog, tier):
    """`v = buf.getvalue()` is a copy of what the buffer held at that moment; when the buffer is written to (or replaced)
    afterwards and `v` is then used without being read again, `v` is short of what was written last."""
    obs = []
    n = 0
    for mod in MODULES:
        if mod not in prog.modules:
            continue
        for f in sorted(prog.modules[mod].funcs.values(), key=lambda x: x.fq):
            cfg = f.cfg
            for nm in sorted(f.locals):
                dv = name_defs(f, nm)
                snaps = [(d, v) for (d, v) in dv if isinstance(v, ast.Call) and isinstance(v.func, ast.Attribute)
                         and v.func.attr == 'getvalue' and isinstance(v.func.value, ast.Name) and not v.args]
                if not snaps or len(snaps) != len(dv):
                    continue
                ids = frozenset(d for (d, _) in dv)
                bufs = set(v.func.value.id for (_, v) in snaps)
                if len(bufs) != 1:
                    continue
                B = list(bufs)[0]
                writes = [m for m in cfg.eval_nodes() if m.kind == 'stmt' and (
                    (isinstance(m.ast, ast.Expr) and isinstance(m.ast.value, ast.Call) and isinstance(m.ast.value.func, ast.Attribute)
                     and m.ast.value.func.attr in ('write', 'writelines') and unparse(m.ast.value.func.value) == B))]
                uses = [m for m in cfg.eval_nodes() if m.id not in ids and any(
                    isinstance(x, ast.Name) and x.id == nm and isinstance(x.ctx, ast.Load) for r in cfg.exprs(m.id) for x in ast.walk(r))]
                hit = None
                for (d, _) in snaps:
                    after_def = cfg.reach(d, avoid=ids - {d})
                    for w in writes:
                        if w.id not in after_def:
                            continue
                        after_w = cfg.reach(w.id, avoid=ids)
                        for u in uses:
                            if u.id in after_w:
                                hit = (d, w, u)
                                break
                        if hit:
                            break
                    if hit:
                        break
                if hit:
                    d, w, u = hit
                    n += 1
                    obs.append(Ob('R-STALESNAP', f.fq, 'a copy of a buffer is not used after the buffer has moved on: `%s`' % nm, False,
                                  '`%s = %s.getvalue()` (line %d) is taken before `%s` (line %d); `%s` is used at line %d without being '
                                  'read again: the last piece written is missing from it' % (
                                      nm, B, cfg.nodes[d].lineno, unparse(w.ast)[:40], w.lineno, nm, u.lineno),
                                  construct='stalesnap:%s:%s' % (nm, B), line=u.lineno))
    obs.append(Ob('R-STALESNAP', 'package', 'scan for buffer copies used after a later write covered every function', True,
                  '%d found' % n, construct='stalesnap-scan', nontrivial=False))
    return obs, {}


# ------------------------------------------------------------------------------------ R-INDEXBYVALUE

_NODE_SOURCES = ('children', 'terminals', 'unordered_terminals', 'preorder', 'postorder', 'dominance')


def r_indexbyvalue(prog, tier):
    """Inside a loop over a sequence the position of the current element is looked up with `.index(element)`: of equal
    elements (two tokens with the same word, a label that occurs twice on a right-hand side) every one gets the position of
    the first.  Sequences of tree nodes are exempt (a node equals only itself)."""
    obs = []
    n = 0

    def nodes_seq(f, e, depth=0):
        if isinstance(e, ast.Attribute) and e.attr == 'children':
            return True
        if isinstance(e, ast.Call) and unparse(e.func).split('.')[-1] in _NODE_SOURCES:
            return True
        if isinstance(e, ast.Call) and isinstance(e.func, ast.Name) and e.func.id in ('list', 'sorted', 'reversed', 'tuple') and e.args:
            return nodes_seq(f, e.args[0], depth + 1)
        if isinstance(e, ast.Subscript) and isinstance(e.slice, ast.Slice):
            return nodes_seq(f, e.value, depth + 1)
        if isinstance(e, ast.Name) and depth < 3:
            dv = [v for (_, v) in name_defs(f, e.id) if isinstance(v, ast.AST)]
            return bool(dv) and all(nodes_seq(f, v, depth + 1) for v in dv)
        return False

    for mod in MODULES:
        if mod not in prog.modules:
            continue
        for f in sorted(prog.modules[mod].funcs.values(), key=lambda x: x.fq):
            parents = {}
            for p_ in ast.walk(f.node):
                for c_ in ast.iter_child_nodes(p_):
                    parents[c_] = p_
            for c in walk_own(f.node):
                if not (isinstance(c, ast.Call) and isinstance(c.func, ast.Attribute) and c.func.attr == 'index' and len(c.args) == 1):
                    continue
                S, v = c.func.value, c.args[0]
                # the loops / comprehension clauses around the call
                binders = []
                x = c
                while x in parents:
                    x = parents[x]
                    if isinstance(x, ast.For):
                        binders.append((x.target, x.iter))
                    elif isinstance(x, (ast.ListComp, ast.SetComp, ast.GeneratorExp, ast.DictComp)):
                        binders.extend((g.target, g.iter) for g in x.generators)
                    if x is f.node:
                        break
                hit = None
                for (tg, it) in binders:
                    seq = it.args[0] if isinstance(it, ast.Call) and unparse(it.func) == 'enumerate' and it.args else it
                    names = [y.id for y in ast.walk(tg) if isinstance(y, ast.Name)]
                    if nodes_seq(f, seq) and isinstance(v, ast.Name):
                        continue
                    # (a) for v in S: ... S.index(v)
                    if isinstance(v, ast.Name) and v.id in names and unparse(S) == unparse(seq):
                        hit = 'the loop runs over `%s` and looks the element `%s` up in it' % (unparse(seq)[:40], v.id)
                    # (b) L = [E(y) for y in T] ... for x in T: L.index(E(x))
                    if hit is None and isinstance(S, ast.Name):
                        dv = [d for (_, d) in name_defs(f, S.id) if isinstance(d, ast.AST)]
                        if len(dv) == 1 and isinstance(dv[0], ast.ListComp) and len(dv[0].generators) == 1 \
                                and isinstance(dv[0].generators[0].target, ast.Name) and not dv[0].generators[0].ifs \
                                and unparse(dv[0].generators[0].iter) == unparse(seq) and len(names) >= 1 \
                                and not isinstance(dv[0].elt, ast.Name):
                            y = dv[0].generators[0].target.id
                            for nm in names:
                                import re as _re
                                if _re.sub(r'\b%s\b' % _re.escape(y), nm, unparse(dv[0].elt)) == unparse(v):
                                    hit = '`%s` holds `%s` of every element of `%s`, and the loop over the same elements looks ' \
                                          'its own value up in it' % (S.id, unparse(dv[0].elt)[:30], unparse(seq)[:30])
                    if hit:
                        break
                if hit:
                    n += 1
                    obs.append(Ob('R-INDEXBYVALUE', f.fq, 'an element is addressed by its position, not by its value: `%s`' % unparse(c)[:50],
                                  False, '%s: when two elements are equal, both get the position of the first - the second is '
                                  'written with the data of the first, and one position is never used' % hit,
                                  construct='indexbyvalue:' + unparse(c)[:50], line=c.lineno))
    obs.append(Ob('R-INDEXBYVALUE', 'package', 'scan for positions looked up by value inside a loop over the same sequence covered '
                  'every function', True, '%d found' % n, construct='indexbyvalue-scan', nontrivial=False))
    return obs, {}


# ------------------------------------------------------------------------------------ R-COUNTERSTR

_TEXT_FIELDS = ('label', 'word', 'lemma', 'edge', 'morph')


def r_counterstr(prog, tier):
    """`counter.update(<one string>)` counts the CHARACTERS of the string (update() takes an iterable of items): a Counter
    that is to count labels or words gets `counter[s] += 1` or `counter.update([s])`."""
    obs = []
    n = 0
    for mod in MODULES:
        if mod not in prog.modules:
            continue
        m = prog.modules[mod]
        # names bound to Counter(): locals, and attributes of self assigned anywhere in the class
        attr_counters = set()
        for f in m.funcs.values():
            for st in walk_own(f.node):
                if isinstance(st, ast.Assign) and isinstance(st.value, ast.Call) and unparse(st.value.func).split('.')[-1] == 'Counter' \
                        and not st.value.args:
                    for t in st.targets:
                        if isinstance(t, ast.Attribute) and isinstance(t.value, ast.Name) and t.value.id == 'self':
                            attr_counters.add((f.cls, t.attr))
        for f in sorted(m.funcs.values(), key=lambda x: x.fq):
            for c in walk_own(f.node):
                if not (isinstance(c, ast.Call) and isinstance(c.func, ast.Attribute) and c.func.attr == 'update' and len(c.args) == 1
                        and not c.keywords):
                    continue
                X = c.func.value
                is_counter = False
                if isinstance(X, ast.Name):
                    dv = [v for (_, v) in name_defs(f, X.id) if isinstance(v, ast.AST)]
                    is_counter = bool(dv) and all(isinstance(v, ast.Call) and unparse(v.func).split('.')[-1] == 'Counter' for v in dv)
                elif isinstance(X, ast.Attribute) and isinstance(X.value, ast.Name) and X.value.id == 'self':
                    is_counter = (f.cls, X.attr) in attr_counters
                if not is_counter:
                    continue
                E = c.args[0]
                if isinstance(E, ast.Name):
                    dv = [v for (_, v) in name_defs(f, E.id) if isinstance(v, ast.AST)]
                    E = dv[0] if len(dv) == 1 else E
                text = isinstance(E, ast.Subscript) and isinstance(E.value, ast.Attribute) and E.value.attr == 'data' \
                    and isinstance(E.slice, ast.Constant) and E.slice.value in _TEXT_FIELDS
                text = text or (isinstance(E, ast.Attribute) and E.attr in _TEXT_FIELDS and isinstance(E.value, ast.Call)
                                and unparse(E.value.func).split('.')[-1] == 'parse_label')
                if text:
                    n += 1
                    obs.append(Ob('R-COUNTERSTR', f.fq, 'a counter of strings is fed strings, not characters: `%s`' % unparse(c)[:60], False,
                                  '`update()` runs over its argument: handed the string `%s` it counts the characters of it, so the '
                                  'counter ends up with one entry per distinct CHARACTER (`c[s] += 1` or `c.update([s])` counts the '
                                  'string)' % unparse(c.args[0])[:40], construct='counterstr:' + unparse(c)[:60], line=c.lineno))
    obs.append(Ob('R-COUNTERSTR', 'package', 'scan for Counter.update() on a single string covered every function', True,
                  '%d found' % n, construct='counterstr-scan', nontrivial=False))
    return obs, {}


# ------------------------------------------------------------------------------------ R-MAXSTEP

def r_maxstep(prog, tier):
    """`if v > m: m += 1`: a running maximum that climbs by one step instead of taking the new value."""
    obs = []
    n = 0
    for mod in MODULES:
        if mod not in prog.modules:
            continue
        for f in sorted(prog.modules[mod].funcs.values(), key=lambda x: x.fq):
            for x in walk_own(f.node):
                if not (isinstance(x, ast.If) and not x.orelse and len(x.body) == 1 and isinstance(x.body[0], ast.AugAssign)
                        and isinstance(x.body[0].op, ast.Add) and isinstance(x.body[0].target, ast.Name)
                        and isinstance(x.body[0].value, ast.Constant) and isinstance(x.body[0].value.value, int)):
                    continue
                mname = x.body[0].target.id
                t = norm_test(x.test, True)
                import re as _re
                if t[0] == 'cmp' and t[2] == '<' and t[1] == mname and mname not in _re.findall(r'[A-Za-z_][A-Za-z0-9_]*', t[3]) \
                        and not t[3].lstrip('-').isdigit():
                    # m < v: and v is not itself a counter stepped alongside
                    vdefs = [d for (_, d) in name_defs(f, t[3])] if t[3].isidentifier() else []
                    if any(isinstance(d, tuple) and d and d[0] == 'aug' for d in vdefs):
                        continue
                    n += 1
                    obs.append(Ob('R-MAXSTEP', f.fq, 'a running maximum takes the larger value: `%s`' % unparse(x.test), False,
                                  '`%s` under `%s` raises `%s` by %d instead of setting it to `%s`: after a jump of two or more it '
                                  'stays below the largest value seen' % (unparse(x.body[0]), unparse(x.test), mname,
                                                                          x.body[0].value.value, t[3]),
                                  construct='maxstep:%s' % mname, line=x.lineno))
    obs.append(Ob('R-MAXSTEP', 'package', 'scan for running maxima raised by one step covered every function', True,
                  '%d found' % n, construct='maxstep-scan', nontrivial=False))
    return obs, {}


def r_leakvar(prog, tier):
    """Inside an outer loop, the variable of a finished inner `for` loop is read after that loop and is bound nowhere
    else: it holds the leftover of the last inner iteration - or, when the inner loop did not run for this outer
    element, the leftover of an earlier outer element (or nothing at all)."""
    obs = []
    n = 0
    for mod in MODULES:
        for f in sorted(prog.modules[mod].funcs.values(), key=lambda x: x.fq):
            fn = f.node
            parents = {}
            for p_ in ast.walk(fn):
                for c_ in ast.iter_child_nodes(p_):
                    parents[c_] = p_

            def chain(x):
                out = []
                while x in parents:
                    x = parents[x]
                    out.append(x)
                return out
            loops = [x for x in walk_own(fn) if isinstance(x, ast.For)]
            stores = {}
            for x in walk_own(fn):
                if isinstance(x, ast.Name) and isinstance(x.ctx, (ast.Store, ast.Del)):
                    stores.setdefault(x.id, []).append(x)
            for L in loops:
                outer = [a for a in chain(L) if isinstance(a, (ast.For, ast.While))]
                if not outer:
                    continue
                tnames = set(x.id for x in ast.walk(L.target) if isinstance(x, ast.Name))
                # a loop that is left with `break` hands its variable on on purpose (the element found, the count reached)
                def _own_breaks(node_, top=True):
                    for ch_ in ast.iter_child_nodes(node_):
                        if isinstance(ch_, ast.Break):
                            return True
                        if isinstance(ch_, (ast.For, ast.While, ast.FunctionDef, ast.Lambda)):
                            continue
                        if _own_breaks(ch_, False):
                            return True
                    return False
                if any(_own_breaks(st_) or isinstance(st_, ast.Break) for st_ in L.body):
                    continue
                for t in sorted(tnames):
                    if t in f.params:
                        continue
                    # bound only as the target of statement loops none of which encloses the use (checked below)
                    binders = []
                    okb = True
                    for st_ in stores.get(t, []):
                        ch = chain(st_)
                        b = next((a for a in ch if isinstance(a, (ast.For, ast.comprehension)) and any(
                            y is st_ for y in ast.walk(a.target))), None)
                        if b is None:
                            okb = False
                        else:
                            binders.append(b)
                    if not okb:
                        continue
                    for u in walk_own(fn):
                        if not (isinstance(u, ast.Name) and u.id == t and isinstance(u.ctx, ast.Load)):
                            continue
                        ch = chain(u)
                        if any(b in ch for b in binders):
                            continue        # inside (the header or body of) a loop / comprehension that binds it
                        # comprehension elements are children of the ListComp, the binder is the comprehension node
                        comp_bound = False
                        for a in ch:
                            if isinstance(a, (ast.ListComp, ast.SetComp, ast.GeneratorExp, ast.DictComp)):
                                if any(t in [y.id for y in ast.walk(g.target) if isinstance(y, ast.Name)] for g in a.generators):
                                    comp_bound = True
                        if comp_bound:
                            continue
                        if outer[0] not in ch:
                            continue
                        if not (getattr(u, 'lineno', 0) > getattr(L, 'end_lineno', 0)):
                            continue
                        # every binder of the name that precedes the use lies inside the same outer loop body
                        n += 1
                        obs.append(Ob('R-LEAKVAR', f.fq, 'the loop variable `%s` is read only where its loop binds it' % t, False,
                                      '`%s` is the variable of the loop at line %d and of nothing else; it is read at line %d, after '
                                      'that loop, inside the enclosing loop: it holds the leftover of the last iteration, or of an '
                                      'earlier outer element when the inner loop does not run' % (t, L.lineno, u.lineno),
                                      construct='leakvar:%s:%s' % (t, unparse(parents.get(u, u))[:50]), line=u.lineno))
                        break
    obs.append(Ob('R-LEAKVAR', 'package', 'scan for inner-loop variables read after their loop covered every function', True,
                  '%d found' % n, construct='leakvar-scan', nontrivial=False))
    return obs, {}


# --------------------------------------------------------------------------- fixtures: the patterns must be found

FIXTURE = {
    'transform': """
from . import trees
import io
from collections import Counter
def fx(tree, **params):
    keep = params['keep']
    if tree.data['label'] in keep:
        return None
    idx = None
    for i, x in enumerate(tree.children):
        idx = i
    if not idx:
        pass
    v = tree.data.get('head', False)
    if v is None:
        raise ValueError('x')
    d = {a: {b: 1} for a in tree.children for b in a.children}
    lab = tree.data['label']
    while len(tree.children) == 1:
        tree.data['label'] = lab + '+' + tree.children[0].data['label']
        tree = tree.children[0]
    starts = {c: 0 for c in tree.children}
    for c in tree.children:
        starts[c] = len(c.children)
    for c in tree.children:
        for g in c.children:
            g.data['x'] = 1
        c.data['y'] = g.data['x']
    byn = {}
    for c in tree.children:
        byn[c.data['num']] = c
    for k in sorted(byn.keys(), key=str):
        pass
    seen = Counter()
    seen |= Counter([lab])
    line = lab + " ||| %s"
    out = line % idx
    if lab in ('negra'):
        pass
    sep = params.get('sep') or '-'
    tree.data['num'] = tree.children[0].data['num']
    tree.data['word'] = tree.children[0].data['lemma']
    tree.data['lemma'] = tree.children[0].data['lemma']
    zero = {'x': 0}
    table = {}
    for c in tree.children:
        table[c] = zero
        table[c]['x'] = len(c.children)
    opts = _DEFAULTS
    opts.update(params)
    tiers = HEADS['np']
    del tiers[0]
    for c in tree.children:
        names = []
        names.append(c.data['label'])
    tree.data['names'] = ' '.join(names)
    if 'head' not in tree.data:
        raise ValueError('heads not marked?')
    if tree.children[0].data['head']:
        pass
    buf = io.StringIO()
    got = buf.getvalue()
    buf.write(lab)
    tree.data['got'] = got
    labels = [c.data['label'] for c in tree.children]
    for lb in labels:
        tree.data['pos'] = labels.index(lb)
    tagc = Counter()
    tagc.update(tree.data['label'])
    deepest = 0
    for c in tree.children:
        depth = len(c.children)
        if depth > deepest:
            deepest += 1
    live = filter(None, tree.children)
    for c in live:
        c.data['a'] = 1
    for c in live:
        c.data['b'] = 1
    return tree
_DEFAULTS = {}
HEADS = {'np': [1, 2]}
TRANSFORMATIONS = [fx]
""",
    'treeinput': "INPUT_FORMATS = []\n",
    'treeoutput': "OUTPUT_FORMATS = []\n",
}
_FIXTURE_DONE = {}


def _with_fixture(name, fn):
    """Wrap a zero-instance rule: on every run it must still find its pattern in the fixture."""
    def run(prog, tier):
        if name not in _FIXTURE_DONE:
            from ..core import Program, AnalysisError
            try:
                fx = Program(sources=FIXTURE)
                got = [o for o in fn(fx, tier)[0] if not o.ok]
            except AnalysisError:
                raise
            except Exception as e:
                raise AnalysisError('rule %s cannot be run on its fixture (%s: %s): the checker is broken' % (name, type(e).__name__, e))
            if not got:
                raise AnalysisError('rule %s no longer fires on its fixture: the checker is broken' % name)
            _FIXTURE_DONE[name] = len(got)
        obs, c = fn(prog, tier)
        c = dict(c)
        c['fixture_%s' % name] = 'pattern found in the built-in positive example'
        return obs, c
    return run


r_substr = _with_fixture('R-SUBSTR', r_substr)
r_deadcheck = _with_fixture('R-DEADCHECK', r_deadcheck)
r_falsyzero = _with_fixture('R-FALSYZERO', r_falsyzero)
r_dictcomp = _with_fixture('R-DICTCOMP', r_dictcomp)
r_staleacc = _with_fixture('R-STALEACC', r_staleacc)
r_zerotable = _with_fixture('R-ZEROTABLE', r_zerotable)
r_leakvar = _with_fixture('R-LEAKVAR', r_leakvar)
r_strsort = _with_fixture('R-STRSORT', r_strsort)
r_fmtdata = _with_fixture('R-FMTDATA', r_fmtdata)
r_counterunion = _with_fixture('R-COUNTERUNION', r_counterunion)
r_instr = _with_fixture('R-INSTR', r_instr)
r_ordefault = _with_fixture('R-ORDEFAULT', r_ordefault)
r_keycopy = _with_fixture('R-KEYCOPY', r_keycopy)
r_sharedmut = _with_fixture('R-SHAREDMUT', r_sharedmut)
r_sharedtable = _with_fixture('R-SHAREDTABLE', r_sharedtable)
r_oneshot = _with_fixture('R-ONESHOT', r_oneshot)
r_loopreset = _with_fixture('R-LOOPRESET', r_loopreset)
r_wrongcheck = _with_fixture('R-WRONGCHECK', r_wrongcheck)
r_stalesnap = _with_fixture('R-STALESNAP', r_stalesnap)
r_indexbyvalue = _with_fixture('R-INDEXBYVALUE', r_indexbyvalue)
r_counterstr = _with_fixture('R-COUNTERSTR', r_counterstr)
r_maxstep = _with_fixture('R-MAXSTEP', r_maxstep)
