"""Grammar side: R-ACCUM, R-ARITY, R-ARGPOS, R-INVERSEMAP, R-MUSTUSE, R-ENC, R-IDCOUNTER, R-SORTEDPOS,
R-DISCONT, R-EXTRACT."""
import ast

from ..core import (AnalysisError, Unrecognised, path, unparse, norm_test, facts_at, walk_own, split_assumes,
                    const_str, no_kill_between, root_name)
from ..events import name_defs, single_def
from ..report import Ob

COUNT_MODULES = ('grammar', 'grammarinput', 'grammaroutput', 'treeanalysis')
FRESH_KEY = {'grammarinput.rcg': 'one file line per (rule, linearization): the slot cannot exist yet'}


def _sub_depth(e):
    d = 0
    while isinstance(e, ast.Subscript):
        d += 1
        e = e.value
    return d, e


def _is_fresh_container(v):
    if isinstance(v, ast.Dict):
        return True
    if isinstance(v, ast.Constant) and v.value == 0 and not isinstance(v.value, bool):
        return True
    if isinstance(v, ast.Call) and isinstance(v.func, ast.Name) and v.func.id in ('dict', 'Counter', 'defaultdict', 'list', 'set'):
        return True
    if isinstance(v, (ast.List, ast.Set)) and not v.elts:
        return True
    return False


def r_accum(prog, tier):
    obs = []
    ninit = nslot = 0
    for mod in COUNT_MODULES:
        for f in sorted(prog.modules[mod].funcs.values(), key=lambda x: x.fq):
            cfg = f.cfg
            for n in cfg.eval_nodes():
                if n.kind != 'stmt':
                    continue
                st = n.ast
                # ---- initialisations D[K] = <fresh container | 0>
                if isinstance(st, ast.Assign) and len(st.targets) == 1 and isinstance(st.targets[0], ast.Subscript) \
                        and _is_fresh_container(st.value):
                    t = st.targets[0]
                    if isinstance(t.value, ast.Attribute) and t.value.attr == 'data':
                        continue            # node fields are not count tables
                    D, K = unparse(t.value), unparse(t.slice)
                    ninit += 1
                    ok = False
                    why = 'creating `%s[%s]` is not guarded by `%s not in %s`: an entry that exists already ' \
                          '(with its counts) would be replaced' % (D, K, K, D)
                    for (fa, nid) in facts_at(cfg, n.id):
                        if fa == ('in', K, D, False) or fa == ('haskey', D, K.strip("'\""), False):
                            if no_kill_between(cfg, nid, n.id, [path(t.value), path(t.slice)]):
                                ok = True
                                why = 'guarded by `%s`' % unparse(cfg.nodes[nid].ast)
                    if not ok and isinstance(t.value, ast.Name):
                        # a table created in this very function and filled key by key (e.g. reader tables)
                        d = single_def(f, t.value.id, n.id)
                        if d and d[0] != 'param' and isinstance(d[1], ast.AST) and _is_fresh_container(d[1]) \
                                and not _in_loop_after(cfg, d[0], n.id):
                            ok = True
                            why = 'table `%s` is created empty in this function right before' % D
                    obs.append(Ob('R-ACCUM/INIT', f.fq, 'entry creation `%s` happens only when the key is absent'
                                  % unparse(st), ok, why, construct='init:' + unparse(st), line=n.lineno))
                # ---- count slots: three-level stores
                tgt = None
                if isinstance(st, ast.Assign) and len(st.targets) == 1:
                    tgt = st.targets[0]
                elif isinstance(st, ast.AugAssign):
                    tgt = st.target
                if tgt is None or not isinstance(tgt, ast.Subscript):
                    continue
                depth, base = _sub_depth(tgt)
                is_self_table = isinstance(base, ast.Attribute) and isinstance(base.value, ast.Name) \
                    and base.value.id == 'self'
                if depth < 3 and not (is_self_table and depth >= 1):
                    continue
                if isinstance(tgt.value, ast.Attribute) and tgt.value.attr == 'data':
                    continue
                if isinstance(st, ast.Assign) and _is_fresh_container(st.value) and not \
                        (isinstance(st.value, ast.Constant)):
                    continue
                nslot += 1
                slot = unparse(tgt)
                parent = unparse(tgt.value)
                key = unparse(tgt.slice)
                ok = False
                why = 'plain assignment: an existing count in `%s` is overwritten (last one wins)' % slot
                if isinstance(st, ast.AugAssign):
                    ok = isinstance(st.op, ast.Add)
                    why = 'accumulated with +=' if ok else 'augmented with a non-additive operator'
                else:
                    v = st.value
                    vs = unparse(v)
                    if isinstance(v, ast.Constant) and v.value == 0:
                        ok = any(fa == ('in', key, parent, False) for (fa, _) in facts_at(cfg, n.id))
                        why = 'initialised to 0 only when the key is absent' if ok else \
                            'reset to 0 although the key may exist'
                    elif _reads_slot(v, slot, parent, key) and isinstance(v, ast.BinOp) and isinstance(v.op, ast.Add):
                        ok = True
                        why = 'right-hand side adds to the present value of the same slot'
                    elif isinstance(v, ast.Name):
                        ok, why = _local_accumulates(f, v.id, n.id, slot, parent, tgt)
                        if not ok:
                            reads = any(isinstance(d_, ast.AST) and (slot in unparse(d_) or '.get(' in unparse(d_))
                                        for (_, d_) in name_defs(f, v.id))
                            if reads:
                                ok = None       # partly derived from the slot: idiom not recognised
                    if not ok and (f.fq in FRESH_KEY or (f.module.name == 'grammarinput' and _in_file_line_loop(cfg, n))):
                        ok = True
                        why = 'FRESH-KEY table: ' + FRESH_KEY['grammarinput.rcg']
                    if ok is False and any(fa == ('in', key, parent, False) and
                                           no_kill_between(cfg, nid_, n.id, [path(tgt.value), path(tgt.slice)])
                                           for (fa, nid_) in facts_at(cfg, n.id)):
                        ok, why = None, 'stored only where `%s not in %s` holds: nothing is overwritten here' % (key, parent)
                    if ok is False and isinstance(v, (ast.Name, ast.Call, ast.BinOp, ast.Subscript)):
                        # positive evidence that the slot may already hold a count: the same function creates entries of
                        # this table only when absent, or adds to it elsewhere
                        base_txt = unparse(base)
                        evidence = False
                        for m_ in cfg.nodes:
                            if m_.kind == 'stmt' and m_.id != n.id:
                                t_ = unparse(m_.ast)
                                if isinstance(m_.ast, ast.AugAssign) and unparse(m_.ast.target).startswith(base_txt + '['):
                                    evidence = True
                            if m_.kind == 'assume' and (' in %s' % base_txt) in unparse(m_.ast):
                                evidence = True
                        if not evidence:
                            ok = None
                            why = 'plain store of a count; nothing in this function shows that the slot can exist already'

                obs.append(Ob('R-ACCUM/SLOT', f.fq, 'count slot store `%s` accumulates' % unparse(st)[:90], ok, why,
                              construct='slot:' + unparse(st), line=n.lineno))
    # ---- count handed to binarize_rule
    f = prog.func('grammar', 'binarize')
    cfg = f.cfg
    G = f.params[0]
    ncalls = 0
    for n in cfg.eval_nodes():
        if n.kind != 'stmt':
            continue
        for sub in walk_own(n.ast):
            if isinstance(sub, ast.Call) and prog.callee(sub, f) == ('grammar', 'binarize_rule'):
                ncalls += 1
                g = prog.func('grammar', 'binarize_rule')
                cp = [p_ for p_ in g.params if 'cnt' in p_ or 'count' in p_]
                arg = None
                if cp:
                    idx = g.params.index(cp[0])
                    arg = sub.args[idx] if len(sub.args) > idx else next((k.value for k in sub.keywords if k.arg == cp[0]), None)
                if cp and arg is None:
                    ok, why = False, 'the call does not pass the rule count at all: binarize_rule falls back to its default'
                else:
                    ok, why = _count_source(f, arg, n.id, G)
                    if ok and isinstance(arg, ast.Name):
                        # inside a loop over the vertical contexts of the rule the count must be the context's own
                        ctx_loops = [cfg.nodes[l] for l in n.loops if cfg.nodes[l].kind == 'iter'
                                     and _sub_depth(cfg.nodes[l].ast.iter.func.value if isinstance(cfg.nodes[l].ast.iter, ast.Call)
                                                    and isinstance(cfg.nodes[l].ast.iter.func, ast.Attribute)
                                                    else cfg.nodes[l].ast.iter)[0] == 2]
                        sums = [v for (nid, v) in name_defs(f, arg.id) if isinstance(v, ast.Call) and unparse(v.func) == 'sum'
                                and any(l.id in cfg.nodes[nid].loops for l in ctx_loops)]
                        if ctx_loops and sums:
                            ok = False
                            why = '`%s = %s` is the total over all vertical contexts, but it is handed over once per context ' \
                                  '(loop `for %s in %s`): a rule seen in k contexts is counted k times over' % (
                                      arg.id, unparse(sums[0])[:50], unparse(ctx_loops[0].ast.target), unparse(ctx_loops[0].ast.iter)[:40])
                obs.append(Ob('R-ACCUM/HANDOVER', f.fq, 'the count handed to binarize_rule (`%s`) is the rule\'s own '
                              'count from the source grammar' % (unparse(arg) if arg is not None else '?'), ok, why,
                              construct='handover:%d' % ncalls, line=n.lineno))
    if ncalls < 2:
        raise Unrecognised('grammar.binarize calls binarize_rule %d times (2 expected)' % ncalls, partial=obs)
    # ---- printed count is the sum over contexts
    for nm in prog.registry('grammaroutput', 'FORMATS'):
        f = prog.func('grammaroutput', nm)
        cfg = f.cfg
        G = f.params[0]
        found = None
        for n in cfg.eval_nodes():
            if n.kind == 'stmt' and isinstance(n.ast, ast.Assign) and isinstance(n.ast.targets[0], ast.Name):
                v = n.ast.value
                if isinstance(v, ast.Call) and isinstance(v.func, ast.Name) and v.func.id == 'sum' and v.args \
                        and unparse(v.args[0]).startswith(G + '[') and unparse(v.args[0]).endswith('.values()') \
                        and len(n.loops) == 2:
                    found = (n, n.ast.targets[0].id)
        ok = None
        why = 'no `count = sum(%s[func][lin].values())` inside the rule loop recognised' % G
        if found:
            n, c = found
            used = False
            for m in cfg.eval_nodes():
                if m.kind == 'stmt' and m.loops[:2] == n.loops[:2] and cfg.dominates(n.id, m.id):
                    for sub in walk_own(m.ast):
                        if isinstance(sub, ast.Call) and (unparse(sub.func).endswith('.write') or unparse(sub.func) == 'print') \
                                and c in [x.id for x in ast.walk(sub) if isinstance(x, ast.Name)]:
                            used = True
            ok = True if used else None
            why = 'writes `%s = %s`' % (c, unparse(n.ast.value)) if ok else 'use of the summed count not recognised'
        obs.append(Ob('R-ACCUM/PRINT', f.fq, 'the count written for a rule is the sum over its vertical contexts',
                      ok, why, construct='print-count', line=f.node.lineno))
    # ---- extract: one increment per constituent, one lexicon update per token
    f = prog.func('grammar', 'extract')
    cfg = f.cfg
    incs = []
    upds = []
    for n in cfg.eval_nodes():
        if n.kind == 'stmt' and isinstance(n.ast, ast.AugAssign) and _sub_depth(n.ast.target)[0] == 3:
            incs.append(n)
        if n.kind == 'stmt' and isinstance(n.ast, ast.Expr) and isinstance(n.ast.value, ast.Call) \
                and isinstance(n.ast.value.func, ast.Attribute) and n.ast.value.func.attr == 'update' \
                and unparse(n.ast.value.func.value).startswith(f.params[2] + '['):
            upds.append(n)
    tree = f.params[0]
    for (lst, what, pol) in ((incs, 'rule count is incremented by 1 exactly once per constituent', True),
                             (upds, 'lexicon count is updated exactly once per token', False)):
        ok = None
        why = '%d statements of the recognised form' % len(lst)
        if len(lst) > 1 and not any(b_.id in cfg.reach(a_.id, avoid=frozenset(a_.loops)) for a_ in lst for b_ in lst if a_ is not b_):
            ok, why = None, 'the count is changed at %d places that exclude each other (one per branch): not followed' % len(lst)
        elif len(lst) > 1:
            ok, why = False, 'the count is changed at %d places per node' % len(lst)
        if len(lst) == 1:
            n = lst[0]
            outer = [l for l in n.loops]
            one_loop = len(outer) == 1 and cfg.nodes[outer[0]].kind == 'iter' \
                and unparse(cfg.nodes[outer[0]].ast.iter) == 'trees.preorder(%s)' % tree
            hc = [a for a in cfg.assumes_at(n.id) if norm_test(a.ast, a.pol)[0] == 'opaque'
                  and norm_test(a.ast, a.pol)[1] == 'trees.has_children(%s)' % unparse(cfg.nodes[outer[0]].ast.target)
                  and norm_test(a.ast, a.pol)[2] is pol] if one_loop else []
            uncond = bool(hc) and cfg.postdominates(n.id, hc[0].id)
            amount = True
            if pol:
                amount = isinstance(n.ast.op, ast.Add) and isinstance(n.ast.value, ast.Constant) and n.ast.value.value == 1
            else:
                a = n.ast.value.args
                amount = len(a) == 1 and isinstance(a[0], ast.List) and len(a[0].elts) == 1
            ok = True if (one_loop and uncond and amount) else None
            why = 'single statement `%s`, directly in the loop over preorder(%s), unconditional in the %s branch' \
                  % (unparse(n.ast), tree, 'constituent' if pol else 'token') if ok else \
                  'in node loop only: %s; unconditional in its branch: %s; amount one: %s' % (one_loop, uncond, amount)
            if ok is None and len(outer) > 1:
                ok = False      # inside an inner loop: counted once per child / terminal, not once per node
            elif ok is None and not amount:
                ok = False
            elif ok is None and one_loop and hc and not uncond:
                # positive evidence: the only counting statement sits under a further condition, and on the path where
                # that condition fails nothing else counts the unit
                tbl = unparse(n.ast.target.value.value.value) if pol else f.params[2]
                extra = [a for a in cfg.assumes_at(n.id) if a.id not in [b.id for b in cfg.assumes_at(hc[0].id)] and a.id != hc[0].id]
                for a in extra:
                    tnode = cfg.stmt_node.get(a.owner)
                    if tnode is None:
                        continue
                    other = None
                    for pb in (True, False):
                        st_ = cfg.branch.get(tnode, {}).get(pb)
                        if st_ is not None and st_ != n.id and n.id not in cfg.reach(st_, avoid=frozenset([outer[0]])) | {st_}:
                            other = st_
                    if other is None:
                        continue
                    region = (cfg.reach(other, avoid=frozenset([outer[0], n.id])) | {other})
                    counts_elsewhere = any(
                        m in region and cfg.nodes[m].kind == 'stmt' and tbl + '[' in unparse(cfg.nodes[m].ast)
                        and isinstance(cfg.nodes[m].ast, (ast.Assign, ast.AugAssign, ast.Expr))
                        and not unparse(cfg.nodes[m].ast).startswith('print') for m in region
                        if cfg.nodes[m].kind == 'stmt' and cfg.nodes[m].id != n.id and m not in cfg.reach(n.id, avoid=frozenset([outer[0]])))
                    if not counts_elsewhere:
                        ok = False
                        why = '`%s` happens only under `%s%s`; otherwise the %s is not counted at all' % (
                            unparse(n.ast)[:50], '' if a.pol else 'not ', unparse(a.ast)[:40], 'constituent' if pol else 'token')
        obs.append(Ob('R-ACCUM/EXTRACT', f.fq, what, ok, why, construct='extract:' + what, line=f.node.lineno))
    # ---- extract looks at every node of every tree: no way out before the walk (a tree that is a single token still
    #      contributes its word to the lexicon)
    fx = prog.func('grammar', 'extract')
    cx = fx.cfg
    walks_ = [t.id for t in cx.eval_nodes() if t.kind == 'iter' and 'preorder(%s)' % fx.params[0] in unparse(t.ast.iter)]
    if walks_:
        exits_ = [p_ for p_ in cx.pred[cx.exit] if cx.nodes[p_].kind == 'stmt' and isinstance(cx.nodes[p_].ast, ast.Return)]
        early_ = [p_ for p_ in exits_ if p_ in cx.reach(cx.entry, avoid=frozenset(walks_))]
        if early_:
            nd_ = cx.nodes[early_[0]]
            obs.append(Ob('R-ACCUM/EXTRACT', fx.fq, 'every tree is walked', None if prog.opaque_calls(fx, [fx.params[0]]) else False,
                          '`%s` (line %d, under %s) leaves before the walk over the nodes: the token(s) of such a tree are never '
                          'counted in the lexicon' % (unparse(nd_.ast)[:30], nd_.lineno, [unparse(a_.ast)[:40] for a_ in cx.assumes_at(nd_.id)]),
                          construct='extract-always', line=nd_.lineno))
    # ---- analysis tasks
    obs.extend(_task_rules(prog))
    return obs, {'count_slot_stores': nslot, 'entry_creations': ninit}


def _in_file_line_loop(cfg, n):
    """Is the statement inside `for line in <f>` with <f> bound by an enclosing `with ... open(...) as <f>`?"""
    from ..events import strip_copy
    for l in n.loops:
        lp = cfg.nodes[l]
        src_ = strip_copy(lp.ast.iter) if lp.kind == 'iter' else None
        if isinstance(src_, ast.Call) and isinstance(src_.func, ast.Attribute) and src_.func.attr == 'readlines' and not src_.args:
            src_ = src_.func.value
        if lp.kind == 'iter' and isinstance(src_, ast.Name):
            for w in cfg.nodes:
                if w.kind == 'with':
                    for it in w.ast.items:
                        if it.optional_vars is not None and unparse(it.optional_vars) == src_.id \
                                and 'open' in unparse(it.context_expr):
                            return True
    return False


def _in_loop_after(cfg, dnode, use):
    """Is `use` inside a loop that the definition node is outside of?"""
    return len(cfg.nodes[use].loops) > len(cfg.nodes[dnode].loops)


def _reads_slot(v, slot, parent, key):
    s = unparse(v)
    return slot in s or ('%s.get(%s' % (parent, key)) in s


def _local_accumulates(f, name, at, slot, parent, tgt):
    """`slot = name` where on every path `name` was computed from the slot's present value, or the
    enclosing entry was created on that path (the lex_in_grammar idiom)."""
    cfg = f.cfg
    defs = [(n, v) for (n, v) in name_defs(f, name) if n in cfg.coreach(at) or cfg.dominates(n, at)]
    reading = [(n, v) for (n, v) in defs if isinstance(v, ast.AST) and isinstance(v, ast.BinOp)
               and isinstance(v.op, ast.Add) and slot in unparse(v)] + \
              [(n, v) for (n, v) in defs if isinstance(v, tuple) and v[0] == 'aug' and isinstance(v[1].op, ast.Add)
               and slot in unparse(v[1].value)]
    if len(reading) != 1:
        return False, 'the stored local `%s` is not derived from the present value of the slot' % name
    rn, rv = reading[0]
    # the reading definition is guarded by "<k> in <parent-of-parent>"; the other branch creates the entry
    pk = unparse(tgt.value.slice) if isinstance(tgt.value, ast.Subscript) else None
    pp = unparse(tgt.value.value) if isinstance(tgt.value, ast.Subscript) else None
    guard = None
    for (fa, nid) in facts_at(cfg, rn):
        if fa == ('in', pk, pp, True):
            guard = nid
    if guard is None:
        return False, '`%s` adds to the slot only on some paths and nothing shows the other paths start from ' \
                      'a fresh entry' % name
    owner = cfg.nodes[guard].owner
    created = False
    for n in cfg.eval_nodes():
        if n.kind == 'stmt' and isinstance(n.ast, ast.Assign) and unparse(n.ast.targets[0]) == parent \
                and isinstance(n.ast.value, ast.Dict):
            for (fa, nid) in facts_at(cfg, n.id):
                if fa == ('in', pk, pp, False) and cfg.nodes[nid].owner is owner:
                    created = True
    if not created:
        return False, 'on the path where `%s` is not added to the slot, the entry is not created afresh' % name
    return True, '`%s` = present value + new count when the entry exists; otherwise the entry is created on ' \
                 'that path' % name


def _derived_from(f, name, G, depth=0, at=None):
    """Is local `name` the grammar parameter G, or (by every one of its definitions - every one that reaches cfg node `at`,
    when given) an entry of it obtained by iterating / subscripting it?"""
    if name == G:
        return True
    if depth > 4:
        return False
    defs = name_defs(f, name)
    if at is not None and len(defs) > 1:
        ids = frozenset(d for (d, _) in defs)
        reaching = [(d, v) for (d, v) in defs if d == at or at in f.cfg.reach(d, avoid=ids - {d})]
        defs = reaching or defs
    if not defs:
        return False
    for (n, v) in defs:
        ok = False
        if isinstance(v, tuple) and v[0] == 'iter':
            base = v[1]
            if isinstance(base, ast.Call) and isinstance(base.func, ast.Attribute) and base.func.attr in ('items', 'values', 'keys'):
                base = base.func.value
            while isinstance(base, ast.Subscript):
                base = base.value
            ok = isinstance(base, ast.Name) and base.id != name and _derived_from(f, base.id, G, depth + 1, n)
        elif isinstance(v, ast.AST):
            base = v
            while isinstance(base, ast.Subscript):
                base = base.value
            ok = isinstance(base, ast.Name) and base.id != name and _derived_from(f, base.id, G, depth + 1, n)
        if not ok:
            return False
    return True


def _count_source(f, arg, at, G):
    if not isinstance(arg, ast.Name):
        return None, 'not a simple local'
    cfg = f.cfg
    reach = []
    for (n, v) in name_defs(f, arg.id):
        if cfg.dominates(n, at) or at in cfg.reach(n):
            if cfg.nodes[n].loops and cfg.nodes[n].loops[0] != (cfg.nodes[at].loops[0] if cfg.nodes[at].loops else None):
                continue
            reach.append((n, v))
    if not reach:
        return None, 'no definition reaches the call'
    verdict = True
    why = 'every reaching definition reads the count(s) of the rule out of the source grammar `%s`' % G
    # the sum written as a loop:  cnt = 0;  for ...: cnt += G[...][...]
    alld = [(n, v) for (n, v) in name_defs(f, arg.id) if at in cfg.reach(n)]
    inits = [(n, v) for (n, v) in alld if isinstance(v, ast.Constant) and v.value == 0]
    augs = [(n, v) for (n, v) in alld if isinstance(v, tuple) and v[0] == 'aug']
    if inits and augs and len(inits) + len(augs) == len(alld):
        at_loops = cfg.nodes[at].loops
        for (n, v) in inits:
            if not set(at_loops) <= set(cfg.nodes[n].loops):
                outer = [l for l in at_loops if l not in cfg.nodes[n].loops]
                return False, '`%s = 0` (line %d) is outside `%s`, the call that receives `%s` is inside it: the sum is started ' \
                              'once and handed over for every element, each one getting the running total of those before it' % (
                                  arg.id, cfg.nodes[n].lineno, unparse(cfg.nodes[outer[0]].ast).split('\n')[0][:50], arg.id)
        srcs_ok = True
        for (n, v) in augs:
            st_ = v[1] if isinstance(v[1], ast.AugAssign) else cfg.nodes[n].ast
            base = st_.value if isinstance(st_, ast.AugAssign) else None
            while isinstance(base, ast.Subscript):
                base = base.value
            if not (isinstance(base, ast.Name) and (_derived_from(f, base.id, G) or base.id == G)):
                srcs_ok = False
        if srcs_ok:
            return True, 'summed up in a loop started afresh for every rule handed over'
        return None, 'accumulation of `%s` not recognised' % arg.id
    for (n, v) in reach:
        if not isinstance(v, ast.AST):
            # e.g. bound by `for vert, rule_cnt in G[func][lin].items()`
            if isinstance(v, tuple) and v[0] == 'iter':
                src = v[1]
                if isinstance(src, ast.Call) and isinstance(src.func, ast.Attribute):
                    src = src.func.value
                while isinstance(src, ast.Subscript):
                    src = src.value
                if isinstance(src, ast.Name) and _derived_from(f, src.id, G, 0, n):
                    continue
                if isinstance(src, ast.Name) and src.id in f.locals:
                    return False, '`%s` is taken from `%s`, a table rebuilt in this function and not the source grammar: ' \
                                  'entries that fall together there overwrite each other' % (arg.id, src.id)
            return None, 'definition of `%s` not recognised' % arg.id
        e = v
        if isinstance(e, ast.Call) and isinstance(e.func, ast.Name) and e.func.id == 'sum' and e.args:
            e = e.args[0]
            if isinstance(e, ast.Call) and isinstance(e.func, ast.Attribute) and e.func.attr == 'values':
                e = e.func.value
        base = e
        while isinstance(base, ast.Subscript):
            base = base.value
        if isinstance(base, ast.Name) and _derived_from(f, base.id, G, 0, n):
            continue
        if isinstance(base, ast.Name) and base.id in f.locals:
            return False, '`%s = %s` (line %d) reads `%s`, which is not the source grammar: the count handed over is not ' \
                          'the rule\'s own' % (arg.id, unparse(v), cfg.nodes[n].lineno, base.id)
        return None, '`%s = %s` not recognised' % (arg.id, unparse(v))
    return verdict, why


def _task_rules(prog):
    obs = []
    tasks = prog.registry('treeanalysis', 'TASKS')
    for cls in tasks:
        f = prog.func('treeanalysis', cls + '.run')
        cfg = f.cfg
        tree = f.params[1] if len(f.params) > 1 else None
        nacc = 0
        for n in cfg.eval_nodes():
            if n.kind != 'stmt':
                continue
            st = n.ast
            # plain stores to self attributes are not accumulation
            if isinstance(st, ast.Assign):
                for t in st.targets:
                    if isinstance(t, ast.Attribute) and isinstance(t.value, ast.Name) and t.value.id == 'self':
                        obs.append(Ob('R-ACCUM/TASK', f.fq, 'per-corpus state `%s` is only accumulated into'
                                      % unparse(t), False, 'plain assignment `%s`: the value carries over to the '
                                      'next tree instead of being a per-tree local or an accumulated total'
                                      % unparse(st), construct='task-assign:' + unparse(st), line=n.lineno))
            acc = None
            if isinstance(st, ast.AugAssign) and root_name(st.target) == 'self':
                acc = ('aug', st)
            if isinstance(st, ast.Expr) and isinstance(st.value, ast.Call) and isinstance(st.value.func, ast.Attribute) \
                    and st.value.func.attr in ('append', 'update') and root_name(st.value.func.value) == 'self':
                acc = ('call', st)
            if acc is None:
                continue
            nacc += 1
            loops = [cfg.nodes[l] for l in n.loops]
            guards = [a for a in cfg.assumes_at(n.id)]
            # which unit does it count?
            if not loops:
                unit = 'tree'
                ok = cfg.always_with(cfg.entry, n.id) and cfg.postdominates(n.id, cfg.entry)
            elif len(loops) == 1 and loops[0].kind == 'iter' and unparse(loops[0].ast.iter) == 'trees.terminals(%s)' % tree:
                unit = 'token'
                ok = cfg.in_every_iteration(loops[0].id, n.id)
            elif len(loops) == 1 and loops[0].kind == 'iter' and unparse(loops[0].ast.iter) == 'trees.preorder(%s)' % tree:
                unit = 'constituent'
                hc = [a for a in guards if norm_test(a.ast, a.pol) ==
                      ('opaque', 'trees.has_children(%s)' % unparse(loops[0].ast.target), True)]
                ok = bool(hc) and cfg.postdominates(n.id, hc[0].id)
            else:
                unit = '?'
                ok = False
            amount = True
            if acc[0] == 'aug':
                amount = isinstance(st.op, ast.Add) and isinstance(st.value, ast.Constant) and st.value.value == 1
            obs.append(Ob('R-ACCUM/TASK', f.fq, 'accumulator `%s` counts each %s exactly once' % (unparse(st), unit),
                          True if (ok and amount) else (None if unit == '?' else False), 'unconditional for every %s, amount one' % unit if ok and amount else
                          'not executed exactly once per %s (or not by one)' % unit,
                          construct='task:' + unparse(st), line=n.lineno))
        if nacc == 0:
            obs.append(Ob('R-ACCUM/TASK', f.fq, 'task accumulates something per tree', None,
                          'run() has no accumulating statement', construct='task-none'))
    return obs


# ------------------------------------------------------------------------------------ R-ARITY

def r_arity(prog, tier):
    obs = []
    f = prog.func('grammar', 'binarize_rule')
    cfg = f.cfg
    res = f.params[-1]
    func_p, lin_p = f.params[0], f.params[1]
    keys = {}
    for n in cfg.eval_nodes():
        if n.kind != 'stmt':
            continue
        st = n.ast
        tgt = st.targets[0] if isinstance(st, ast.Assign) and len(st.targets) == 1 else \
            (st.target if isinstance(st, ast.AugAssign) else None)
        if tgt is None:
            continue
        d, base = _sub_depth(tgt)
        if d >= 1 and isinstance(base, ast.Name) and base.id == res:
            e = tgt
            while isinstance(e.value, ast.Subscript):
                e = e.value
            keys.setdefault((unparse(e.slice), n.id), (e.slice, n, tgt))
    if not keys:
        raise Unrecognised('binarize_rule stores nothing into its result', partial=obs)
    seen = set()
    for (ktxt, nid), (kexpr, n, tgt) in sorted(keys.items(), key=lambda x: x[0][1]):
        if isinstance(kexpr, ast.Name) and kexpr.id == func_p:
            facts = [fa for (fa, _) in facts_at(cfg, nid)]
            small = False
            from ..linear import norm_compare
            for a_ in cfg.assumes_at(nid):
                if isinstance(a_.ast, ast.Compare):
                    nf = norm_compare(f, a_.ast, a_.pol)
                    if nf and nf[0] == 'le' and len(nf[1]) == 1 and nf[1][0][1] == 1:
                        atom, c_ = nf[1][0][0], nf[2]
                        if (atom == 'len(%s[1:])' % func_p and c_ <= 2) or (atom == 'len(%s)' % func_p and c_ <= 3):
                            small = True
            # verbatim: the linearization key is the parameter
            d, _ = _sub_depth(tgt)
            lin_ok = True
            if d >= 2:
                e = tgt
                while _sub_depth(e)[0] > 2:
                    e = e.value
                lin_ok = unparse(e.slice) == lin_p
            tag = ('verbatim', ktxt)
            if tag in seen and small and lin_ok:
                continue
            seen.add(tag)
            obs.append(Ob('R-ARITY', f.fq, 'the rule is stored unchanged only when it has at most two right-hand '
                          'sides (`%s`)' % unparse(n.ast)[:70], small and lin_ok,
                          'under `len(%s[1:]) <= 2`, with its own linearization' % func_p if small and lin_ok else
                          'stored verbatim without the rank test, or with a changed linearization',
                          construct='arity-verbatim:' + unparse(tgt), line=n.lineno))
        elif isinstance(kexpr, ast.Name):
            tag = ('built', ktxt)
            defs = [(m, v) for (m, v) in name_defs(f, kexpr.id)]
            bad = []
            for (m, v) in defs:
                ok3 = isinstance(v, ast.Call) and isinstance(v.func, ast.Name) and v.func.id == 'tuple' \
                    and len(v.args) == 1 and isinstance(v.args[0], (ast.List, ast.Tuple)) and len(v.args[0].elts) == 3
                ok3 = ok3 or (isinstance(v, ast.Tuple) and len(v.elts) == 3)
                if not ok3:
                    bad.append(unparse(v) if isinstance(v, ast.AST) else str(v))
            if tag in seen:
                continue
            seen.add(tag)
            obs.append(Ob('R-ARITY', f.fq, 'every binarized rule key `%s` is a triple (left-hand side, two '
                          'right-hand sides)' % kexpr.id, not bad and bool(defs),
                          '%d definitions, each tuple([a, b, c])' % len(defs) if not bad else
                          'definition(s) %s are not 3-element tuples' % bad, construct='arity-key:' + kexpr.id,
                          line=n.lineno))
        else:
            obs.append(Ob('R-ARITY', f.fq, 'rule key `%s` has a recognised shape' % ktxt, False,
                          'key expression not modelled', construct='arity-key?:' + ktxt, line=n.lineno))
    # label generators
    for q in ('LabelGenerator.next',):
        g = prog.func('grammar', q)
        gc = g.cfg
        rets = [n for n in gc.eval_nodes() if n.kind == 'stmt' and isinstance(n.ast, ast.Return)]
        incs = [n for n in gc.eval_nodes() if n.kind == 'stmt' and isinstance(n.ast, ast.AugAssign)
                and unparse(n.ast) == 'self.numb += 1']
        for r in rets:
            ok = any(gc.dominates(i.id, r.id) for i in incs) and r.ast.value is not None \
                and 'self.numb' in unparse(r.ast.value)
            obs.append(Ob('R-ARITY/UNIQUE', g.fq, 'every label handed out is new: `%s`' % unparse(r.ast)[:60], ok,
                          'self.numb is incremented before this return and the label contains it' if ok else
                          'a path returns a label without incrementing the counter (or a label that does not '
                          'depend on it): two rules can share a binarization symbol',
                          construct='labelgen:' + unparse(r.ast), line=r.lineno))
        if not rets:
            raise Unrecognised('LabelGenerator.next has no return', partial=obs)
    g = prog.func('grammar', 'binarize')
    gc = g.cfg
    ctors = []
    for n in gc.eval_nodes():
        if n.kind == 'stmt':
            for sub in walk_own(n.ast):
                if isinstance(sub, ast.Call) and isinstance(sub.func, ast.Name) \
                        and sub.func.id in ('LabelGenerator', 'MarkovLabelGenerator'):
                    ctors.append((n, sub))
    if not ctors:
        raise Unrecognised('grammar.binarize creates no label generator', partial=obs)
    for (n, sub) in ctors:
        ok = not n.loops
        obs.append(Ob('R-ARITY/UNIQUE', g.fq, 'the label generator `%s` is created once per binarize call, outside '
                      'every loop' % unparse(sub), ok, 'not inside a loop' if ok else
                      'created inside a loop: numbering restarts and labels repeat', construct='labelgen-ctor:' + unparse(sub),
                      line=n.lineno))
    # no module-level generator
    for mname in ('grammar',):
        for nm, v in prog.modules[mname].consts.items():
            if isinstance(v, ast.Call) and isinstance(v.func, ast.Name) and v.func.id.endswith('LabelGenerator'):
                obs.append(Ob('R-ARITY/UNIQUE', mname, 'no label generator lives at module level', False,
                              '`%s` is shared by all calls' % nm, construct='labelgen-global:' + nm))
    # the chain of binarization rules: each rule rewrites the symbol the previous rule introduced
    f = prog.func('grammar', 'binarize_rule')
    cfg = f.cfg
    for n in cfg.eval_nodes():
        if not (n.kind == 'stmt' and n.loops and isinstance(n.ast, ast.Assign) and len(n.ast.targets) == 1):
            continue
        v = n.ast.value
        if isinstance(v, ast.Call) and isinstance(v.func, ast.Name) and v.func.id == 'tuple' and len(v.args) == 1 \
                and isinstance(v.args[0], (ast.List, ast.Tuple)):
            v = v.args[0]
        if not (isinstance(v, (ast.Tuple, ast.List)) and len(v.elts) == 3 and isinstance(v.elts[0], ast.Name)
                and isinstance(v.elts[2], ast.Name)):
            continue
        A, C = v.elts[0].id, v.elts[2].id
        lp = n.loops[-1]
        cdefs = [nid for (nid, val) in name_defs(f, C) if lp in cfg.nodes[nid].loops and isinstance(val, ast.Call)]
        if not cdefs:
            continue            # the third component is not a label made in this loop
        adefs = [(nid, val) for (nid, val) in name_defs(f, A) if lp in cfg.nodes[nid].loops]
        carried = [nid for (nid, val) in adefs if isinstance(val, ast.Name) and val.id == C and cfg.in_every_iteration(lp, nid)]
        if carried:
            ok, why = True, '`%s = %s` in every iteration: the next rule rewrites the symbol this one introduces' % (A, C)
        elif not adefs and A not in f.params:
            ok = False
            why = '`%s` is never re-bound inside the loop while `%s` is a new symbol in every iteration: all chain rules rewrite ' \
                  'the same symbol and the symbols introduced later are never rewritten' % (A, C)
        else:
            ok, why = None, 'the way `%s` follows `%s` through the loop is not recognised' % (A, C)
        obs.append(Ob('R-ARITY/CHAIN', f.fq, 'chain rule `%s` rewrites the symbol introduced by the previous rule' % unparse(n.ast)[:60],
                      ok, why, construct='chain:' + unparse(n.ast)[:60], line=n.lineno))
    return obs, {}


# ------------------------------------------------------------------------------------ R-ARGPOS

def _inc_of(st):
    """(counter text, key text) if the statement advances a per-key counter by one:
    C.update([k]) | C[k] += 1 | C[k] = C[k] + 1"""
    if isinstance(st, ast.Expr) and isinstance(st.value, ast.Call) and isinstance(st.value.func, ast.Attribute) \
            and st.value.func.attr == 'update' and len(st.value.args) == 1 and isinstance(st.value.args[0], (ast.List, ast.Tuple)) \
            and len(st.value.args[0].elts) == 1:
        return unparse(st.value.func.value), unparse(st.value.args[0].elts[0])
    if isinstance(st, ast.AugAssign) and isinstance(st.op, ast.Add) and isinstance(st.target, ast.Subscript) \
            and isinstance(st.value, ast.Constant) and st.value.value == 1:
        return unparse(st.target.value), unparse(st.target.slice)
    if isinstance(st, ast.Assign) and len(st.targets) == 1 and isinstance(st.targets[0], ast.Subscript) \
            and isinstance(st.value, ast.BinOp) and isinstance(st.value.op, ast.Add) \
            and unparse(st.value.left) == unparse(st.targets[0]) and unparse(st.value.right) == '1':
        return unparse(st.targets[0].value), unparse(st.targets[0].slice)
    # C[k] = C.get(k, 0) + 1
    if isinstance(st, ast.Assign) and len(st.targets) == 1 and isinstance(st.targets[0], ast.Subscript) \
            and isinstance(st.value, ast.BinOp) and isinstance(st.value.op, ast.Add) and unparse(st.value.right) == '1' \
            and isinstance(st.value.left, ast.Call) and isinstance(st.value.left.func, ast.Attribute) \
            and st.value.left.func.attr == 'get' and unparse(st.value.left.func.value) == unparse(st.targets[0].value) \
            and len(st.value.left.args) == 2 and unparse(st.value.left.args[0]) == unparse(st.targets[0].slice) \
            and unparse(st.value.left.args[1]) == '0':
        return unparse(st.targets[0].value), unparse(st.targets[0].slice)
    return None


def _emission_verdict(f, n, k, v):
    """The pair (k, v) appended at node n numbers the references to k consecutively from 0."""
    cfg = f.cfg
    ks = unparse(k)
    # which counter, which offset
    off = None
    ctr = None
    if isinstance(v, ast.Subscript) and unparse(v.slice) == ks:
        ctr, off = unparse(v.value), 0
    elif isinstance(v, ast.BinOp) and isinstance(v.op, ast.Sub) and isinstance(v.left, ast.Subscript) \
            and unparse(v.left.slice) == ks and isinstance(v.right, ast.Constant) and isinstance(v.right.value, int):
        ctr, off = unparse(v.left.value), -v.right.value
    elif isinstance(v, ast.Constant):
        return False, 'the position emitted with `%s` is the constant %r, not the count of earlier references' % (ks, v.value)
    if ctr is None:
        # positive evidence: the position is read from the counter that is advanced for this key, but under another key
        sub = v.left if (isinstance(v, ast.BinOp) and isinstance(v.op, ast.Sub) and isinstance(v.right, ast.Constant)) else v
        if isinstance(sub, ast.Subscript):
            base, other = unparse(sub.value), unparse(sub.slice)
            adv = [m for m in cfg.eval_nodes() if m.kind == 'stmt' and _inc_of(m.ast) == (base, ks)
                   and cfg.same_loop(m.id, n.id) and cfg.always_with(n.id, m.id)]
            if adv and other != ks:
                return False, 'the reference emitted is to `%s` and `%s[%s]` is advanced with it, but the position is read from ' \
                              '`%s[%s]`: the count of another key' % (ks, base, ks, base, other)
        return None, 'position expression `%s` not modelled' % unparse(v)
    incs = [m for m in cfg.eval_nodes() if m.kind == 'stmt' and _inc_of(m.ast) == (ctr, ks)]
    if not incs:
        anyinc = [m for m in cfg.eval_nodes() if m.kind == 'stmt' and _inc_of(m.ast) and _inc_of(m.ast)[0] == ctr]
        if anyinc:
            return None, 'the counter `%s` is advanced under another key expression' % ctr
        stores_ = [m for m in cfg.eval_nodes() if m.kind == 'stmt' and isinstance(m.ast, (ast.Assign, ast.AugAssign)) and any(
            isinstance(t_, ast.Subscript) and unparse(t_.value) == ctr
            for t_ in (m.ast.targets if isinstance(m.ast, ast.Assign) else [m.ast.target]))]
        if stores_:
            return None, 'the counter `%s` is written (`%s`) in a form this rule does not read as a step of one' % (
                ctr, unparse(stores_[0].ast)[:40])
        return False, 'the counter `%s[%s]` is never advanced: every reference gets the same position' % (ctr, ks)
    paired = [m for m in incs if cfg.same_loop(m.id, n.id) and cfg.always_with(m.id, n.id) and cfg.always_with(n.id, m.id)]
    if not paired:
        # positive: some run executes the emission without the increment or the other way round
        return False, '`%s[%s]` is not advanced exactly when a reference is emitted: the counter also advances (or fails ' \
                      'to) when nothing is emitted' % (ctr, ks)
    m = paired[0]
    before = cfg.dominates(m.id, n.id)
    if len(paired) > 1:
        return False, 'the counter is advanced %d times per emitted reference' % len(paired)
    want = -1 if before else 0
    if off == want:
        return True, '`%s` %s the emission and happens exactly with it; emitted position %s[%s]%s' % (
            unparse(m.ast), 'precedes' if before else 'follows', ctr, ks, ' - 1' if before else '')
    return False, 'the counter is advanced %s the emission but the emitted position is %s[%s]%+d: positions start at %d' % (
        'before' if before else 'after', ctr, ks, off, (1 + off) if before else off)


def r_argpos(prog, tier):
    """Every emitted pair (k, n) carries n = number of earlier emissions for k."""
    obs = []
    sites = 0
    # the table that tells which child covers a token is keyed by the token's NUMBER: two tokens can have the same word
    fx = prog.func('grammar', 'extract')
    for st in walk_own(fx.node):
        if isinstance(st, ast.Assign) and len(st.targets) == 1 and isinstance(st.targets[0], ast.Subscript) \
                and isinstance(st.targets[0].value, ast.Name) and st.targets[0].value.id in fx.locals \
                and st.targets[0].value.id not in fx.params and isinstance(st.value, ast.Name):
            key = st.targets[0].slice
            if isinstance(key, ast.Subscript) and isinstance(key.value, ast.Attribute) and key.value.attr == 'data' \
                    and isinstance(key.slice, ast.Constant) and key.slice.value in ('word', 'lemma', 'label', 'edge', 'morph'):
                idx_like = any(isinstance(v_, tuple) and v_[0] == 'iter' for (_, v_) in name_defs(fx, st.value.id))
                if idx_like:
                    obs.append(Ob('R-ARGPOS', fx.fq, 'tokens are told apart by their number: `%s`' % unparse(st)[:60], False,
                                  'the table `%s` is keyed by `%s`: when the same %s occurs below two children of a node, every '
                                  'occurrence is attributed to the child seen last and the linearization no longer follows the blocks'
                                  % (st.targets[0].value.id, unparse(key), key.slice.value), construct='argpos-textkey:' + unparse(st)[:60],
                                  line=st.lineno))
    for fname in ('linsub', 'extract'):
        f = prog.func('grammar', fname)
        cfg = f.cfg
        for n in cfg.eval_nodes():
            if n.kind != 'stmt' or not isinstance(n.ast, ast.Expr) or not isinstance(n.ast.value, ast.Call):
                continue
            c = n.ast.value
            if not (isinstance(c.func, ast.Attribute) and c.func.attr == 'append' and len(c.args) == 1
                    and isinstance(c.args[0], ast.Tuple) and len(c.args[0].elts) == 2):
                continue
            k, v = c.args[0].elts
            ok, why = _emission_verdict(f, n, k, v)
            sites += 1
            obs.append(Ob('R-ARGPOS', f.fq, 'emission `%s` numbers the argument position consecutively'
                          % unparse(n.ast), ok, why, construct='argpos:' + unparse(n.ast), line=n.lineno))
            if fname != 'extract':
                continue
            if not any(isinstance(x_, ast.Subscript) for x_ in ast.walk(v)):
                continue        # a pair collected for another purpose (no position read from a counter): not an emission
            # the merge test: emitted iff the current argument is empty or its last reference is to another child
            from ..values import guard_table
            cur = unparse(c.func.value)
            ks_ = unparse(k)

            def atom_of(fa, cur=cur, ks_=ks_):
                L = 'len(%s)' % cur
                if fa in (('cmp', L, '==', '0'), ('truthy', cur, False), ('cmp', L, '<', '1'), ('cmp', L, '<=', '0')):
                    return ('empty', True)
                if fa in (('cmp', L, '!=', '0'), ('truthy', cur, True), ('cmp', '0', '<', L), ('cmp', '1', '<=', L)):
                    return ('empty', False)
                last = '%s[-1][0]' % cur
                if fa[0] == 'cmp' and fa[2] in ('==', '!=') and set((fa[1], fa[3])) == set((last, ks_)):
                    return ('same', fa[2] == '==')
                return None
            okm = None
            whym = 'the guard of the emission is not a combination of "argument empty" and "last reference is this child"'
            try:
                inner = n.loops[-1] if n.loops else None
                tab, tests = guard_table(f, n.id, ['empty', 'same'], atom_of, within=inner)
                # the same emission written once per case (`if empty: emit  elif last != child: emit`): a reference is
                # emitted when ANY of the sites in this loop emits
                twins = [m_ for m_ in cfg.eval_nodes() if m_.id != n.id and m_.kind == 'stmt' and m_.loops == n.loops
                         and unparse(m_.ast) == unparse(n.ast)]
                if twins:
                    if n.id > min(m_.id for m_ in twins):
                        continue            # judged together with the first of them
                    for m_ in twins:
                        t2_, tests2_ = guard_table(f, m_.id, ['empty', 'same'], atom_of, within=inner)
                        tab = tuple(a_ or b_ for (a_, b_) in zip(tab, t2_))
                        tests = tests or tests2_
                want = tuple((e_ or not s_) for (e_, s_) in [(bool(k_ & 1), bool(k_ & 2)) for k_ in range(4)])
                if not tests:
                    okm, whym = False, 'the emission is not guarded at all: consecutive tokens of one child get one reference each'
                    # ... unless the loop does not run over the tokens one by one (runs of equal keys from groupby, a helper)
                    il_ = cfg.nodes[inner] if inner is not None else None
                    if il_ is not None and il_.kind == 'iter' and any(isinstance(x_, ast.Call) for x_ in ast.walk(il_.ast.iter)):
                        okm, whym = None, 'the loop runs over `%s`, not over the tokens themselves: merging may happen there' % \
                            unparse(il_.ast.iter)[:50]
                elif tab == want:
                    okm, whym = True, 'guard equivalent to `len(%s) == 0 or %s[-1][0] != %s` (all four cases compared)' % (cur, cur, ks_)
                elif inner is not None and any(
                        m_.kind == 'stmt' and isinstance(m_.ast, ast.Expr) and isinstance(m_.ast.value, ast.Call)
                        and unparse(m_.ast.value.func) == cur + '.append' and inner not in m_.loops
                        and tuple(m_.loops) == tuple(cfg.nodes[inner].loops) and cfg.dominates(m_.id, inner)
                        for m_ in cfg.eval_nodes()) and all(tab[i_] == want[i_] for i_ in range(4) if not (i_ & 1)):
                    # the first token of the block is handled in front of the loop: inside it the argument is never empty
                    okm, whym = True, 'the first reference of every block is emitted before the loop; inside it the guard is ' \
                                      '`%s[-1][0] != %s` (the two cases with a non-empty argument compared)' % (cur, ks_)
                else:
                    k_ = [i for i in range(4) if tab[i] != want[i]][0]
                    okm = False
                    whym = 'with the current argument %s and its last reference %s this child, the code %s a reference; the ' \
                           'rule is the opposite' % ('empty' if k_ & 1 else 'non-empty', 'to' if k_ & 2 else 'not to',
                                                     'emits' if tab[k_] else 'does not emit')
            except Unrecognised as ex:
                whym = str(ex)
                # positive evidence: the guard compares the child with a "previous" local that is carried over from one
                # block to the next (set in the token loop, never reset in the block loop)
                blocks = [l for l in n.loops if cfg.nodes[l].kind == 'iter' and isinstance(cfg.nodes[l].ast.iter, ast.Call)
                          and prog.callee(cfg.nodes[l].ast.iter, f) == ('trees', 'terminal_blocks')]
                if blocks and inner is not None and inner != blocks[0]:
                    B = blocks[0]
                    for a_ in cfg.assumes_at(n.id):
                        if inner not in a_.loops:
                            continue
                        fa = norm_test(a_.ast, a_.pol)
                        if fa[0] == 'cmp' and fa[2] in ('==', '!=') and ks_ in (fa[1], fa[3]):
                            other = fa[3] if fa[1] == ks_ else fa[1]
                            if other.isidentifier() and other in f.locals:
                                defs_ = name_defs(f, other)
                                in_tok = [d_ for (d_, v_) in defs_ if inner in cfg.nodes[d_].loops]
                                in_blk = [d_ for (d_, v_) in defs_ if B in cfg.nodes[d_].loops and inner not in cfg.nodes[d_].loops]
                                ids_ = frozenset(d_ for (d_, _) in defs_)
                                crosses = any(B in cfg.reach(d_, avoid=ids_ - {d_}) and n.id in cfg.reach(B, avoid=ids_) for d_ in in_tok)
                                if in_tok and not in_blk and crosses:
                                    okm = False
                                    whym = 'the guard compares the child with `%s`, which is set per token and never reset when a ' \
                                           'new block starts: the first token of a block that belongs to the same child as the ' \
                                           'last token of the previous block gets no reference' % other
            obs.append(Ob('R-EXTRACT/MERGE', f.fq, 'a new reference is emitted iff the current argument is empty or its '
                          'last reference is to another child', okm, whym, construct='extract-merge', line=n.lineno))
    if sites < 3:
        raise Unrecognised('R-ARGPOS found %d emission sites (at least 3 expected)' % sites, partial=obs)
    # one argument per block
    f = prog.func('grammar', 'extract')
    cfg = f.cfg
    okb = False
    for n in cfg.eval_nodes():
        if n.kind == 'iter' and isinstance(n.ast.iter, ast.Call) and prog.callee(n.ast.iter, f) == ('trees', 'terminal_blocks'):
            for m in cfg.eval_nodes():
                if m.kind == 'stmt' and unparse(m.ast).endswith('.append([])') and m.loops and m.loops[-1] == n.id \
                        and cfg.in_every_iteration(n.id, m.id):
                    okb = True
    obs.append(Ob('R-DISCONT/CHAIN', f.fq, 'extract opens exactly one left-hand-side argument per block of the node',
                  True if okb else None, 'unconditional `lin.append([])` per element of trees.terminal_blocks(subtree)' if okb else
                  'construction of the arguments not recognised', construct='chain-blocks', line=f.node.lineno))
    return obs, {}


# ------------------------------------------------------------------------------------ R-INVERSEMAP

def root_of_name(e):
    while isinstance(e, (ast.Subscript, ast.Attribute)):
        e = e.value
    return e.id if isinstance(e, ast.Name) else None


def r_inversemap(prog, tier):
    obs = []
    f = prog.func('grammar', 'reordering_optimal')
    cfg = f.cfg
    stores = []
    for n in cfg.eval_nodes():
        if n.kind == 'stmt' and isinstance(n.ast, ast.Assign) and isinstance(n.ast.targets[0], ast.Subscript) \
                and isinstance(n.ast.targets[0].value, ast.Name) and n.loops:
            stores.append(n)
    pair = None
    for a in stores:
        for b in stores:
            if a is b or a.loops != b.loops:
                continue
            ka, va = unparse(a.ast.targets[0].slice), unparse(a.ast.value)
            kb, vb = unparse(b.ast.targets[0].slice), unparse(b.ast.value)
            if ka == vb and kb == va and a.ast.targets[0].value.id != b.ast.targets[0].value.id:
                pair = (a, b)
    ok = pair is not None
    why = 'no pair of maps A[x] = y, B[y] = x built in one loop'
    use_ok = False
    if ok:
        a, b = pair
        # new position variable = enumerate index of the loop
        loop = cfg.nodes[a.loops[-1]]
        idx = None
        if loop.kind == 'iter' and isinstance(loop.ast.iter, ast.Call) and unparse(loop.ast.iter.func) == 'enumerate' \
                and isinstance(loop.ast.target, ast.Tuple):
            idx = unparse(loop.ast.target.elts[0])
        if idx is None:
            ok = False
            why = 'the maps are not built over enumerate(<order>)'
        else:
            new2old = a if unparse(a.ast.targets[0].slice) == idx else b
            old2new = b if new2old is a else a
            A = new2old.ast.targets[0].value.id
            B = old2new.ast.targets[0].value.id
            why = '`%s` maps new position -> old position and `%s` is its inverse (built in the same loop)' % (A, B)
            # uses: func rebuilt through A, linearization variables renamed through B
            src = ast.unparse(f.node)
            fa = any(isinstance(n, ast.Subscript) and isinstance(n.value, ast.Subscript)
                     and unparse(n.value).startswith(f.params[0] + '[1:]') and unparse(n.slice).startswith(A + '[')
                     for n in walk_own(f.node))
            lb = any(isinstance(n, ast.Tuple) and len(n.elts) == 2 and isinstance(n.elts[0], ast.Subscript)
                     and unparse(n.elts[0].value) == B and unparse(n.elts[0].slice).endswith('[0]')
                     and unparse(n.elts[1]).endswith('[1]') for n in walk_own(f.node))
            use_ok = fa and lb
            if not use_ok:
                why += '; but right-hand sides are taken through `%s`: %s, variables renamed through `%s`: %s' \
                       % (A, fa, B, lb)
    verdict = True if (ok and use_ok) else None
    if verdict is None:
        picks, renames = set(), set()
        for n in walk_own(f.node):
            if isinstance(n, ast.Subscript) and unparse(n.value).startswith(f.params[0]):
                picks |= set(x.id for x in ast.walk(n.slice) if isinstance(x, ast.Name))
                for g_ in ast.walk(f.node):
                    if isinstance(g_, (ast.ListComp, ast.GeneratorExp)) and any(n is x for x in ast.walk(g_.elt)):
                        picks |= set(x.id for gen in g_.generators for x in ast.walk(gen.iter) if isinstance(x, ast.Name))
            if isinstance(n, ast.Tuple) and len(n.elts) == 2 and unparse(n.elts[1]).endswith('[1]'):
                for x in ast.walk(n.elts[0]):
                    if isinstance(x, ast.Subscript) and isinstance(x.value, ast.Name) and unparse(x.slice).endswith('[0]'):
                        renames.add(x.value.id)
        both = (picks & renames) - set(f.params)
        if both:
            verdict, why = False, '`%s` both selects the right-hand sides and renames the variables: the variables need ' \
                                  'the inverse permutation' % sorted(both)[0]
    if verdict is None:
        # positive evidence: two maps built in one loop with the same orientation (A[x] = y and B[x] = y), or the
        # same map used for the right-hand sides and for the variables
        for a_ in stores:
            for b_ in stores:
                if a_ is not b_ and a_.loops == b_.loops and a_.ast.targets[0].value.id != b_.ast.targets[0].value.id \
                        and unparse(a_.ast.targets[0].slice) == unparse(b_.ast.targets[0].slice) \
                        and unparse(a_.ast.value) == unparse(b_.ast.value):
                    verdict, why = False, 'both maps go in the same direction: variables are renamed with the permutation, not its inverse'
        if ok and not use_ok and pair is not None:
            # the maps exist; they are used the wrong way round only if the inverse selects the right-hand sides or the
            # forward map renames the variables
            picks2, renames2 = set(), set()
            base_names = set([f.params[0]]) | set(nm for nm in f.locals for (_, v_) in name_defs(f, nm)
                                                  if isinstance(v_, ast.AST) and unparse(v_).startswith(f.params[0] + '['))
            for n in walk_own(f.node):
                if isinstance(n, ast.Subscript) and root_of_name(n.value) in base_names:
                    picks2 |= set(x.id for x in ast.walk(n.slice) if isinstance(x, ast.Name))
                if isinstance(n, ast.Tuple) and len(n.elts) == 2 and unparse(n.elts[1]).endswith('[1]'):
                    for x in ast.walk(n.elts[0]):
                        if isinstance(x, ast.Subscript) and isinstance(x.value, ast.Name) and unparse(x.slice).endswith('[0]'):
                            renames2.add(x.value.id)
            if A in picks2 and B in renames2:
                verdict, why = True, '`%s` maps new position -> old position and selects the right-hand sides, its inverse `%s` ' \
                                     'renames the variables' % (A, B)
            elif B in picks2 or A in renames2:
                verdict = False
            else:
                verdict = None
    obs.append(Ob('R-INVERSEMAP', f.fq, 'right-hand sides are permuted with a map and the linearization variables '
                  'renamed with its inverse', verdict, why, construct='inversemap', line=f.node.lineno))
    return obs, {}


# ------------------------------------------------------------------------------------ R-MUSTUSE / R-ENC

def _dispatch_module(call):
    """'treeinput' for getattr(treeinput, X)(...) calls, else None."""
    f = call.func
    if isinstance(f, ast.Call) and isinstance(f.func, ast.Name) and f.func.id == 'getattr' and len(f.args) == 2 \
            and isinstance(f.args[0], ast.Name):
        return f.args[0].id
    return None


def r_mustuse(prog, tier):
    obs = []
    readers = set(('treeinput', n) for n in prog.registry('treeinput', 'INPUT_FORMATS')) | \
        set(('grammarinput', n) for n in prog.registry('grammarinput', 'FORMATS'))
    n_calls = 0
    for f in prog.all_funcs():
        parents = None
        for n in walk_own(f.node):
            if not isinstance(n, ast.Call):
                continue
            c = prog.callee(n, f)
            dm = _dispatch_module(n)
            is_reader = (c in readers) or (dm in ('treeinput', 'grammarinput')
                                           and dm in f.module.aliases and f.module.aliases[dm] == dm)
            if not is_reader:
                continue
            n_calls += 1
            if parents is None:
                parents = {}
                for x in ast.walk(f.node):
                    for ch in ast.iter_child_nodes(x):
                        parents[ch] = x
            p = parents.get(n)
            used = not isinstance(p, ast.Expr)
            lost = None
            if used and ((c is not None and c[0] == 'grammarinput') or dm == 'grammarinput'):
                # a grammar reader hands back the pair (grammar, lexicon): both halves are what was read
                if isinstance(p, ast.Subscript) and p.value is n and isinstance(p.slice, ast.Constant):
                    lost = 'only component %r of the pair (grammar, lexicon) is kept' % (p.slice.value,)
                elif isinstance(p, ast.Assign) and p.value is n and len(p.targets) == 1 and isinstance(p.targets[0], ast.Tuple):
                    for el in p.targets[0].elts:
                        if isinstance(el, ast.Name) and not any(isinstance(y, ast.Name) and y.id == el.id and isinstance(y.ctx, ast.Load)
                                                                for y in ast.walk(f.node)):
                            lost = 'the component bound to `%s` is never read' % el.id
            if lost:
                obs.append(Ob('R-MUSTUSE', f.fq, 'both halves of what grammar reader `%s(...)` returns are used' % unparse(n.func)[:60],
                              False, lost + ': the word / tag counts (or the rules) that were read never reach the output',
                              construct='mustuse-pair:' + unparse(n.func), line=n.lineno))
            obs.append(Ob('R-MUSTUSE', f.fq, 'the result of reader call `%s(...)` is used' % unparse(n.func)[:60], used,
                          'iterated / bound' if used else 'called as a statement: what was read is thrown away',
                          construct='mustuse:' + unparse(n.func), line=n.lineno))
    return obs, {'reader_call_sites': n_calls}


ENC_EXEMPT = {
    'transform.substitute_terminals': 'terminal file: the interface has no encoding parameter',
    'transform.insert_terminals': 'terminal file: the interface has no encoding parameter',
}


def _open_calls(prog, f):
    out = []
    for n in walk_own(f.node):
        if isinstance(n, ast.Call):
            fn = unparse(n.func)
            if fn in ('io.open', 'open') and not (fn == 'open' and 'open' in f.locals):
                out.append(n)
    return out


def _mode_of(call):
    m = None
    if len(call.args) >= 2:
        m = const_str(call.args[1])
    for k in call.keywords:
        if k.arg == 'mode':
            m = const_str(k.value)
    return m if m is not None else 'r'


def r_enc(prog, tier):
    obs = []
    nopen = 0
    for f in prog.all_funcs():
        opens = _open_calls(prog, f)
        if not opens:
            continue
        encp = [p for p in f.params if 'enc' in p.lower()]
        for c in opens:
            nopen += 1
            mode = _mode_of(c)
            enc = None
            for k in c.keywords:
                if k.arg == 'encoding':
                    enc = unparse(k.value)
            if len(c.args) >= 4:
                enc = unparse(c.args[3])
            if 'b' in mode:
                obs.append(Ob('R-ENC', f.fq, 'binary open `%s`' % unparse(c)[:60], True, 'bytes: no encoding involved',
                              construct='open:' + unparse(c), line=c.lineno, nontrivial=False))
                continue
            for k in c.keywords:
                if k.arg == 'errors' and isinstance(k.value, ast.Constant) and k.value.value not in ('strict', None):
                    obs.append(Ob('R-ENC', f.fq, 'what cannot be represented in the requested encoding is an error, not a silent '
                                  'replacement: `%s`' % unparse(c)[:60], False,
                                  'errors=%r: a character the encoding lacks is %s instead of raising - the file no longer holds '
                                  'the tokens that were to be written' % (k.value.value, 'written as `?`' if k.value.value == 'replace'
                                                                           else 'dropped or rewritten'),
                                  construct='open-errors:' + unparse(c)[:60], line=c.lineno))
            if encp:
                ok = enc in encp
                why = 'encoding=%s' % enc if ok else 'the encoding parameter `%s` of the function does not reach ' \
                      'this open (encoding=%s)' % (encp[0], enc)
            elif f.name == 'run' and f.params == ['args']:
                want = 'args.dest_enc' if ('w' in mode or 'a' in mode) else 'args.src_enc'
                ok = enc == want
                why = 'encoding=%s' % enc if ok else 'opened with encoding=%s, the command line asks for %s' % (enc, want)
            elif f.fq in ENC_EXEMPT:
                ok = True
                why = 'ENC table: ' + ENC_EXEMPT[f.fq]
            elif enc is not None and any(enc in ('%s.dest_enc' % p_, '%s.src_enc' % p_) for p_ in f.params):
                # a worker of a driver: it is handed the parsed command line and takes the encoding from there
                want = 'dest_enc' if ('w' in mode or 'a' in mode) else 'src_enc'
                ok = enc.endswith('.' + want)
                why = 'encoding=%s' % enc if ok else 'opened with encoding=%s, the command line asks for %s' % (enc, want)
            elif enc is not None:
                ok = None
                why = 'encoding=%s: where it comes from is not followed' % enc
            else:
                ok = False
                why = 'text-mode open in a function without encoding parameter and not in the exemption table'
            obs.append(Ob('R-ENC', f.fq, 'text open `%s` uses the encoding the caller asked for' % unparse(c)[:70],
                          ok, why, construct='open:' + unparse(c), line=c.lineno))
    # gunzip copies bytes
    g = prog.func('misc', 'gunzip')
    okb = True
    whyb = []
    seen_gz = seen_tmp = False
    for n in walk_own(g.node):
        if isinstance(n, ast.Call):
            fn = unparse(n.func)
            if fn == 'gzip.open':
                seen_gz = True
                m = _mode_of(n)
                if 't' in m or 'w' in m:
                    okb = False
                    whyb.append('gzip.open mode %r is not binary reading' % m)
                if any(k.arg in ('encoding', 'errors', 'newline') for k in n.keywords):
                    okb = False
                    whyb.append('gzip.open decodes text')
            if fn.endswith('NamedTemporaryFile') or fn.endswith('mkstemp'):
                seen_tmp = True
                m = None
                for k in n.keywords:
                    if k.arg == 'mode':
                        m = const_str(k.value)
                if fn.endswith('NamedTemporaryFile') and (m is None or 'b' not in m) and m is not None:
                    okb = False
                    whyb.append('temporary file opened in text mode %r' % m)
                if any(k.arg == 'encoding' for k in n.keywords):
                    okb = False
                    whyb.append('temporary file re-encodes')
            if isinstance(n.func, ast.Attribute) and n.func.attr in ('decode', 'encode'):
                okb = False
                whyb.append('`%s` transcodes the data' % unparse(n)[:50])
    if not (seen_gz and seen_tmp):
        okb = False
        whyb.append('gzip.open / temporary file not found')
    # a file is taken for compressed by the END of its name: `'.gz' in name` also matches corpus.export.gz.dest - the
    # name directory mode gives to what it wrote for a compressed member
    for t_ in g.cfg.nodes:
        if t_.kind == 'test' and isinstance(t_.ast, ast.Compare) and len(t_.ast.ops) == 1 and isinstance(t_.ast.ops[0], (ast.In, ast.NotIn)) \
                and isinstance(t_.ast.left, ast.Constant) and isinstance(t_.ast.left.value, str) and 'gz' in t_.ast.left.value.lower() \
                and any(isinstance(y_, ast.Name) and y_.id == g.params[0] for y_ in ast.walk(t_.ast.comparators[0])):
            obs.append(Ob('R-ENC/GUNZIP', g.fq, 'a file counts as compressed when its name ENDS in .gz', False,
                          '`%s` is a substring test: an uncompressed file whose name merely contains %r (corpus.export.gz.dest, the '
                          'name directory mode gives to its own output) is opened as gzip and the conversion fails'
                          % (unparse(t_.ast), t_.ast.left.value), construct='gunzip-suffix', line=t_.lineno))
    obs.append(Ob('R-ENC/GUNZIP', g.fq, 'gunzip copies the decompressed bytes unchanged (the reader decodes them with '
                  'the requested encoding)', okb, 'binary gzip.open, binary temporary file, no transcoding' if okb else
                  '; '.join(whyb), construct='gunzip-bytes', line=g.node.lineno))
    # every tree reader accepts .gz
    for nm in prog.registry('treeinput', 'INPUT_FORMATS'):
        f = prog.func('treeinput', nm)
        ok, why = _gunzips(prog, f, set())
        obs.append(Ob('R-ENC/GUNZIP', f.fq, 'reader passes its file name through misc.gunzip before opening it', ok, why,
                      construct='gunzip:' + nm, line=f.node.lineno))
    # drivers: encodings go to the right side
    for mod in ('transform', 'grammar', 'transitions', 'treeanalysis'):
        f = prog.func(mod, 'run')
        for n in walk_own(f.node):
            if not isinstance(n, ast.Call):
                continue
            dm = _dispatch_module(n)
            if dm is None or dm not in f.module.aliases:
                continue
            target = f.module.aliases[dm]
            regname = {'treeinput': 'INPUT_FORMATS', 'grammarinput': 'FORMATS', 'grammaroutput': 'FORMATS',
                       'transitionoutput': 'FORMATS'}.get(target)
            if regname is None:
                continue
            idxs = set()
            for member in prog.registry(target, regname):
                mf = prog.func(target, member)
                e = [i for i, p in enumerate(mf.params) if 'enc' in p.lower()]
                idxs.add(e[0] if e else None)
            if len(idxs) > 1:
                idxs.discard(None)      # a member may ignore the encoding (TIGER-XML declares its own)
            if len(idxs) != 1 or None in idxs:
                obs.append(Ob('R-ENC/ARGS', f.fq, 'members of %s.%s take the encoding at one position' % (target, regname),
                              idxs == {None} and False, 'positions %s' % idxs, construct='encpos:' + target))
                continue
            i = idxs.pop()
            want = 'args.src_enc' if target in ('treeinput', 'grammarinput') else 'args.dest_enc'
            got = unparse(n.args[i]) if len(n.args) > i else None
            obs.append(Ob('R-ENC/ARGS', f.fq, 'dispatch `getattr(%s, ...)` receives %s as encoding' % (dm, want),
                          got == want, 'argument %d is %s' % (i, got), construct='encarg:%s:%d' % (dm, n.lineno - f.node.lineno),
                          line=n.lineno))
    return obs, {'open_sites': nopen}


def _gunzips(prog, f, seen):
    if f.fq in seen:
        return False, 'recursion'
    seen.add(f.fq)
    fp = f.params[0]
    cfg = f.cfg
    gz = None
    for n in cfg.eval_nodes():
        if n.kind == 'stmt' and isinstance(n.ast, ast.Assign) and unparse(n.ast.targets[0]) == fp \
                and isinstance(n.ast.value, ast.Call) and prog.callee(n.ast.value, f) == ('misc', 'gunzip') \
                and unparse(n.ast.value.args[0]) == fp:
            gz = n
    opens = _open_calls(prog, f)
    if gz is not None:
        for c in opens:
            if c.args and unparse(c.args[0]) == fp and not cfg.dominates(gz.id, cfg.node_of(c)):
                return False, 'an open of `%s` is not dominated by the gunzip call' % fp
        if cfg.always_with(cfg.entry, gz.id):
            return True, '`%s` dominates every open' % unparse(gz.ast)
    # delegation
    for n in walk_own(f.node):
        if isinstance(n, ast.Call):
            c = prog.callee(n, f)
            if c and c[0] == 'treeinput' and n.args and unparse(n.args[0]) == fp:
                g = prog.func(c[0], c[1])
                ok, why = _gunzips(prog, g, seen)
                if ok and not [o for o in opens if o.args and unparse(o.args[0]) == fp]:
                    return True, 'delegates to %s: %s' % (g.fq, why)
    return False, 'the file name is opened without `%s = misc.gunzip(%s)`: a .gz source is parsed as it is' % (fp, fp)


# ------------------------------------------------------------------------------------ R-IDCOUNTER / R-SORTEDPOS

def r_idcounter(prog, tier):
    obs = []
    f = prog.func('grammaroutput', 'pmcfg')
    cfg = f.cfg
    counters = {}
    for n in cfg.eval_nodes():
        if n.kind == 'stmt' and isinstance(n.ast, ast.AugAssign) and isinstance(n.ast.target, ast.Name) \
                and unparse(n.ast).endswith('+= 1') and n.loops:
            counters.setdefault(n.ast.target.id, []).append(n)
    idc = set()
    for c in counters:
        inits = [v for (n2, v) in name_defs(f, c) if isinstance(v, ast.Constant) and isinstance(v.value, int)
                 and not cfg.nodes[n2].loops]
        if inits:
            idc.add(c)
    for c, incs in sorted(counters.items()):
        if c not in idc:
            continue
        for inc in incs:
            L0 = inc.loops[0]
            uses = []
            for m in cfg.eval_nodes():
                if m.id == inc.id or L0 not in m.loops:
                    continue
                for root in cfg.exprs(m.id):
                    if c in [x.id for x in ast.walk(root) if isinstance(x, ast.Name) and isinstance(x.ctx, ast.Load)]:
                        uses.append(m)
            uses = [u for u in uses if u.kind == 'stmt']
            bad = [u for u in uses if u.loops != inc.loops or not cfg.dominates(u.id, inc.id)]
            okc = bool(uses) and not bad and all(cfg.always_with(u.id, inc.id) for u in uses)
            obs.append(Ob('R-IDCOUNTER', f.fq, 'identifier counter `%s` advances once per item it labels' % c, okc,
                          '`%s += 1` is in the same loop body as its %d uses and follows them' % (c, len(uses)) if okc else
                          '`%s += 1` (line %d) is not executed once per labelled item: uses at lines %s are in another '
                          'loop level' % (c, inc.lineno, sorted(set(u.lineno for u in bad))),
                          construct='idcounter:' + c, line=inc.lineno))
    if len(idc) < 2:
        raise Unrecognised('pmcfg writer: %d id counters found (2 expected)' % len(idc), partial=obs)
    return obs, {}


def r_sortedpos(prog, tier):
    obs = []
    f = prog.func('grammaroutput', 'rcg')
    posd = set()
    for n in walk_own(f.node):
        if isinstance(n, ast.Assign) and isinstance(n.targets[0], ast.Name) and isinstance(n.value, ast.Call) \
                and unparse(n.value) == 'defaultdict(dict)':
            posd.add(n.targets[0].id)
    if not posd:
        raise Unrecognised('rcg writer: no position dictionary (defaultdict(dict)) found', partial=obs)
    inner = set()
    for n in walk_own(f.node):
        if isinstance(n, ast.For):
            it = n.iter
            src = it.args[0] if isinstance(it, ast.Call) and unparse(it.func) == 'enumerate' and it.args else it
            if isinstance(src, ast.Name) and src.id in posd:
                t = n.target
                if isinstance(t, ast.Tuple) and len(t.elts) == 2 and isinstance(t.elts[1], ast.Name):
                    inner.add(t.elts[1].id)
    cnt = 0
    iters = []
    for n in walk_own(f.node):
        if isinstance(n, ast.comprehension):
            iters.append(n.iter)
        elif isinstance(n, ast.For):
            iters.append(n.iter)
        elif isinstance(n, ast.Call) and isinstance(n.func, ast.Name) and n.func.id in ('list', 'tuple') and n.args:
            iters.append(n.args[0])
        elif isinstance(n, ast.Call) and isinstance(n.func, ast.Attribute) and n.func.attr == 'join' and n.args \
                and not isinstance(n.args[0], (ast.ListComp, ast.GeneratorExp)):
            iters.append(n.args[0])

    def base(e):
        """(name, wrapped in sorted()) of an iterated expression over a dictionary"""
        if isinstance(e, ast.Call) and isinstance(e.func, ast.Name) and e.func.id == 'sorted' and e.args:
            nm, _ = base(e.args[0])
            return nm, not any(k.arg == 'reverse' for k in e.keywords) and not (
                isinstance(e.args[0], ast.Call) and isinstance(e.args[0].func, ast.Attribute)
                and e.args[0].func.attr == 'values')
        if isinstance(e, ast.Call) and isinstance(e.func, ast.Attribute) and e.func.attr in ('keys', 'items', 'values') \
                and isinstance(e.func.value, ast.Name):
            return e.func.value.id, False
        if isinstance(e, ast.Name):
            return e.id, False
        return None, False
    # a position dictionary that is later re-bound to the sorted list of its values is a list from there on
    rebound_at = {}
    for n in walk_own(f.node):
        if isinstance(n, ast.Assign) and isinstance(n.targets[0], ast.Name) and n.targets[0].id in posd \
                and unparse(n.value) != 'defaultdict(dict)':
            rebound_at[n.targets[0].id] = min(rebound_at.get(n.targets[0].id, 10 ** 9), n.end_lineno or n.lineno)
    for it in iters:
        nm, wrapped = base(it)
        if nm is None or nm not in (posd | inner):
            continue
        if nm in rebound_at and it.lineno > rebound_at[nm]:
            continue
        cnt += 1
        obs.append(Ob('R-SORTEDPOS', f.fq, 'positions collected in dictionary `%s` are written in ascending order'
                      % nm, wrapped, 'iterated through sorted()' if wrapped else
                      'iterated in insertion order (`%s`): arguments come out in the order the linearization mentions '
                      'them, not by position' % unparse(it)[:40], construct='sortedpos:%s:%s' % (nm, unparse(it)),
                      line=it.lineno))
    if cnt < 2:
        raise Unrecognised('rcg writer: %d iterations over position dictionaries found (2 expected)' % cnt, partial=obs)
    # variables are numbered from 0 in every clause: the counter starts afresh wherever the per-clause tables do
    cfg = f.cfg
    tabs = [m for m in cfg.eval_nodes() if m.kind == 'stmt' and isinstance(m.ast, ast.Assign) and isinstance(m.ast.targets[0], ast.Name)
            and m.ast.targets[0].id in posd]
    if tabs and tabs[0].loops:
        clause_loops = set(tabs[0].loops)
        for nm in sorted(f.locals):
            dv = name_defs(f, nm)
            inits = [(nid, v) for (nid, v) in dv if isinstance(v, ast.Constant) and v.value == 0]
            augs = [(nid, v) for (nid, v) in dv if isinstance(v, tuple) and v[0] == 'aug']
            if not inits or not augs or len(inits) + len(augs) != len(dv):
                continue
            if not all(clause_loops <= set(cfg.nodes[nid].loops) for (nid, _) in augs):
                continue        # not a per-clause counter
            fresh = all(clause_loops <= set(cfg.nodes[nid].loops) for (nid, _) in inits)
            obs.append(Ob('R-SORTEDPOS', f.fq, 'the counter `%s` used while a clause is written starts at 0 for every clause' % nm,
                          True if fresh else False,
                          'initialised where the per-clause tables are' if fresh else
                          '`%s = 0` (line %d) is outside the loop over the linearizations: the second linearization of a rule is '
                          'written with variables numbered on from the first (`[2][3]` for `[0][1]`)' % (nm, cfg.nodes[inits[0][0]].lineno),
                          construct='clausectr:' + nm, line=cfg.nodes[inits[0][0]].lineno))
        # the same for buffers / tables that are filled while a clause is put together
        for nm in sorted(f.locals):
            dv = name_defs(f, nm)
            fresh_defs = [(nid, v) for (nid, v) in dv if isinstance(v, ast.Call) and unparse(v.func).split('.')[-1] in (
                'StringIO', 'defaultdict', 'dict', 'list') or isinstance(v, (ast.List, ast.Dict))]
            if not fresh_defs or len(fresh_defs) != len([d_ for d_ in dv if isinstance(d_[1], ast.AST) and not (
                    isinstance(d_[1], ast.ListComp))]) or nm in posd:
                continue
            writes = [m for m in cfg.eval_nodes() if m.kind == 'stmt' and clause_loops <= set(m.loops) and any(
                isinstance(x, ast.Call) and isinstance(x.func, ast.Attribute) and isinstance(x.func.value, ast.Name)
                and x.func.value.id == nm and x.func.attr in ('write', 'append') for x in walk_own(m.ast))]
            if not writes:
                continue
            fresh = all(clause_loops <= set(cfg.nodes[nid].loops) for (nid, _) in fresh_defs)
            obs.append(Ob('R-SORTEDPOS', f.fq, 'the buffer `%s` filled while a clause is written is a new one for every clause' % nm,
                          True if fresh else False,
                          'created where the per-clause tables are' if fresh else
                          '`%s = %s` (line %d) is outside the loop over the linearizations: the second linearization of a rule is written '
                          'with the text of the first still in the buffer' % (nm, unparse(fresh_defs[0][1])[:20], cfg.nodes[fresh_defs[0][0]].lineno),
                          construct='clausebuf:' + nm, line=cfg.nodes[fresh_defs[0][0]].lineno))
    return obs, {}


# ------------------------------------------------------------------------------------ R-DISCONT

def _num_atom(f, text):
    """Does the atom denote a token number: reads .data['num'], or is a local defined from such a read?"""
    if "data['num']" in text:
        return True
    if text.isidentifier() and text in f.locals:
        for (_, v) in name_defs(f, text):
            if isinstance(v, ast.AST) and "data['num']" in unparse(v):
                return True
            if isinstance(v, tuple) and v[0] == 'aug' and "data['num']" in unparse(v[1]):
                return True
    return False


def _gap_predicates(f):
    """[(Compare node, x, y, c)] for comparisons between two token numbers, normalised to  x - y <= c."""
    from ..linear import norm_compare, difference_bound
    out = []
    for n in walk_own(f.node):
        if isinstance(n, ast.Compare) and len(n.ops) == 1 and isinstance(n.ops[0], (ast.Lt, ast.Gt, ast.LtE, ast.GtE)):
            db = difference_bound(norm_compare(f, n))
            if db is None:
                continue
            x, y, c = db
            if _num_atom(f, x) and _num_atom(f, y):
                out.append((n, x, y, c))
    return out


class _OneOnly(Exception):
    pass


def r_discont(prog, tier):
    obs = []
    sites = [('treeanalysis', 'gap_degree_node'), ('trees', 'terminal_blocks'), ('treeanalysis', 'gap_type'),
             ('transform', 'boyd_split')]
    for (m, q) in sites:
        f = prog.func(m, q)
        preds = _gap_predicates(f)
        if not preds:
            obs.append(Ob('R-DISCONT', f.fq, 'the function contains the gap test between consecutive tokens', None,
                          'no comparison between two token numbers found (the test may be written differently)',
                          construct='gap-none'))
            continue
        # the gap counter is incremented, not set, under the gap test
        if q == 'gap_degree_node':
            cfg_ = f.cfg
            for (p, x, y, c) in preds:
                for m_ in cfg_.eval_nodes():
                    if m_.kind == 'stmt' and m_.loops and any(a_.ast is p for a_ in cfg_.assumes_at(m_.id)):
                        if isinstance(m_.ast, ast.Assign) and isinstance(m_.ast.targets[0], ast.Name) \
                                and isinstance(m_.ast.value, ast.Constant) and isinstance(m_.ast.value.value, int):
                            obs.append(Ob('R-DISCONT', f.fq, 'every gap adds one to the gap degree', False,
                                          '`%s` under the gap test sets the degree instead of incrementing it: it saturates at %r'
                                          % (unparse(m_.ast), m_.ast.value.value), construct='gap-count:' + unparse(m_.ast), line=m_.lineno))
                        elif isinstance(m_.ast, ast.AugAssign) and isinstance(m_.ast.op, ast.Add) and unparse(m_.ast.value) == '1':
                            obs.append(Ob('R-DISCONT', f.fq, 'every gap adds one to the gap degree', True, unparse(m_.ast),
                                          construct='gap-count', line=m_.lineno, nontrivial=False))
                        elif isinstance(m_.ast, (ast.Break, ast.Return)) and m_.loops:
                            # the counting loop is left under the gap test: the first gap is the last one counted
                            obs.append(Ob('R-DISCONT', f.fq, 'every gap of the node is counted', False,
                                          '`%s` under the gap test leaves the loop over the tokens at the first gap: a node with '
                                          'two or more gaps gets gap degree 1' % unparse(m_.ast)[:30],
                                          construct='gap-count-leave', line=m_.lineno))
        for (p, x, y, c) in preds:
            # x - y <= c.   gap test: earlier - later <= -2 (later - earlier >= 2); its negation: later - earlier <= 1
            if c in (-2, 1):
                ok, why = True, 'normal form  %s - %s <= %d : a gap is a difference of at least 2 between consecutive tokens' % (x, y, c)
            elif c in (-3, -1, 0, 2):
                ok = False
                why = 'normal form  %s - %s <= %d  is off by one against the shared predicate (difference >= 2): ' % (x, y, c) + (
                    'a gap of exactly one token is not seen' if c in (-3, 2) else 'adjacent tokens already count as a gap')
            else:
                ok, why = None, 'normal form  %s - %s <= %d  is not a gap test this rule knows' % (x, y, c)
            obs.append(Ob('R-DISCONT', f.fq, 'gap test `%s` is the shared predicate  a + 1 < b' % unparse(p), ok, why,
                          construct='gap:' + unparse(p), line=p.lineno))
    # chain facts
    f = prog.func('treeanalysis', 'gap_degree')
    rets = [n for n in walk_own(f.node) if isinstance(n, ast.Return)]
    ok = None
    why = 'gap_degree has a shape this rule does not recognise'
    if len(rets) == 1 and isinstance(rets[0].value, ast.Call) and unparse(rets[0].value.func) == 'max' \
            and len(rets[0].value.args) == 1 and isinstance(rets[0].value.args[0], (ast.ListComp, ast.GeneratorExp)):
        g = rets[0].value.args[0]
        if g.generators[0].ifs:
            ok, why = False, 'some nodes are filtered out of the maximum'
        elif unparse(g.generators[0].iter) == 'trees.preorder(%s)' % f.params[0] \
                and unparse(g.elt) == 'gap_degree_node(%s)' % unparse(g.generators[0].target):
            ok, why = True, 'max over trees.preorder(tree), no filter'
    if ok is None:
        # loop form: result = max(result, v) / if v > result: result = v  - anything else lets the last (or any) node win
        cfg_ = f.cfg
        rv = rets[0].value.id if len(rets) == 1 and isinstance(rets[0].value, ast.Name) else None
        if rv:
            upd = [(nid, v) for (nid, v) in name_defs(f, rv) if cfg_.nodes[nid].loops and isinstance(v, ast.AST)]
            good = bad = 0
            for (nid, v) in upd:
                if isinstance(v, ast.Call) and unparse(v.func) == 'max' and rv in [unparse(a_) for a_ in v.args]:
                    good += 1
                    continue
                facts = [x[0] for x in facts_at(cfg_, nid)]
                vs = unparse(v)
                if ('cmp', rv, '<', vs) in facts or ('cmp', rv, '<=', vs) in facts:
                    good += 1
                    continue
                # `if result is None or v > result: result = v`: every way into the branch is "nothing yet" or "larger"
                st_ = cfg_.nodes[nid].ast
                own_ = [i_ for i_ in walk_own(f.node) if isinstance(i_, ast.If) and st_ in i_.body]
                if own_:
                    t_ = own_[0].test
                    dis_ = t_.values if isinstance(t_, ast.BoolOp) and isinstance(t_.op, ast.Or) else [t_]
                    if len(dis_) > 1 and all(unparse(d_) in ('%s is None' % rv, '%s == None' % rv) or
                                             norm_test(d_, True) in (('cmp', rv, '<', vs), ('cmp', rv, '<=', vs)) for d_ in dis_) \
                            and any(norm_test(d_, True) in (('cmp', rv, '<', vs), ('cmp', rv, '<=', vs)) for d_ in dis_):
                        good += 1
                        continue
                if 'gap_degree_node' in vs or any(isinstance(d_, ast.AST) and 'gap_degree_node' in unparse(d_)
                                                    for x_ in ast.walk(v) if isinstance(x_, ast.Name)
                                                    for (_, d_) in name_defs(f, x_.id)):
                    bad += 1
                    badv = vs
            if bad:
                ok, why = False, '`%s = %s` inside the loop is not guarded by a comparison with the running maximum: the ' \
                                 'degree of the last such node wins, not the largest' % (rv, badv)
            elif good:
                ok, why = True, 'running maximum over the nodes'
    # shortcuts `return 0` for short sentences: three tokens are enough for a gap (a constituent over tokens 1 and 3)
    cfg_ = f.cfg
    for r_ in [m for m in cfg_.eval_nodes() if m.kind == 'stmt' and isinstance(m.ast, ast.Return)
               and isinstance(m.ast.value, ast.Constant) and m.ast.value.value == 0]:
        for fa in [x[0] for x in facts_at(cfg_, r_.id)]:
            if fa[0] == 'cmp' and 'terminals(' in fa[1] and fa[1].startswith('len(') and fa[3].isdigit() and fa[2] in ('<', '<=', '=='):
                most = int(fa[3]) - 1 if fa[2] == '<' else int(fa[3])       # the largest token count that takes the shortcut
                if most >= 3:
                    ok = False
                    why = '`return 0` for sentences of up to %d tokens (`%s %s %s`): a constituent over the first and the third ' \
                          'of three tokens has a gap, so three tokens are enough for gap degree 1' % (most, fa[1], fa[2], fa[3])
    obs.append(Ob('R-DISCONT/CHAIN', f.fq, 'gap_degree is the maximum of gap_degree_node over all nodes', ok, why,
                  construct='chain-max', line=f.node.lineno))
    f = prog.func('treeanalysis', 'has_gaps')
    rets = [n for n in walk_own(f.node) if isinstance(n, ast.Return)]
    ok = None
    if len(rets) == 1 and rets[0].value is not None:
        nt = norm_test(rets[0].value, True)
        if nt == ('cmp', '0', '<', 'gap_degree_node(%s)' % f.params[0]):
            ok = True
        elif nt[0] == 'cmp' and 'gap_degree_node' in (nt[1] + nt[3]) and nt[2] in ('<', '<=') and nt[1] not in ('0',):
            ok = False
    obs.append(Ob('R-DISCONT/CHAIN', f.fq, 'has_gaps is gap_degree_node > 0', ok, unparse(rets[0]) if rets else '?',
                  construct='chain-hasgaps', line=f.node.lineno, nontrivial=False))
    f = prog.func('grammar', 'extract')
    # follow helper extraction: the vertical context may be built in a helper of the same module
    scope = [f] + [g for g in prog.modules['grammar'].funcs.values() if g.name.startswith('_')]
    okv = None
    for g in scope:
        dom = any(isinstance(n, (ast.comprehension, ast.For)) and isinstance(n.iter, ast.Call)
                  and prog.callee(n.iter, g) == ('trees', 'dominance') for n in walk_own(g.node))
        if not dom:
            continue
        parents = {}
        for n in ast.walk(g.node):
            for c in ast.iter_child_nodes(n):
                parents[c] = n
        for n in walk_own(g.node):
            if isinstance(n, ast.Call) and prog.callee(n, g) == ('treeanalysis', 'gap_degree_node'):
                p_ = parents.get(n)
                if isinstance(p_, ast.BinOp) and isinstance(p_.op, ast.Add):
                    other = p_.right if p_.left is n else p_.left
                    okv = (unparse(other) == '1') if isinstance(other, ast.Constant) else None
                elif isinstance(p_, ast.BinOp):
                    okv = False
                elif isinstance(p_, (ast.Tuple, ast.BinOp, ast.FormattedValue)):
                    okv = False       # the gap degree itself is written as fan-out
    obs.append(Ob('R-DISCONT/CHAIN', f.fq, 'the vertical context lists the ancestors with fan-out = gap degree + 1', okv,
                  'gap_degree_node(dom) + 1 for dom in trees.dominance(subtree)' if okv else
                  ('the fan-out in the vertical context is not gap degree + 1' if okv is False else 'not recognised'),
                  construct='chain-vert', line=f.node.lineno))
    f = prog.func('grammaranalysis', 'fan_out')
    ok = None
    for n in walk_own(f.node):
        if isinstance(n, ast.Assign) and unparse(n.targets[0]).endswith('[0]'):
            ok = True if unparse(n.value) == 'len(%s)' % f.params[0] else (
                False if (isinstance(n.value, ast.Constant) or (isinstance(n.value, ast.Call) and unparse(n.value.func) == 'len'
                                                              and unparse(n.value.args[0]) != f.params[0])) else None)
    obs.append(Ob('R-DISCONT/CHAIN', f.fq, 'the fan-out of the left-hand side is the number of its arguments', ok,
                  'result[0] = len(lin)' if ok else 'position 0 of the fan-out vector is not len(lin)',
                  construct='chain-fanout', line=f.node.lineno))
    f = prog.func('grammaranalysis', 'is_contextfree')
    cfg = f.cfg
    G = f.params[0]
    ok = None
    why = 'is_contextfree has a shape this rule does not recognise'
    rets = [n for n in walk_own(f.node) if isinstance(n, ast.Return)]

    def _quantified(e, neg=False):
        """('any'|'all', polarity of the fan-out test inside, filtered?) for [not] any/all(<fan-out test> for ...)"""
        if isinstance(e, ast.UnaryOp) and isinstance(e.op, ast.Not):
            r = _quantified(e.operand, not neg)
            return r
        if isinstance(e, ast.Call) and isinstance(e.func, ast.Name) and e.func.id in ('any', 'all') and len(e.args) == 1 \
                and isinstance(e.args[0], (ast.GeneratorExp, ast.ListComp)):
            g = e.args[0]
            lastv = unparse(g.generators[-1].target)
            nt = norm_test(g.elt, True)
            ntn = norm_test(g.elt, False)
            P = ('cmp', '1', '<', 'fan_out(%s)[0]' % lastv)
            P2 = ('cmp', '2', '<=', 'fan_out(%s)[0]' % lastv)
            pol = True if nt in (P, P2) else (False if ntn in (P, P2) else None)
            if pol is None:
                return None
            srcs_ok = unparse(g.generators[0].iter) in (G, G + '.keys()', G + '.values()', G + '.items()')
            return (e.func.id, pol, any(gen.ifs for gen in g.generators), neg, srcs_ok, len(g.generators))
        return None
    q = _quantified(rets[0].value) if len(rets) == 1 and rets[0].value is not None else None
    if q is not None:
        kind, pol, filtered, neg, srcs_ok, ngen = q
        # value of the whole expression as a function of "some linearization has fan-out > 1"
        # any(P) = exists P; all(not P) = not exists P; any(not P) / all(P) are other functions
        if filtered:
            ok, why = False, 'some rules or linearizations are filtered out before the fan-out test'
        elif not srcs_ok or ngen != 2:
            ok, why = None, 'the generator does not run over every rule and linearization in a form this rule models'
        else:
            if kind == 'any' and pol:
                val = 'exists'
            elif kind == 'all' and not pol:
                val = 'notexists'
            else:
                val = 'other'
            if neg:
                val = {'exists': 'notexists', 'notexists': 'exists', 'other': 'other'}[val]
            if val == 'notexists':
                ok, why = True, '%s%s(...) over every rule and linearization: true iff no fan-out exceeds 1' % ('not ' if neg else '', kind)
            else:
                ok, why = False, '`%s` is not "no linearization has fan-out > 1" (e.g. one continuous rule next to a ' \
                                 'discontinuous one gives the wrong answer)' % unparse(rets[0].value)[:70]
    else:
        def _cf_by_loops(f):
            cfg = f.cfg
            ok, why = None, ''
            from ..quant import SearchLoop
            lin_loops = {}

            def is_atom(fa):
                if fa[0] == 'cmp' and fa[1] in ('1',) and fa[2] == '<' and fa[3].startswith('fan_out(') and fa[3].endswith(')[0]'):
                    lin_loops['v'] = fa[3][len('fan_out('):-len(')[0]')]
                    return True
                if fa[0] == 'cmp' and fa[1] == '2' and fa[2] == '<=' and fa[3].startswith('fan_out(') and fa[3].endswith(')[0]'):
                    lin_loops['v'] = fa[3][len('fan_out('):-len(')[0]')]
                    return True
                if fa[0] == 'cmp' and fa[3] in ('1',) and fa[2] == '<=' and fa[1].startswith('fan_out(') and fa[1].endswith(')[0]'):
                    lin_loops['v'] = fa[1][len('fan_out('):-len(')[0]')]
                    return False
                if fa[0] == 'cmp' and fa[3] in ('1',) and fa[2] == '==' and fa[1].startswith('fan_out(') and fa[1].endswith(')[0]'):
                    lin_loops['v'] = fa[1][len('fan_out('):-len(')[0]')]
                    return False
                return None
            # find the variable the predicate is about
            from ..core import _expand_fact
            for n_ in cfg.nodes:
                if n_.kind == 'assume':
                    fa = norm_test(n_.ast, n_.pol)
                    out_ = [(fa, 0)]
                    _expand_fact(f, fa, 0, out_)
                    for (g_, _) in out_:
                        is_atom(g_)
            linv = lin_loops.get('v')
            try:
                if linv is None:
                    raise Unrecognised('no fan-out test found')
                loops_ = [n_ for n_ in cfg.eval_nodes() if n_.kind == 'iter']
                el = [n_ for n_ in loops_ if linv in [x.id for x in ast.walk(n_.ast.target) if isinstance(x, ast.Name)]]
                if not el:
                    dv = [v for (_, v) in name_defs(f, linv) if isinstance(v, ast.AST)]
                    # next(iter(X)) starts afresh each time: one element only; next(<kept iterator>) goes on where it was
                    if dv and all((isinstance(v, ast.Call) and unparse(v.func) == 'next' and v.args and isinstance(v.args[0], ast.Call)
                                   and unparse(v.args[0].func) == 'iter') or
                                  (isinstance(v, ast.Subscript) and isinstance(v.slice, (ast.Constant, ast.UnaryOp))) for v in dv):
                        raise _OneOnly(unparse(dv[0]))
                if len(el) != 1 or len(el[0].loops) != 1:
                    raise Unrecognised('the linearization loop is not nested in exactly one loop over the rules')
                outer = cfg.nodes[el[0].loops[0]]
                src_ok = outer.kind == 'iter' and unparse(outer.ast.iter) in (G, G + '.keys()', G + '.values()', G + '.items()',
                                                                             'sorted(%s)' % G, 'list(%s)' % G)
                inner_src = unparse(el[0].ast.iter)
                if not src_ok or G not in inner_src and unparse(outer.ast.target).split(',')[-1].strip(' ()') not in inner_src:
                    raise Unrecognised('the loops do not run over the rules of the grammar and their linearizations')
                res = SearchLoop(f, is_atom, lambda n_: n_.id == el[0].id, element_names=[linv]).explore()
                bad = [(v, sn, at) for (v, sn, at) in res if v is None or v != (not sn)]
                if not bad:
                    ok, why = True, 'boolean abstraction (%d return states): the result is True exactly when no linearization ' \
                                    'with fan-out > 1 exists, whatever is visited or skipped' % len(res)
                else:
                    v, sn, at = sorted(bad, key=lambda x: str(x))[0]
                    ok = False
                    why = 'line %d returns %s although %s' % (cfg.nodes[at].lineno, v,
                                                             'a linearization with more than one argument exists (possibly one the '
                                                             'loop skipped or never reached)' if sn else 'no linearization has more than one argument')
            except _OneOnly as ex:
                ok, why = False, 'only one linearization per rule is inspected (`%s`): a rule that is continuous in that one ' \
                                 'and discontinuous in another passes' % ex
            except Unrecognised as ex:
                ok, why = None, 'not followed: %s' % ex
            return ok, why
        ok, why = _cf_by_loops(f)
        if ok is None:
            # `if all(P(x) for x in xs): ...` / `any(...)` inside the loops: spelled out as a flag loop, then the same exploration
            g2 = _desugar_quantifier_tests(f)
            if g2 is not None:
                ok2, why2 = _cf_by_loops(g2)
                if ok2 is not None:
                    ok, why = ok2, why2 + ' (any()/all() conditions spelled out as loops)'
    # position 0 of the fan-out vector is the left-hand side; any other position is a right-hand-side element
    for x_ in walk_own(f.node):
        if isinstance(x_, ast.Subscript) and isinstance(x_.value, ast.Call) and prog.callee(x_.value, f) == ('grammaranalysis', 'fan_out') \
                and isinstance(x_.slice, ast.Constant) and isinstance(x_.slice.value, int) and x_.slice.value != 0:
            ok = False
            why = '`%s` reads the fan-out of right-hand-side element %d, not of the left-hand side (position 0): a grammar whose ' \
                  'discontinuous constituents are not the first child of their parent is reported context-free' % (
                      unparse(x_), x_.slice.value)
    obs.append(Ob('R-DISCONT/CHAIN', f.fq, 'a grammar is context-free iff no linearization has more than one argument',
                  ok, why, construct='chain-cf', line=f.node.lineno))
    return obs, {}


# ------------------------------------------------------------------------------------ R-PAIRUSE

def _desugar_quantifier_tests(f):
    """A copy of function f in which every `if [not] all/any(<E> for x in <it>): ...` is written as a flag loop followed by
    the `if` on the flag; None if there is nothing to rewrite."""
    import copy
    from ..core import Func
    node = copy.deepcopy(f.node)
    count = [0]

    def rewrite(stmts):
        out = []
        for st in stmts:
            for fld in ('body', 'orelse', 'finalbody'):
                sub = getattr(st, fld, None)
                if isinstance(sub, list) and sub and isinstance(sub[0], ast.stmt) and not isinstance(st, (ast.FunctionDef, ast.ClassDef)):
                    setattr(st, fld, rewrite(sub))
            if isinstance(st, ast.Assign) and len(st.targets) == 1 and isinstance(st.targets[0], ast.Name) \
                    and isinstance(st.value, (ast.Compare, ast.BoolOp)) or (
                    isinstance(st, ast.Assign) and len(st.targets) == 1 and isinstance(st.targets[0], ast.Name)
                    and isinstance(st.value, ast.UnaryOp) and isinstance(st.value.op, ast.Not)):
                # flag = <condition>   ->   if <condition>: flag = True  else: flag = False
                count[0] += 1
                nm_ = st.targets[0].id
                t_ = ast.Assign(targets=[ast.Name(id=nm_, ctx=ast.Store())], value=ast.Constant(value=True))
                f_ = ast.Assign(targets=[ast.Name(id=nm_, ctx=ast.Store())], value=ast.Constant(value=False))
                new_if = ast.If(test=st.value, body=[t_], orelse=[f_])
                ast.copy_location(new_if, st)
                ast.fix_missing_locations(new_if)
                out.append(new_if)
                continue
            if isinstance(st, ast.If):
                t = st.test
                neg = False
                if isinstance(t, ast.UnaryOp) and isinstance(t.op, ast.Not):
                    t, neg = t.operand, True
                if isinstance(t, ast.Call) and isinstance(t.func, ast.Name) and t.func.id in ('all', 'any') and len(t.args) == 1 \
                        and isinstance(t.args[0], (ast.GeneratorExp, ast.ListComp)) and len(t.args[0].generators) == 1 \
                        and not t.args[0].generators[0].ifs:
                    g = t.args[0]
                    count[0] += 1
                    flag = '__q%d' % count[0]
                    is_all = t.func.id == 'all'
                    init = ast.Assign(targets=[ast.Name(id=flag, ctx=ast.Store())], value=ast.Constant(value=is_all))
                    cond = ast.UnaryOp(op=ast.Not(), operand=g.elt) if is_all else g.elt
                    setf = ast.Assign(targets=[ast.Name(id=flag, ctx=ast.Store())], value=ast.Constant(value=not is_all))
                    tgt = copy.deepcopy(g.generators[0].target)
                    for x in ast.walk(tgt):
                        if isinstance(x, ast.Name):
                            x.ctx = ast.Store()
                    loop = ast.For(target=tgt, iter=g.generators[0].iter,
                                   body=[ast.If(test=cond, body=[setf, ast.Break()], orelse=[])], orelse=[])
                    newtest = ast.Name(id=flag, ctx=ast.Load())
                    st.test = ast.UnaryOp(op=ast.Not(), operand=newtest) if neg else newtest
                    for x in (init, loop):
                        ast.copy_location(x, st)
                        ast.fix_missing_locations(x)
                    ast.fix_missing_locations(st)
                    out.extend([init, loop, st])
                    continue
            out.append(st)
        return out
    node.body = rewrite(node.body)
    if not count[0]:
        return None
    ast.fix_missing_locations(node)
    try:
        compile(ast.Module(body=[node], type_ignores=[]), '<desugared>', 'exec')
    except Exception:
        return None
    return Func(f.module, node, f.cls)


def r_pairuse(prog, tier):
    """binarize_rule receives a bare production and *its* linearization: when the production comes out of the
    reordering call, the linearization must come out of the same call."""
    obs = []
    f = prog.func('grammar', 'binarize')
    cfg = f.cfg
    ncalls = 0
    for n in cfg.eval_nodes():
        for root in cfg.exprs(n.id):
            for sub in ast.walk(root):
                if not (isinstance(sub, ast.Call) and prog.callee(sub, f) == ('grammar', 'binarize_rule') and len(sub.args) >= 2):
                    continue
                ncalls += 1
                a0, a1 = sub.args[0], sub.args[1]
                ok, why = None, 'arguments are not plain locals'
                if isinstance(a0, ast.Name) and isinstance(a1, ast.Name):
                    d0 = dict((nid, v) for (nid, v) in name_defs(f, a0.id))
                    d1 = dict((nid, v) for (nid, v) in name_defs(f, a1.id))
                    un0 = dict((nid, v) for nid, v in d0.items() if isinstance(v, tuple) and v[0] == 'unpack'
                               and n.id in cfg.reach(nid))
                    un1 = dict((nid, v) for nid, v in d1.items() if isinstance(v, tuple) and v[0] == 'unpack'
                               and n.id in cfg.reach(nid))
                    if not un0 and not un1:
                        ok, why = None, 'neither argument comes out of a reordering call here'
                    elif set(un0) == set(un1) and all(un0[k][2] == 0 and un1[k][2] == 1 and un0[k][1] is un1[k][1] for k in un0):
                        ok, why = True, '`%s` and `%s` are the two results of the same call `%s`' % (
                            a0.id, a1.id, unparse(list(un0.values())[0][1])[:50])
                        # ... on every path: no later re-binding of one of the two that leaves the other from the call
                        ids0, ids1 = frozenset(d0), frozenset(d1)
                        for k0, v0 in d0.items():
                            for k1, v1 in d1.items():
                                if k0 == k1 or not ((k0 in un0) ^ (k1 in un1)):
                                    continue
                                # can both definitions be the ones in force at the call?
                                first, second = (k0, k1) if k1 in cfg.reach(k0, avoid=ids0 - {k0}) else (
                                    (k1, k0) if k0 in cfg.reach(k1, avoid=ids1 - {k1}) else (None, None))
                                if first is None:
                                    continue
                                if n.id in cfg.reach(second, avoid=(ids0 | ids1) - {k0, k1}) or n.id == second:
                                    later_is_plain = second not in un0 and second not in un1
                                    if later_is_plain and cfg.can_reach(first, second):
                                        ok = False
                                        why = 'after the reordering call `%s` is re-bound (line %d) while `%s` keeps what the call ' \
                                              'returned: right-hand sides and variables no longer belong together' % (
                                                  a0.id if second == k0 else a1.id, cfg.nodes[second].lineno,
                                                  a1.id if second == k0 else a0.id)
                    elif un0 and not un1:
                        ok = False
                        why = '`%s` may be the reordered production (`%s`) but `%s` is never the linearization that call ' \
                              'returns: right-hand sides and variables no longer belong together' % (
                                  a0.id, unparse(list(un0.values())[0][1])[:50], a1.id)
                    elif un1 and not un0:
                        ok = False
                        why = '`%s` may be the reordered linearization but `%s` is never the production that call returns' % (a1.id, a0.id)
                    elif set(un0) == set(un1):
                        ok = False
                        why = 'the two results of the reordering call are handed over in swapped positions'
                # the call happens once per rule: inside every loop that (re)binds what it is given
                for a_ in (a0, a1):
                    if isinstance(a_, ast.Name):
                        for (dn_, _) in name_defs(f, a_.id):
                            extra_ = [l_ for l_ in cfg.nodes[dn_].loops if l_ not in n.loops]
                            if extra_ and n.id in cfg.reach(dn_):
                                obs.append(Ob('R-PAIRUSE', f.fq, 'binarize_rule is called for every rule: `%s`' % unparse(sub)[:50], False,
                                              '`%s` is bound inside `%s` (line %d) but the call is outside that loop: only the last of its '
                                              'values is binarized, the other linearizations of the production vanish' % (
                                                  a_.id, unparse(cfg.nodes[extra_[-1]].ast).split('\n')[0][:40], cfg.nodes[dn_].lineno),
                                              construct='pairuse-loop:%s' % a_.id, line=n.lineno))
                                break
                        else:
                            continue
                        break
                obs.append(Ob('R-PAIRUSE', f.fq, 'binarize_rule receives a production together with its own linearization '
                              '(`%s`, `%s`)' % (unparse(a0), unparse(a1)), ok, why,
                              construct='pairuse:%s:%s' % (unparse(a0), unparse(a1)), line=n.lineno))
    if ncalls < 2:
        raise Unrecognised('grammar.binarize calls binarize_rule %d times (2 expected)' % ncalls, partial=obs)
    return obs, {}
