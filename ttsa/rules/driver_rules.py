"""Drivers and process state: R-FRAMEFILE (+ONCE, DISPATCH), R-SPLITARITH, R-STATE."""
import ast

from ..core import (AnalysisError, Unrecognised, path, unparse, norm_test, facts_at, walk_own, split_assumes,
                    const_str, root_name, no_kill_between)
from ..events import name_defs, single_def, data_events, fresh_paths
from ..report import Ob


_ALIAS_FUNC = [None]


def _getattr_dispatch(call):
    """(module name, suffix or '') for getattr(<mod>, <expr>[ + '_begin'])(...) calls; also when the looked-up
    function was first bound to a local (writer = getattr(treeoutput, fmt); writer(tree, stream, ...))."""
    f = call.func
    if isinstance(f, ast.Name) and _ALIAS_FUNC[0] is not None:
        from ..core import _unique_assign
        v = _unique_assign(_ALIAS_FUNC[0], f.id)
        if isinstance(v, ast.Call) and isinstance(v.func, ast.Name) and v.func.id == 'getattr':
            f = v
    if isinstance(f, ast.Call) and isinstance(f.func, ast.Name) and f.func.id == 'getattr' and len(f.args) == 2 \
            and isinstance(f.args[0], ast.Name):
        sel = f.args[1]
        suffix = ''
        if isinstance(sel, ast.BinOp) and isinstance(sel.op, ast.Add) and const_str(sel.right) is not None:
            suffix = const_str(sel.right)
            sel = sel.left
        elif isinstance(sel, ast.BinOp) and isinstance(sel.op, ast.Mod) and const_str(sel.left) is not None \
                and const_str(sel.left).startswith('%s') and '%' not in const_str(sel.left)[2:] \
                and not isinstance(sel.right, ast.Tuple):
            suffix = const_str(sel.left)[2:]            # '%s_begin' % fmt
            sel = sel.right
        elif isinstance(sel, ast.Call) and isinstance(sel.func, ast.Attribute) and sel.func.attr == 'format' \
                and const_str(sel.func.value) is not None and len(sel.args) == 1 and not sel.keywords \
                and any(const_str(sel.func.value).startswith(p_) for p_ in ('{}', '{0}', '{!s}', '{0!s}')) \
                and '{' not in const_str(sel.func.value).split('}', 1)[1]:
            suffix = const_str(sel.func.value).split('}', 1)[1]     # '{}_begin'.format(fmt)
            sel = sel.args[0]
        elif isinstance(sel, ast.Call) and isinstance(sel.func, ast.Attribute) and sel.func.attr == 'join' \
                and const_str(sel.func.value) == '' and len(sel.args) == 1 and isinstance(sel.args[0], (ast.List, ast.Tuple)) \
                and len(sel.args[0].elts) == 2 and const_str(sel.args[0].elts[1]) is not None:
            suffix = const_str(sel.args[0].elts[1])                 # ''.join([fmt, '_begin'])
            sel = sel.args[0].elts[0]
        return f.args[0].id, suffix, unparse(sel)
    return None


def _same_try(f, a_stmt, b_stmt):
    """a_stmt sits in the `finally` (or a handler) of the try statement whose body holds b_stmt."""
    for t in ast.walk(f.node):
        if isinstance(t, ast.Try) and any(b_stmt is x for st in t.body for x in ast.walk(st)):
            if any(a_stmt is x for st in t.finalbody for x in ast.walk(st)):
                return True
    return False


def _hash_number(v):
    """`'#%d' % n`, `'#%s' % n`, `'#' + str(n)`, `'#{}'.format(n)`: the export reference to a numbered constituent."""
    if isinstance(v, ast.BinOp) and isinstance(v.op, ast.Mod) and const_str(v.left) in ('#%d', '#%s', '#%i'):
        return True
    if isinstance(v, ast.BinOp) and isinstance(v.op, ast.Add) and const_str(v.left) == '#' and isinstance(v.right, ast.Call) \
            and unparse(v.right.func) == 'str' and len(v.right.args) == 1:
        return True
    if isinstance(v, ast.Call) and isinstance(v.func, ast.Attribute) and v.func.attr == 'format' \
            and const_str(v.func.value) in ('#{}', '#{0}', '#{:d}', '#{0:d}', '#{!s}', '#{0!s}') and len(v.args) == 1 and not v.keywords:
        return True
    return False


def _starstar(call):
    for k in call.keywords:
        if k.arg is None:
            if isinstance(k.value, ast.Name) and _ALIAS_FUNC[0] is not None:
                from ..core import _unique_assign
                v = _unique_assign(_ALIAS_FUNC[0], k.value.id)
                if isinstance(v, ast.Call):
                    return unparse(v)
            return unparse(k.value)
    return None


def _contains(outer_stmt, inner):
    for n in ast.walk(outer_stmt):
        if n is inner:
            return True
    return False


def _none_reaches(f, use, arg):
    """Can a tree that a transformation dropped (the variable tested `is None`) reach the statement `use` without
    being re-assigned?  True / False / None (no None test on that variable exists at all)."""
    cfg = f.cfg
    if not isinstance(arg, ast.Name):
        return None
    v = arg.id
    defs = frozenset(nid for (nid, _) in name_defs(f, v))
    nones = [m.id for m in cfg.nodes if m.kind == 'assume' and norm_test(m.ast, m.pol) == ('none', v, True)]
    if not nones:
        return None
    notnone = frozenset(m.id for m in cfg.nodes if m.kind == 'assume' and norm_test(m.ast, m.pol) == ('none', v, False))
    for a in nones:
        if use.id in cfg.reach(a, avoid=defs | notnone):
            return True
    # the value may also arrive untested: some definition from a transformation call reaches `use` avoiding every test
    tests = frozenset(m.id for m in cfg.nodes if m.kind == 'assume' and norm_test(m.ast, m.pol)[0] == 'none'
                      and norm_test(m.ast, m.pol)[1] == v)
    for (nid, val) in name_defs(f, v):
        if isinstance(val, ast.Call) and 'globals()' in unparse(val.func):
            if use.id in cfg.reach(nid, avoid=(defs - {nid}) | tests):
                # reaches the use without passing any None test ... unless the loop simply continues to the next
                # transformation (the call itself is the next definition): paths that leave the loop normally matter
                return True
    return False


def r_framefile(prog, tier):
    obs = []
    f = prog.func('transform', 'run')
    _ALIAS_FUNC[0] = f
    cfg = f.cfg
    withs = [n for n in cfg.eval_nodes() if n.kind == 'with']
    regions = 0
    for w in withs:
        item = w.ast.items[0]
        if item.optional_vars is None:
            continue
        S = unparse(item.optional_vars)
        writers, begins, ends = [], [], []
        for n in cfg.eval_nodes():
            if n.kind != 'stmt' or not _contains(w.ast, n.ast):
                continue
            for sub in walk_own(n.ast):
                if isinstance(sub, ast.Call):
                    d = _getattr_dispatch(sub)
                    if d and d[0] == 'treeoutput':
                        args = [unparse(a) for a in sub.args]
                        if d[1] == '' and len(args) >= 2 and args[1] == S:
                            writers.append((n, sub, d))
                        elif d[1] == '_begin' and args and args[0] == S:
                            begins.append((n, sub, d))
                        elif d[1] == '_end' and args and args[0] == S:
                            ends.append((n, sub, d))
        if not writers:
            continue
        regions += 1
        wn, wcall, wd = writers[0]
        loop = wn.loops[0] if wn.loops else None
        # innermost loop common to the with body
        wloops = [l for l in wn.loops if l not in w.loops]
        first_loop = wloops[0] if wloops else None
        nested = any(isinstance(x, (ast.FunctionDef, ast.Lambda)) for x in walk_own(f.node))
        for (lst, what) in ((begins, 'begin'), (ends, 'end')):
            ok = False
            why = 'no `getattr(treeoutput, %s + \'_%s\')(%s, ...)` in this output file region' % (wd[2], what, S)
            if not lst and (nested or [c_ for c_ in prog.opaque_calls(f, [S]) if _contains(w.ast, c_[1])
                                        and _getattr_dispatch(c_[1]) is None]):
                ok = None
                why = 'the %s call may be made through a helper this rule does not follow' % what
            for (n, call, d) in lst:
                same_fmt = d[2] == wd[2]
                same_opts = _starstar(call) == _starstar(wcall)
                outside = first_loop is None or first_loop not in n.loops
                if what == 'begin':
                    order = first_loop is None or cfg.dominates(n.id, first_loop)
                    every = cfg.postdominates(n.id, w.id) or cfg.dominates(n.id, w.id)
                else:
                    order = first_loop is None or cfg.dominates(first_loop, n.id)
                    every = cfg.postdominates(n.id, w.id)
                if same_fmt and same_opts and outside and order and every:
                    ok = True
                    why = '`%s` %s the tree loop on every path through the file region, same options' \
                          % (unparse(call)[:70], 'precedes' if what == 'begin' else 'follows')
                elif not ok:
                    why = '`..._%s` call found but: same format %s, same options %s, outside the tree loop %s, ' \
                          'ordered w.r.t. the loop %s, on every path %s' % (what, same_fmt, same_opts, outside, order, every)
                    if outside and order and every and not (same_fmt and same_opts):
                        ok = None      # only a textual mismatch of the format / option expressions
            obs.append(Ob('R-FRAMEFILE', f.fq, 'output file opened at line %d gets the format\'s %s' %
                          (w.lineno, 'preamble before' if what == 'begin' else 'suffix after') + ' its trees', ok, why,
                          construct='frame:%s:%d' % (what, regions), line=w.lineno))
    if regions < 2:
        raise Unrecognised('transform.run: %d output regions with a per-tree writer call (2 expected)' % regions, partial=obs)
    # ---- ONCE: the split branch hands every tree out exactly once, in order
    iters = [n for n in cfg.eval_nodes() if n.kind == 'stmt' and isinstance(n.ast, ast.Assign)
             and isinstance(n.ast.value, ast.Call) and unparse(n.ast.value.func) == 'iter']
    specs = [n for n in cfg.eval_nodes() if n.kind == 'stmt' and isinstance(n.ast, ast.Assign)
             and isinstance(n.ast.value, ast.Call)
             and prog.callee(n.ast.value, f) == ('treeoutput', 'parse_split_specification')]
    if len(specs) != 1:
        raise Unrecognised('transform.run: %d calls of parse_split_specification' % len(specs), partial=obs)
    sp = specs[0]
    size_arg = sp.ast.value.args[1] if len(sp.ast.value.args) > 1 else None
    L = None
    if isinstance(size_arg, ast.Call) and unparse(size_arg.func) == 'len' and isinstance(size_arg.args[0], ast.Name):
        L = size_arg.args[0].id
    # the list L collects the transformed, surviving trees
    verdict, why = None, 'size argument `%s` not recognised' % (unparse(size_arg) if size_arg is not None else '?')
    if L:
        apps = [n for n in cfg.eval_nodes() if n.kind == 'stmt' and isinstance(n.ast, ast.Expr)
                and isinstance(n.ast.value, ast.Call) and unparse(n.ast.value.func) == '%s.append' % L and n.ast.value.args]
        if apps:
            res = [_none_reaches(f, a, a.ast.value.args[0]) for a in apps]
            if any(r is True for r in res):
                verdict, why = False, 'a tree dropped by a transformation (None) is appended to `%s`, so the size counts ' \
                                      'trees that are never written' % L
            elif all(r is False for r in res):
                verdict, why = True, 'size = len(%s), the list that only receives trees that are not None' % L
            else:
                why = 'could not decide whether `%s` only receives surviving trees' % L
    elif size_arg is not None:
        # positive evidence: the size is a running count of trees read (incremented whether or not the tree survives)
        for nm_ in [x.id for x in ast.walk(size_arg) if isinstance(x, ast.Name)]:
            incs = [nid for (nid, v) in name_defs(f, nm_) if isinstance(v, tuple) and v[0] == 'aug' and cfg.nodes[nid].loops]
            for nid in incs:
                facts = [x[0] for x in facts_at(cfg, nid)]
                if not any(fa[0] == 'none' for fa in facts):
                    verdict, why = False, 'size `%s` comes from the counter `%s`, which counts every tree read, dropped ones ' \
                                          'included' % (unparse(size_arg), nm_)
    obs.append(Ob('R-FRAMEFILE/ONCE', f.fq, 'the split specification is evaluated against the number of trees that '
                  'will be written', verdict, why, construct='once-size', line=sp.lineno))
    parts_name = unparse(sp.ast.targets[0])
    ok_iter = None
    why = 'no single iterator over the tree list created outside the part loops'
    wr_split = None
    for w in withs:
        for n in cfg.eval_nodes():
            if n.kind == 'stmt' and _contains(w.ast, n.ast) and cfg.dominates(sp.id, n.id):
                for sub in walk_own(n.ast):
                    if isinstance(sub, ast.Call):
                        d = _getattr_dispatch(sub)
                        if d and d[0] == 'treeoutput' and d[1] == '':
                            wr_split = (n, sub)
    if wr_split is None:
        raise Unrecognised('transform.run: no writer call in the split branch', partial=obs)
    wn, wcall = wr_split
    a0 = wcall.args[0]
    if isinstance(a0, ast.Call) and unparse(a0.func) == 'next' and isinstance(a0.args[0], ast.Name):
        itn = a0.args[0].id
        defs = [n for n in iters if unparse(n.ast.targets[0]) == itn]
        if len(defs) == 1 and not defs[0].loops and L and unparse(defs[0].ast.value.args[0]) == L \
                and cfg.dominates(defs[0].id, wn.id):
            # exactly one next() per inner iteration
            nexts = [x for n in cfg.eval_nodes() for r in cfg.exprs(n.id) for x in ast.walk(r)
                     if isinstance(x, ast.Call) and unparse(x.func) == 'next' and x.args and unparse(x.args[0]) == itn]
            inner = cfg.nodes[wn.loops[-1]] if wn.loops else None
            outer = cfg.nodes[wn.loops[-2]] if len(wn.loops) >= 2 else None
            shape = inner is not None and outer is not None and inner.kind == 'iter' and outer.kind == 'iter'
            if shape:
                it_in = unparse(inner.ast.iter)
                tgt_out = outer.ast.target
                psz = unparse(tgt_out.elts[1]) if isinstance(tgt_out, ast.Tuple) and len(tgt_out.elts) == 2 else unparse(tgt_out)
                shape = it_in in ('range(0, %s)' % psz, 'range(%s)' % psz) and \
                    unparse(outer.ast.iter) in ('enumerate(%s)' % parts_name, parts_name)
            every = inner is not None and cfg.in_every_iteration(inner.id, wn.id)
            ok_iter = True if (len(nexts) == 1 and shape and every) else (False if (len(nexts) != 1 or (shape and not every)) else None)
            why = 'one iterator `%s = iter(%s)` outside the loops; one next() per tree slot of each part' % (itn, L) \
                if ok_iter else 'iterator ok but: single next(): %s, loops `for part_size in parts / for _ in ' \
                'range(part_size)`: %s, writer unconditional per slot: %s' % (len(nexts) == 1, shape, every)
        elif len(defs) == 1 and defs[0].loops:
            ok_iter, why = False, 'the iterator `%s` is created inside a loop: every part starts again at the first tree' % itn
    elif isinstance(a0, ast.Name):
        why = 'trees are not taken from a single shared iterator (`%s`): not modelled' % unparse(a0)
        # slices: `part = L[off:off + size]` per part, with `off` moved on by the size of every part
        src = None
        for (_, v_) in name_defs(f, a0.id):
            if isinstance(v_, tuple) and v_[0] == 'iter':
                src = v_[1]
                if isinstance(src, ast.Call) and unparse(src.func) == 'enumerate' and src.args:
                    src = src.args[0]
        if isinstance(src, ast.Name):
            dd_ = [d_ for (_, d_) in name_defs(f, src.id) if isinstance(d_, ast.AST)]
            src = dd_[0] if len(dd_) == 1 else None
        if isinstance(src, ast.Subscript) and isinstance(src.slice, ast.Slice) and L and unparse(src.value) == L \
                and isinstance(src.slice.lower, ast.Name) and src.slice.upper is not None:
            off = src.slice.lower.id
            up = unparse(src.slice.upper)
            moves = [(nid, v_) for (nid, v_) in name_defs(f, off) if cfg.nodes[nid].loops]
            for (nid, v_) in moves:
                if isinstance(v_, tuple) and v_[0] == 'aug' and isinstance(v_[1].op, ast.Add):
                    ok_iter, why = None, 'slices `%s[%s:%s]` with `%s` added up: not followed further' % (L, off, up, off)
                elif isinstance(v_, ast.AST) and off not in [x_.id for x_ in ast.walk(v_) if isinstance(x_, ast.Name)]:
                    ok_iter = False
                    why = 'the parts are the slices `%s[%s:%s]`, but `%s = %s` (line %d) sets the start of the next part without ' \
                          'adding to it: from the third part on trees are written twice and others to no part' % (
                              L, off, up, off, unparse(v_), cfg.nodes[nid].lineno)
                    break
    obs.append(Ob('R-FRAMEFILE/ONCE', f.fq, 'every tree goes to exactly one part, in the original order', ok_iter, why,
                  construct='once-iter', line=wn.lineno))
    # ---- every tree of the input is read: the loop over the reader is not left with `break`
    for rl in cfg.eval_nodes():
        if rl.kind == 'iter' and isinstance(rl.ast.iter, ast.Call):
            d_ = _getattr_dispatch(rl.ast.iter)
            if not (d_ and d_[0] == 'treeinput'):
                continue
            for b_ in cfg.eval_nodes():
                if b_.kind == 'stmt' and isinstance(b_.ast, ast.Break) and b_.loops and b_.loops[-1] == rl.id:
                    obs.append(Ob('R-FRAMEFILE/ONCE', f.fq, 'the loop over the trees of the input runs to the end', False,
                                  '`break` under %s leaves the loop over the reader: the trees after that point are never read, so '
                                  'they reach no output file (a dropped tree is skipped with `continue`, not with `break`)'
                                  % [('' if a_.pol else 'not ') + unparse(a_.ast)[:40] for a_ in cfg.assumes_at(b_.id) if rl.id in a_.loops],
                                  construct='once-readall', line=b_.lineno))
    # ---- both branches apply the transformations the same way
    tl = []
    for n in cfg.eval_nodes():
        if n.kind == 'iter' and unparse(n.ast.iter) == 'args.trans':
            tl.append(n)
    if len(tl) != 2:
        raise Unrecognised('transform.run: %d loops over args.trans (2 expected)' % len(tl), partial=obs)
    norm = []
    for n in tl:
        alg = unparse(n.ast.target)
        desc = []
        for st in n.ast.body:
            if isinstance(st, ast.Pass) or (isinstance(st, ast.Expr) and (
                    isinstance(st.value, ast.Constant) or (isinstance(st.value, ast.Call) and unparse(st.value.func) in (
                        'print', 'sys.stderr.write', 'sys.stdout.write', 'repr') or unparse(st.value.func).startswith('logging.')))):
                continue        # no effect on the tree
            if isinstance(st, ast.Assign) and isinstance(st.targets[0], ast.Name) and isinstance(st.value, ast.Call):
                T = st.targets[0].id
                c = st.value
                opts = _starstar(c)
                if opts and opts.isidentifier():
                    d = single_def(f, opts, n.id)
                    if d and d[0] != 'param' and isinstance(d[1], ast.Call):
                        opts = unparse(d[1])
                desc.append(('apply', unparse(c.func) == 'globals()[%s]' % alg,
                             [unparse(a) for a in c.args] == [T], opts))
            elif isinstance(st, ast.Expr) and isinstance(st.value, ast.Call) and unparse(st.value.func) == 'globals()[%s]' % alg:
                desc.append(('apply-result-dropped', unparse(st)[:50]))
            elif isinstance(st, ast.If) and not st.orelse and len(st.body) == 1 and isinstance(st.body[0], ast.Break):
                nt = norm_test(st.test, True)
                desc.append(('stop-when-dropped', nt[0] == 'none' and nt[2] is True))
            else:
                desc.append(('other', unparse(st)[:40]))
        norm.append(desc)
    same = norm[0] == norm[1]
    expected = norm[0] == [('apply', True, True, 'misc.options_dict(args.params)'), ('stop-when-dropped', True)]
    obs.append(Ob('R-FRAMEFILE/ONCE', f.fq, 'split and plain branch apply the transformations identically (each with '
                  'the --params options, stopping when a tree is dropped)',
                  True if (same and expected) else (False if any(d_[0] == 'apply-result-dropped' for x_ in norm for d_ in x_) else (
                      None if any(d_[0] == 'other' for x_ in norm for d_ in x_)
                      or any(len(x_) > 2 or not x_ for x_ in norm) else False)),
                  'both loops: tree = globals()[algorithm](tree, **options_dict(args.params)); break when None'
                  if same and expected else 'loops differ or are not the documented pipeline: %s vs %s' % (norm[0], norm[1]),
                  construct='once-trans', line=tl[0].lineno))
    # surviving trees only are written / collected
    for n in cfg.eval_nodes():
        if n.kind == 'stmt':
            for sub in walk_own(n.ast):
                if isinstance(sub, ast.Call):
                    d = _getattr_dispatch(sub)
                    if d and d[0] == 'treeoutput' and d[1] == '' and sub.args and isinstance(sub.args[0], ast.Name):
                        r_ = _none_reaches(f, n, sub.args[0])
                        ok = True if r_ is False else (False if r_ is True else None)
                        obs.append(Ob('R-FRAMEFILE/ONCE', f.fq, 'a tree dropped by a filter is not written', ok,
                                      'writer call guarded by `%s is not None`' % sub.args[0].id if ok else
                                      'writer may receive None', construct='once-none', line=n.lineno))
    return obs, {'output_regions': regions}


# ------------------------------------------------------------------------------------ DISPATCH

def r_dispatch(prog, tier):
    obs = []

    def arity(mod, q, npos, kw=True, what=''):
        f = prog.func(mod, q, required=False)
        ok = f is not None and len(f.params) == npos and (f.kwarg is not None) == kw
        obs.append(Ob('R-DISPATCH', '%s.%s' % (mod, q), '%s exists with %d positional parameter(s)%s' %
                      (what or q, npos, ' and **options' if kw else ''), ok,
                      'defined as (%s%s)' % (', '.join(f.params), ', **' + f.kwarg if f.kwarg else '') if f is not None
                      else 'not defined', construct='arity:%s.%s' % (mod, q), nontrivial=False,
                      line=f.node.lineno if f else 0))
    for nm in prog.registry('treeoutput', 'OUTPUT_FORMATS'):
        arity('treeoutput', nm, 2, what='writer ' + nm)
        arity('treeoutput', nm + '_begin', 1, what='preamble writer ' + nm + '_begin')
        arity('treeoutput', nm + '_end', 1, what='suffix writer ' + nm + '_end')
    for nm in prog.registry('treeinput', 'INPUT_FORMATS'):
        arity('treeinput', nm, 2, what='reader ' + nm)
    for nm in prog.registry('transform', 'TRANSFORMATIONS'):
        arity('transform', nm, 1, what='transformation ' + nm)
    for nm in prog.registry('grammaroutput', 'FORMATS'):
        arity('grammaroutput', nm, 4, what='grammar writer ' + nm)
    for nm in prog.registry('grammarinput', 'FORMATS'):
        arity('grammarinput', nm, 2, what='grammar reader ' + nm)
    for nm in prog.registry('transitionoutput', 'FORMATS'):
        arity('transitionoutput', nm, 3, what='transition writer ' + nm)
    for nm in prog.registry('transitions', 'TRANSTYPES'):
        arity('transitions', nm, 1, kw=False, what='oracle ' + nm)
    for nm in prog.registry('treeanalysis', 'TASKS'):
        arity('treeanalysis', nm + '.run', 2, kw=False, what='task %s.run' % nm)
        arity('treeanalysis', nm + '.done', 1, kw=False, what='task %s.done' % nm)
    f = prog.func('grammar', 'run')
    consts = set(n.value for n in walk_own(f.node) if isinstance(n, ast.Constant) and isinstance(n.value, str))
    for k in prog.registry('grammar', 'GRAMTYPES'):
        obs.append(Ob('R-DISPATCH', f.fq, 'grammar type %r is handled by the driver' % k, k in consts,
                      'compared in run()' if k in consts else 'never mentioned in run()', construct='gramtype:' + k,
                      nontrivial=False, line=f.node.lineno))
    return obs, {}


# ------------------------------------------------------------------------------------ R-SPLITARITH

NNI, INT, INEXACT, FLOAT, STR, UNK = 'NonNegInt', 'Int', 'InexactInt', 'Float', 'Str', 'Unknown'


class _Arith(object):
    def __init__(self, f):
        self.f = f
        self.cfg = f.cfg
        self.size = f.params[1]

    def join(self, ts):
        ts = set(ts)
        if len(ts) == 1:
            return ts.pop()
        for t in (UNK, FLOAT, INEXACT, STR, INT):
            if t in ts:
                return t
        return NNI

    def ty_defs(self, e, at, depth):
        ts = []
        for (n, v) in name_defs(self.f, e.id):
            if isinstance(v, ast.AST):
                ts.append(self.ty(v, n, depth + 1))
            else:
                ts.append(UNK)
        return self.join(ts) if ts else UNK

    def from_spec(self, e, depth=0):
        """Does the value come straight from a number written in the specification (int(<string>))?"""
        if depth > 6:
            return False
        for x in ast.walk(e):
            if isinstance(x, ast.Call) and unparse(x.func) == 'int' and x.args and self.ty(x.args[0], self.cfg.entry) == STR:
                return True
            if isinstance(x, ast.Name) and x.id != self.size:
                for (n, v) in name_defs(self.f, x.id):
                    if isinstance(v, ast.AST) and self.from_spec(v, depth + 1):
                        return True
        return False

    def ty(self, e, at, depth=0):
        if depth > 8:
            return UNK
        if isinstance(e, ast.Constant):
            if isinstance(e.value, bool):
                return UNK
            if isinstance(e.value, int):
                return NNI if e.value >= 0 else INT
            if isinstance(e.value, float):
                return FLOAT
            if isinstance(e.value, str):
                return STR
            return UNK
        if isinstance(e, ast.Name):
            if e.id == self.size:
                return NNI
            for (fa, _) in facts_at(self.cfg, at):
                if fa[0] == 'cmp' and fa[3] == e.id and fa[1] == '0' and fa[2] in ('<', '<=', '=='):
                    base = self.ty_defs(e, at, depth)
                    return NNI if base in (INT, NNI) else base
            defs = name_defs(self.f, e.id)
            ts = []
            for (n, v) in defs:
                if isinstance(v, ast.AST):
                    ts.append(self.ty(v, n, depth + 1))
                elif isinstance(v, tuple) and v[0] == 'iter':
                    it = v[1]
                    if isinstance(it, ast.Call) and unparse(it.func) == 'enumerate':
                        pos = None
                        if isinstance(v[2], ast.Tuple):
                            for i, t in enumerate(v[2].elts):
                                if isinstance(t, ast.Name) and t.id == e.id:
                                    pos = i
                        ts.append(NNI if pos == 0 else (STR if '.split(' in unparse(it) else UNK))
                    elif '.split(' in unparse(it):
                        ts.append(STR)
                    else:
                        ts.append(UNK)
                else:
                    ts.append(UNK)
            return self.join(ts) if ts else UNK
        if isinstance(e, ast.Subscript):
            b = self.ty(e.value, at, depth + 1)
            return STR if b == STR else UNK
        if isinstance(e, ast.Call):
            fn = unparse(e.func)
            if fn == 'len':
                return NNI
            if fn == 'sum':
                return INT
            if fn == 'int' and e.args:
                a = self.ty(e.args[0], at, depth + 1)
                if a in (FLOAT, INEXACT):
                    return INEXACT
                if a == STR:
                    return INT
                return a
            if fn in ('floor', 'math.floor', 'ceil', 'math.ceil', 'round', 'math.trunc', 'trunc') and e.args:
                a = self.ty(e.args[0], at, depth + 1)
                return INEXACT if a in (FLOAT, INEXACT) else a
            if fn in ('abs',) and e.args:
                a = self.ty(e.args[0], at, depth + 1)
                return NNI if a == INT else a
            if fn in ('float',):
                return FLOAT
            return UNK
        if isinstance(e, ast.BinOp):
            l, r = self.ty(e.left, at, depth + 1), self.ty(e.right, at, depth + 1)
            if isinstance(e.op, ast.Div):
                return FLOAT
            if FLOAT in (l, r):
                return FLOAT
            if INEXACT in (l, r):
                return INEXACT
            if UNK in (l, r) or STR in (l, r):
                return UNK
            if isinstance(e.op, (ast.Mult, ast.Add, ast.FloorDiv, ast.Mod)):
                return NNI if l == r == NNI else INT
            if isinstance(e.op, ast.Sub):
                # a - b is non-negative when b < a (or b <= a) is known here
                for (fa, _) in facts_at(self.cfg, at):
                    if fa[0] == 'cmp' and fa[2] in ('<', '<=') and fa[1] == unparse(e.right) and fa[3] == unparse(e.left):
                        return NNI
                    if fa[0] == 'cmp' and fa[1] == '0' and fa[2] in ('<', '<=', '==') and fa[3] == unparse(e):
                        return NNI
                return INT
            return UNK
        if isinstance(e, ast.UnaryOp) and isinstance(e.op, ast.USub):
            return INT
        return UNK


def _unguarded_difference(A, f, val, at):
    """text of `a - b` if val is (a local bound once to) a difference and no fact at `at` mentions a, b or the local."""
    from ..core import _unique_assign
    e = val
    name = None
    if isinstance(e, ast.Name):
        name = e.id
        e = _unique_assign(f, e.id)
    if not (isinstance(e, ast.BinOp) and isinstance(e.op, ast.Sub)):
        return None
    texts = [unparse(e.left), unparse(e.right), unparse(e)] + ([name] if name else [])
    for (fa, _) in facts_at(f.cfg, at):
        for t in fa[1:]:
            if isinstance(t, str) and any(x in t for x in texts):
                return None
    return unparse(e)


def r_splitarith(prog, tier):
    obs = []
    f = prog.func('treeoutput', 'parse_split_specification')
    cfg = f.cfg
    A = _Arith(f)
    # the list returned
    rets = [n for n in walk_own(f.node) if isinstance(n, ast.Return)]
    if len(rets) != 1 or not isinstance(rets[0].value, ast.Name):
        raise Unrecognised('parse_split_specification does not return a single list name', partial=obs)
    P = rets[0].value.id
    nstores = 0
    for n in cfg.eval_nodes():
        if n.kind != 'stmt':
            continue
        st = n.ast
        val = None
        what = None
        if isinstance(st, ast.Expr) and isinstance(st.value, ast.Call) and unparse(st.value.func) == P + '.append':
            val = st.value.args[0]
            what = 'append'
        elif isinstance(st, ast.Assign) and isinstance(st.targets[0], ast.Subscript) and unparse(st.targets[0].value) == P:
            val = st.value
            what = 'store'
        elif isinstance(st, ast.AugAssign) and isinstance(st.target, ast.Subscript) and unparse(st.target.value) == P:
            val = st.value
            what = 'add'
            if not isinstance(st.op, ast.Add):
                obs.append(Ob('R-SPLITARITH', f.fq, 'part sizes only grow by the remainder', False,
                              '`%s`' % unparse(st), construct='split-aug:' + unparse(st), line=n.lineno))
                continue
        if val is None:
            continue
        nstores += 1
        t = A.ty(val, n.id)
        validated = False
        if t == INT and what == 'append':
            # followed in the same iteration by a rejection of negative values
            for m in cfg.nodes:
                if m.kind == 'assume' and m.pol and norm_test(m.ast, True) in (('cmp', '%s[-1]' % P, '<', '0'),):
                    tnode = cfg.stmt_node.get(m.owner)
                    raises = [s for s in cfg.succ[m.id] if cfg.nodes[s].kind == 'stmt' and isinstance(cfg.nodes[s].ast, ast.Raise)]
                    if tnode is not None and raises and cfg.same_loop(tnode, n.id) \
                            and not cfg.can_reach(n.id, cfg.nodes[n.id].loops[-1] if n.loops else cfg.exit, avoid={tnode}):
                        validated = True
            # or: the digits are checked before the conversion
            for (fa, _) in facts_at(cfg, n.id):
                if fa[0] in ('opaque', 'truthy') and '.isdigit()' in fa[1] and fa[2] is True:
                    validated = True
        late_check = None
        if t == INT and what == 'append' and not validated and n.loops:
            for m in cfg.nodes:
                if m.kind == 'assume' and m.pol and norm_test(m.ast, True) in (('cmp', '%s[-1]' % P, '<', '0'),) \
                        and n.loops[-1] not in m.loops:
                    late_check = m
        ok = True if (t == NNI or (t == INT and validated)) else None
        if t == NNI:
            why = 'abstract value NonNegInt'
        elif t == INT and validated:
            why = 'integer read from the specification, negative values rejected right after (`%s[-1] < 0` raises)' % P
        elif t == INT and late_check is not None:
            ok = False
            why = 'the sign check `%s` (line %d) is outside the loop that reads the parts: only the last part is checked, ' \
                  'a negative size in an earlier part is accepted' % (unparse(late_check.ast), late_check.lineno)
        elif t == INT and A.from_spec(val) and not any(
                isinstance(x_, ast.Compare) and any(isinstance(c_, ast.Constant) and c_.value == 0 for c_ in [x_.left] + x_.comparators)
                for x_ in walk_own(f.node)):
            ok = False
            why = 'an integer read from the specification may be negative and nothing rejects it'
        elif t == INT and _unguarded_difference(A, f, val, n.id):
            ok = False
            why = 'the difference `%s` is stored although nothing on this path says which operand is larger: it can be ' \
                  'negative' % _unguarded_difference(A, f, val, n.id)
        elif t == INT:
            why = 'integer whose sign this rule cannot establish'
        elif t == INEXACT:
            ok = False
            why = 'computed through floating point (division, then floor/int): not exact for all sizes ' \
                  '(e.g. 29%% of 100 gives 28)'
        else:
            why = 'abstract value %s' % t
        if ok is not False and isinstance(val, ast.Call) and isinstance(val.func, ast.Name) and val.func.id == 'min' \
                and any(unparse(a_) == A.size for a_ in val.args):
            ok = False
            why = 'the part is cut down to the number of trees (`%s`): a specification that demands more trees than exist is ' \
                  'accepted and quietly changed instead of being rejected' % unparse(val)[:50]
        obs.append(Ob('R-SPLITARITH', f.fq, 'part size `%s` is an exact non-negative integer' % unparse(val)[:60], ok, why,
                      construct='split-%s:%s' % (what, unparse(val)), line=n.lineno))
        if what == 'store' and unparse(st.targets[0].slice) == '%s.index(max(%s))' % (P, P):
            obs.append(Ob('R-SPLITARITH', f.fq, 'the remainder is ADDED to the largest part', False,
                          '`%s` replaces the size of the largest part by `%s` instead of adding to it: the sizes no longer follow the '
                          'specification and no longer sum to the number of trees' % (unparse(st)[:60], unparse(val)[:20]),
                          construct='split-remainder-store', line=n.lineno))
        if what == 'add':
            # the remainder is handed out whatever the specification looks like: a test of the specification text on the way
            # here, with a way around it that neither stores a part nor raises, leaves trees that belong to no part
            spec_ = f.params[0]
            stores_ = frozenset(m_.id for m_ in cfg.eval_nodes() if m_.kind == 'stmt' and (
                isinstance(m_.ast, ast.Raise) or (isinstance(m_.ast, (ast.Assign, ast.AugAssign)) and unparse(
                    m_.ast.targets[0] if isinstance(m_.ast, ast.Assign) else m_.ast.target).startswith(P + '['))))
            for a_ in cfg.assumes_at(n.id):
                if a_.loops or spec_ not in [x_.id for x_ in ast.walk(a_.ast) if isinstance(x_, ast.Name)]:
                    continue
                other_ = [m_ for m_ in cfg.nodes if m_.kind == 'assume' and m_.ast is a_.ast and m_.pol != a_.pol]
                if other_ and cfg.exit in cfg.reach(other_[0].id, avoid=stores_):
                    obs.append(Ob('R-SPLITARITH', f.fq, 'the trees no part asks for are handed out whatever the specification looks like',
                                  False, 'the remainder is added only under `%s%s`; otherwise the parts are returned as they are and '
                                  'their sizes no longer sum to the number of trees: the surplus trees are written to no part' % (
                                      '' if a_.pol else 'not ', unparse(a_.ast)[:50]),
                                  construct='split-remainder-cond:' + unparse(a_.ast)[:40], line=n.lineno))
            idx = unparse(st.target.slice)
            okf = True if idx == '%s.index(max(%s))' % (P, P) else None
            whyf = None
            if okf is None and ('min(' in idx or idx in ('-1', '0', 'len(%s) - 1' % P)):
                okf = False
            if okf is None and idx.isidentifier():
                # index found by a scan: `best = i` under `part > parts[best]` (first of ties) / `>=` (last of ties)
                for (nid, v) in name_defs(f, idx):
                    if isinstance(v, ast.AST) and cfg.nodes[nid].loops:
                        for fa in [x[0] for x in facts_at(cfg, nid)]:
                            if fa[0] == 'cmp' and '%s[%s]' % (P, idx) in (fa[1], fa[3]):
                                if fa[2] == '<=' and fa[1] == '%s[%s]' % (P, idx):
                                    okf, whyf = False, 'the scan replaces the candidate on `>=`: on a tie the LAST largest part gets ' \
                                                       'the remainder, the documented one is the first'
                                elif fa[2] == '<' and fa[1] == '%s[%s]' % (P, idx):
                                    okf, whyf = True, 'scan keeps the first largest part (strict comparison)'
            obs.append(Ob('R-SPLITARITH', f.fq, 'without `rest` the remainder goes to the largest part, the first one '
                          'on ties', okf, whyf or ('index %s' % idx if okf else 'remainder added at `%s`, not at %s.index(max(%s))'
                          % (idx, P, P)), construct='split-remainder:' + idx, line=n.lineno))
    if nstores < 4:
        raise Unrecognised('parse_split_specification: %d stores into the part list (at least 4 expected)' % nstores, partial=obs)
    raises = [n for n in cfg.eval_nodes() if n.kind == 'stmt' and isinstance(n.ast, ast.Raise)]
    for r in raises:
        ok = r.ast.exc is not None and prog.raises_kind(r.ast.exc, f, 'ValueError')
        obs.append(Ob('R-SPLITARITH', f.fq, 'a bad specification is rejected with ValueError', ok, unparse(r.ast)[:60],
                      construct='split-raise:' + unparse(r.ast)[:40], line=r.lineno, nontrivial=False))
    # more trees demanded than exist -> raise
    big = None
    for r in raises:
        facts = [x[0] for x in facts_at(cfg, r.id)]
        if any(fa[0] == 'cmp' and fa[2] == '<' and fa[1] == A.size for fa in facts):
            big = True
        for fa in facts:
            # size - sum < 0   /   size - sum <= 0 and != 0
            if fa[0] == 'cmp' and fa[1].startswith(A.size + ' - ') and fa[3] == '0' and (
                    fa[2] == '<' or (fa[2] == '<=' and ('cmp', fa[1], '!=', '0') in facts)):
                big = True
            if fa[0] == 'cmp' and fa[3].endswith(' - ' + A.size) and fa[1] == '0' and fa[2] == '<':
                big = True
    helpers_raise = prog.raising_calls(f)
    if big is None and not [r for r in raises if not r.loops] and not helpers_raise:
        big = False           # positive: after the parts are read nothing raises at all
    obs.append(Ob('R-SPLITARITH', f.fq, 'a specification demanding more trees than exist is rejected', big,
                  'raise under `sum > size`' if big else 'no raise under `%s < <sum of parts>`' % A.size,
                  construct='split-toobig', line=f.node.lineno))
    # malformed part -> raise: the if/elif chain over part kinds ends in a raise
    chain_ok = None
    for r in raises:
        if r.loops and len([a for a in cfg.assumes_at(r.id) if not a.pol]) >= 3:
            chain_ok = True
    if chain_ok is None and not [r for r in raises if r.loops] and not helpers_raise:
        chain_ok = False      # positive: nothing inside the loop over the parts raises
    obs.append(Ob('R-SPLITARITH', f.fq, 'an unknown kind of part is rejected', chain_ok,
                  'the chain %/#/rest ends in raise' if chain_ok else 'the chain over part kinds has no final raise',
                  construct='split-else', line=f.node.lineno))
    return obs, {}


# ------------------------------------------------------------------------------------ R-STATE

ALLOWED_STATE = {
    ('transform.insert_terminals', 'insert_terminals'): 'terminal-file cache keyed by file name',
    ('transform.substitute_terminals', 'substitute_terminals'): 'terminal-file cache keyed by file name',
}
CONTENT = ('word', 'lemma', 'label', 'morph', 'edge')
SET_FILE_OK = {'grammaroutput.lopar': {'.start': 'the .start file represents a set of symbols'}}


def _global_writes(f):
    """[(root name, text, lineno)] of stores / in-place mutations whose root is not a local."""
    out = []
    from ..core import MUTATORS
    for n in walk_own(f.node):
        targets = []
        if isinstance(n, ast.Assign):
            for t in n.targets:
                targets.extend(t.elts if isinstance(t, (ast.Tuple, ast.List)) else [t])
        elif isinstance(n, (ast.AugAssign, ast.AnnAssign)):
            targets = [n.target]
        elif isinstance(n, ast.Delete):
            targets = list(n.targets)
        elif isinstance(n, ast.Call) and isinstance(n.func, ast.Attribute) and n.func.attr in MUTATORS:
            r = root_name(n.func.value)
            if r and r not in f.locals and r != 'self':
                # module aliases: sys.stderr.write etc. are I/O, not state
                if r in f.module.imports:
                    continue
                out.append((r, unparse(n)[:70], n.lineno))
            continue
        for t in targets:
            if isinstance(t, ast.Name):
                continue
            r = root_name(t)
            if r and r not in f.locals and r != 'self':
                out.append((r, unparse(n)[:70], n.lineno))
    return out


def r_state(prog, tier):
    obs = []
    # ---- G1 inventory
    nfun = 0
    for f in prog.all_funcs():
        nfun += 1
        for n in walk_own(f.node):
            if isinstance(n, (ast.Global, ast.Nonlocal)):
                obs.append(Ob('R-STATE/G1', f.fq, 'no global statement', False, '`%s`' % unparse(n),
                              construct='global:' + unparse(n), line=n.lineno))
        for d in list(f.node.args.defaults) + [d for d in f.node.args.kw_defaults if d is not None]:
            mutable = isinstance(d, (ast.List, ast.Dict, ast.Set, ast.ListComp, ast.DictComp, ast.SetComp)) or \
                (isinstance(d, ast.Call) and unparse(d.func) in ('list', 'dict', 'set', 'defaultdict', 'Counter',
                                                                 'collections.defaultdict', 'collections.Counter'))
            if mutable:
                obs.append(Ob('R-STATE/G1', f.fq, 'no mutable default argument', False,
                              'default `%s` is created once and shared by every call' % unparse(d),
                              construct='default:' + unparse(d), line=d.lineno))
        for dec in f.node.decorator_list:
            dt = unparse(dec)
            if any(k in dt for k in ('lru_cache', 'functools.cache', 'cached_property', 'memoize', 'cache(')) or dt in ('cache',):
                obs.append(Ob('R-STATE/G1', f.fq, 'no memoising decorator', False,
                              '`@%s` keeps results between calls, keyed by object identity: after a tree is changed in place '
                              'the old result is returned' % dt, construct='decorator:' + dt, line=dec.lineno))
        for (r, text, line) in _global_writes(f):
            key = (f.fq, r)
            ok = key in ALLOWED_STATE
            obs.append(Ob('R-STATE/G1', f.fq, 'write to state that outlives the call (`%s`) is in the inventory' % text, ok,
                          'STATE table: ' + ALLOWED_STATE[key] if ok else
                          '`%s` is not a local: module-level, class-level or function-attribute state is written' % r,
                          construct='gwrite:%s:%s' % (r, text), line=line))
    # module level: no statement other than imports, defs, constant tables, docstrings
    for m in prog.modules.values():
        for st in m.tree.body:
            if isinstance(st, (ast.Import, ast.ImportFrom, ast.FunctionDef, ast.ClassDef, ast.Assign)):
                continue
            if isinstance(st, ast.Expr) and isinstance(st.value, ast.Constant):
                continue
            if isinstance(st, ast.If) and unparse(st.test) == "__name__ == '__main__'":
                continue
            obs.append(Ob('R-STATE/G1', m.name, 'module level holds only imports, definitions and constant tables', False,
                          '`%s`' % unparse(st)[:60], construct='modstmt:' + unparse(st)[:60], line=st.lineno))
    obs.append(Ob('R-STATE/G1', 'trees', 'inventory scan covered every function', True, '%d functions scanned' % nfun,
                  construct='g1-scan', nontrivial=False))
    # ---- G2 node ids never reach output
    for f in prog.all_funcs():
        for n in walk_own(f.node):
            if isinstance(n, ast.Attribute) and n.attr == 'id' and isinstance(n.ctx, ast.Load):
                ok = f.cls == 'Tree'
                obs.append(Ob('R-STATE/G2', f.fq, 'the process-wide node id is read only for identity (`%s`)' % unparse(n),
                              ok, 'inside class Tree' if ok else 'node id used outside Tree: results depend on how many '
                              'nodes were created before', construct='idread:' + unparse(n), line=n.lineno,
                              nontrivial=False))
            if isinstance(n, ast.Call) and isinstance(n.func, ast.Name) and n.func.id in ('id',) and n.func.id not in f.locals:
                obs.append(Ob('R-STATE/G2', f.fq, 'no use of object addresses', None, '`%s`: whether the address reaches any output '
                              'is not followed' % unparse(n),
                              construct='id():' + unparse(n), line=n.lineno))
    # ---- G3 terminal-file caches
    for nm in ('insert_terminals', 'substitute_terminals'):
        f = prog.func('transform', nm)
        cfg = f.cfg
        kw = f.kwarg
        fresh_test = None
        from ..core import _unique_assign
        fname_alias = ["%s['terminalfile']" % kw] + [nm2 for nm2 in f.locals if isinstance(_unique_assign(f, nm2), ast.AST)
                                                     and unparse(_unique_assign(f, nm2)) == "%s['terminalfile']" % kw]
        for n in cfg.eval_nodes():
            if n.kind == 'test' and not n.loops:
                parts = [norm_test(e, p) for (e, p) in split_assumes(n.ast, False)]
                want1 = ('opaque', "hasattr(%s, 'fn')" % nm, True)
                cmpok = any(p_[0] == 'cmp' and p_[2] == '==' and set((p_[1], p_[3])) == set(("%s.fn" % nm, a_))
                            for p_ in parts for a_ in fname_alias)
                if want1 in parts and cmpok and len(parts) == 2:
                    fresh_test = n
                # the same test with the absent attribute folded into a default: getattr(F, 'fn', <sentinel>) != file name
                gpref = "getattr(%s, 'fn', " % nm
                if len(parts) == 1 and parts[0][0] == 'cmp' and parts[0][2] == '==' and any(
                        (x_.startswith(gpref) and y_ in fname_alias) for (x_, y_) in
                        ((parts[0][1], parts[0][3]), (parts[0][3], parts[0][1]))):
                    fresh_test = n
        ok = fresh_test is not None and cfg.always_with(cfg.entry, fresh_test.id)
        if not ok:
            # positive evidence: the cached table is used although nothing compares the cached file name
            compares = any(('.fn' in unparse(n.ast) or "getattr(%s, 'fn'" % nm in unparse(n.ast)) and n.kind == 'test' for n in cfg.eval_nodes())
            ok = None if compares else False
        obs.append(Ob('R-STATE/G3', f.fq, 'the cached terminal file is reused only when the file name is unchanged', ok,
                      'reload unless hasattr(%s, \'fn\') and %s.fn == params[\'terminalfile\']' % (nm, nm) if ok else
                      'no unconditional freshness test `not hasattr(F, "fn") or F.fn != params["terminalfile"]`',
                      construct='g3-test', line=f.node.lineno))
        if fresh_test is None:
            continue
        # a statement is inside the reload block iff it cannot be reached when the freshness test is false
        fb = cfg.branch.get(fresh_test.id, {}).get(False)
        if fb is None:
            raise Unrecognised('%s: freshness test has no else path' % f.fq, partial=obs)
        reach_false = cfg.reach(fb) | {fb}
        from ..core import MUTATORS
        for n in cfg.eval_nodes():
            if n.kind != 'stmt':
                continue
            muts = []
            st = n.ast
            tg = []
            if isinstance(st, ast.Assign):
                tg = st.targets
            elif isinstance(st, ast.AugAssign):
                tg = [st.target]
            elif isinstance(st, ast.Delete):
                tg = st.targets
            for t in tg:
                if unparse(t).startswith('%s.terminals' % nm) or unparse(t) == '%s.fn' % nm:
                    muts.append(unparse(st)[:70])
            for sub in walk_own(st):
                if isinstance(sub, ast.Call) and isinstance(sub.func, ast.Attribute) and sub.func.attr in MUTATORS \
                        and unparse(sub.func.value).startswith('%s.terminals' % nm):
                    muts.append(unparse(sub)[:70])
            for mt in muts:
                inside = n.id not in reach_false
                obs.append(Ob('R-STATE/G3', f.fq, 'the cache is only written while (re)loading the file: `%s`' % mt, inside,
                              'inside the reload block' if inside else 'the cache is modified while trees are processed: '
                              'a later call with the same file sees a different table', construct='g3-mut:' + mt,
                              line=n.lineno))
        dels = [n for n in cfg.eval_nodes() if n.kind == 'stmt' and isinstance(n.ast, ast.Delete)]
        # a load that is given up with an error leaves nothing behind: the half-read table would be found under the file name
        stores_fn = [n for n in cfg.eval_nodes() if n.kind == 'stmt' and isinstance(n.ast, ast.Assign)
                     and unparse(n.ast.targets[0]) == '%s.fn' % nm]
        for r_ in [n for n in cfg.eval_nodes() if n.kind == 'stmt' and isinstance(n.ast, ast.Raise) and n.id not in reach_false]:
            if not stores_fn or not any(cfg.dominates(sf_.id, r_.id) for sf_ in stores_fn):
                continue
            dropped = [d_ for d_ in dels if unparse(d_.ast) in ('del %s.fn' % nm, 'del %s.terminals' % nm)
                       and (cfg.dominates(d_.id, r_.id) or _same_try(f, d_.ast, r_.ast))]
            helpers_drop = False
            for c_ in walk_own(f.node):
                if isinstance(c_, ast.Call):
                    t_ = prog.callee(c_, f)
                    g_ = prog.func(t_[0], t_[1], required=False) if t_ else None
                    if g_ is not None and any(isinstance(y_, ast.Delete) for y_ in walk_own(g_.node)):
                        helpers_drop = True
            if not dropped and not helpers_drop and not any(isinstance(t_, ast.Try) for t_ in walk_own(f.node)):
                obs.append(Ob('R-STATE/G3', f.fq, 'a load that fails leaves no cache behind', False,
                              '`%s` (line %d) gives the load up after `%s.fn` was set and part of the table filled, without '
                              '`del %s.terminals` / `del %s.fn`: the next call with the same file name skips loading and works '
                              'with the half-read table' % (unparse(r_.ast)[:40], r_.lineno, nm, nm, nm),
                              construct='g3-raise-keeps', line=r_.lineno))
        dt = [n for n in dels if unparse(n.ast) == 'del %s.terminals' % nm]
        df = [n for n in dels if unparse(n.ast) == 'del %s.fn' % nm]
        def _same_block(a_, b_):
            # two statements of one block (a `finally` clause, say) with nothing but deletions between them run together
            for blk in ast.walk(f.node):
                for fld in ('body', 'orelse', 'finalbody'):
                    lst = getattr(blk, fld, None)
                    if isinstance(lst, list) and a_ in lst and b_ in lst:
                        i_, j_ = sorted((lst.index(a_), lst.index(b_)))
                        return all(isinstance(x_, ast.Delete) for x_ in lst[i_:j_ + 1])
            return False
        for n in dt:
            ok = any((cfg.always_with(n.id, m.id) and cfg.always_with(m.id, n.id)) or _same_block(n.ast, m.ast) for m in df)
            obs.append(Ob('R-STATE/G3', f.fq, 'dropping the cached table also drops the cached file name', ok,
                          'paired with `del %s.fn`' % nm if ok else 'the file name stays cached: the next call with the '
                          'same file skips loading and finds no table', construct='g3-del', line=n.lineno))
    # ---- G5 determinism of written order
    for mod in ('treeoutput', 'grammaroutput', 'transitionoutput'):
        for f in sorted(prog.modules[mod].funcs.values(), key=lambda x: x.fq):
            for n in walk_own(f.node):
                if not isinstance(n, ast.For):
                    continue
                it = n.iter
                src = it
                if isinstance(it, ast.Name):
                    d = [v for (_, v) in name_defs(f, it.id) if isinstance(v, ast.AST)]
                    src = d[0] if len(d) == 1 else it
                txt = unparse(src)
                is_set = (isinstance(src, ast.Call) and unparse(src.func) in ('set', 'frozenset')) or \
                    isinstance(src, (ast.Set, ast.SetComp)) or \
                    (isinstance(src, ast.DictComp) and any(isinstance(g.iter, ast.BinOp) for g in src.generators)) or \
                    (isinstance(src, ast.BinOp) and isinstance(src.op, (ast.Sub, ast.BitAnd, ast.BitOr))
                     and any(nm in txt for nm in ('set(', 'lhses', 'rhses')))
                if not is_set:
                    continue
                writes = any(isinstance(x, ast.Call) and (unparse(x.func) == 'print' or unparse(x.func).endswith('.write'))
                             for b in n.body for x in ast.walk(b))
                if not writes:
                    continue
                ok = False
                why_ok = ''
                if f.fq in SET_FILE_OK:
                    # every write in the loop goes to the stream opened for the exempted file suffix
                    targets = set()
                    for b2 in n.body:
                        for x in ast.walk(b2):
                            if isinstance(x, ast.Call) and unparse(x.func) == 'print':
                                targets |= set(unparse(k.value) for k in x.keywords if k.arg == 'file')
                            elif isinstance(x, ast.Call) and unparse(x.func).endswith('.write'):
                                targets.add(unparse(x.func.value))
                    suffixes = set()
                    for w in walk_own(f.node):
                        if isinstance(w, ast.With):
                            for item in w.items:
                                if item.optional_vars is not None and unparse(item.optional_vars) in targets:
                                    for c2 in ast.walk(item.context_expr):
                                        if isinstance(c2, ast.Constant) and isinstance(c2.value, str):
                                            import re as _re2
                                            m2 = _re2.search(r'(\.[A-Za-z]+)$', c2.value)
                                            if m2 and (c2.value.startswith('.') or c2.value[:m2.start()] in ('%s', '{}', '%s%s')):
                                                suffixes.add(m2.group(1))
                    if suffixes and suffixes <= set(SET_FILE_OK[f.fq]):
                        ok = True
                        why_ok = 'SET table: %s files %s' % (f.fq, sorted(suffixes)) + ' - ' + SET_FILE_OK[f.fq][sorted(suffixes)[0]]
                    elif not suffixes:
                        ok = None
                        why_ok = 'which file the stream(s) %s belong to is not visible in a plain `with open(...) as`: the %s ' \
                                 'file may be written in set order, the others not' % (sorted(targets), sorted(SET_FILE_OK[f.fq]))
                obs.append(Ob('R-STATE/G5', f.fq, 'output lines are not written in set (hash) order: `for ... in %s`'
                              % unparse(it), ok, why_ok if ok else
                              'iteration over a set decides the order of written lines', construct='g5:' + f.fq,
                              line=n.lineno))
    for mod in ('treeoutput', 'grammaroutput', 'transitionoutput'):
        for f in sorted(prog.modules[mod].funcs.values(), key=lambda x: x.fq):
            for n in walk_own(f.node):
                if not isinstance(n, (ast.ListComp, ast.GeneratorExp)):
                    continue
                it = n.generators[0].iter
                src = it
                if isinstance(it, ast.Name):
                    d = [v for (_, v) in name_defs(f, it.id) if isinstance(v, ast.AST)]
                    src = d[0] if len(d) == 1 else it
                if isinstance(src, ast.Call) and unparse(src.func) in ('set', 'frozenset') or isinstance(src, (ast.Set, ast.SetComp)):
                    # order-insensitive consumers are fine
                    par = None
                    for x in ast.walk(f.node):
                        for c in ast.iter_child_nodes(x):
                            if c is n:
                                par = x
                    fn = unparse(par.func) if isinstance(par, ast.Call) else ''
                    if fn in ('sum', 'len', 'any', 'all', 'max', 'min', 'set', 'sorted', 'frozenset'):
                        continue
                    obs.append(Ob('R-STATE/G5', f.fq, 'what is written does not depend on set (hash) order: `%s`' % unparse(n)[:60],
                                  False, 'a list built by iterating a set is written out: the order of the items changes from '
                                  'run to run', construct='g5-comp:' + unparse(n)[:60], line=n.lineno))
    # ---- G7 nodes are not moved in set (hash) order
    g7 = 0
    for mod in ('transform', 'trees'):
        for f in sorted(prog.modules[mod].funcs.values(), key=lambda x: x.fq):
            for n in walk_own(f.node):
                if not isinstance(n, ast.For):
                    continue
                src = n.iter
                if isinstance(src, ast.Name):
                    d = [v for (_, v) in name_defs(f, src.id) if isinstance(v, ast.AST)]
                    src = d[0] if len(d) == 1 else src
                def _setlike(e):
                    if isinstance(e, (ast.Set, ast.SetComp)) or (isinstance(e, ast.Call) and unparse(e.func) in ('set', 'frozenset')):
                        return True
                    if isinstance(e, ast.BinOp) and isinstance(e.op, (ast.BitAnd, ast.BitOr, ast.Sub, ast.BitXor)):
                        keys = lambda x: isinstance(x, ast.Call) and isinstance(x.func, ast.Attribute) and x.func.attr == 'keys'
                        return _setlike(e.left) or _setlike(e.right) or (keys(e.left) and keys(e.right))
                    return False
                if not _setlike(src):
                    continue
                # text added to a node field piece by piece: the pieces come in the order of the set, and a set of strings
                # is ordered by string hashes, which differ from one process to the next
                grows = [x for b in n.body for x in ast.walk(b) if isinstance(x, ast.AugAssign) and isinstance(x.op, ast.Add)
                         and isinstance(x.target, ast.Subscript) and isinstance(x.target.value, ast.Attribute)
                         and x.target.value.attr == 'data']
                if grows:
                    g7 += 1
                    obs.append(Ob('R-STATE/G7', f.fq, 'what is added to a node field does not come in set (hash) order: `for %s in %s`'
                                  % (unparse(n.target), unparse(n.iter)[:50]), False,
                                  '`%s` appends to a field inside a loop over the set `%s`: when two elements touch the same node the '
                                  'pieces are joined in hash order - for strings that order changes with every run of the program'
                                  % (unparse(grows[0])[:50], unparse(src)[:50]), construct='g7-text:' + f.fq, line=n.lineno))
                body_txt = [unparse(b) for b in n.body]
                moves = any('.children.remove(' in t or '.children.append(' in t or '.children.insert(' in t or '.parent = ' in t
                            for t in body_txt)
                reads = any(isinstance(x, ast.If) and ('.children' in unparse(x.test) or 'children(' in unparse(x.test)
                                                       or '.parent' in unparse(x.test))
                            for b in n.body for x in ast.walk(b))
                if moves:
                    g7 += 1
                    obs.append(Ob('R-STATE/G7', f.fq, 'nodes are not re-attached in set (hash) order: `for %s in %s`'
                                  % (unparse(n.target), unparse(n.iter)), False if reads else None,
                                  'the loop moves nodes and tests the structure it is changing; it runs over a set of nodes, whose '
                                  'order follows the node ids - a process-wide counter: which node is moved first depends on how '
                                  'many nodes were created before this sentence' if reads else
                                  'nodes are moved in the order of a set of nodes (node ids); whether the moves commute is not decided',
                                  construct='g7:' + f.fq, line=n.lineno))
    obs.append(Ob('R-STATE/G7', 'package', 'scan for node moves driven by set iteration covered transform and trees', True,
                  '%d found' % g7, construct='g7-scan', nontrivial=False))
    # ---- G6 writer purity
    obs.extend(_writer_purity(prog))
    return obs, {}


def _writer_purity(prog):
    obs = []
    for f in sorted(prog.modules['treeoutput'].funcs.values(), key=lambda x: x.fq):
        cfg = f.cfg
        fresh = fresh_paths(prog, f)
        for d in data_events(prog, f):
            if d.kind != 'DATA' or d.keys is None:
                obs.append(Ob('R-STATE/G6', f.fq, 'writer stores into node fields with literal keys', None,
                              '`%s`' % unparse(d.ast)[:60], construct='g6?:' + unparse(d.ast)[:60],
                              line=cfg.nodes[d.node].lineno))
                continue
            for k in d.keys:
                if k not in CONTENT:
                    continue
                X = unparse(d.x)
                ok = False
                why = 'the writer changes `%s.data[%r]` of the tree it was given: writing the same tree again ' \
                      '(or with another writer) gives a different result' % (X, k)
                facts = [x[0] for x in facts_at(cfg, d.node)]
                tslots = [unparse(t_) for t_ in (d.ast.targets if isinstance(d.ast, ast.Assign) else [])
                          if isinstance(t_, ast.Subscript)]
                if ('none', "%s.data['%s']" % (X, k), True) in facts or any(('none', ts_, True) in facts for ts_ in tslots):
                    ok = True
                    why = '(i) None-defaulting: only an absent field is filled with the documented default'
                elif k == 'word' and any(fa == ('opaque', 'trees.has_children(%s)' % X, True) for fa in facts) \
                        and _hash_number(d.value):
                    ok = True
                    why = '(iii) export node reference #NNN on a constituent (constituents carry no word)'
                elif _restored(f, d, k) or _is_restore(f, d, k):
                    ok = True
                    why = '(iv) temporary: the original values are saved before and stored back after writing'
                verdict = True if ok else False
                if not ok:
                    # the original values are kept somewhere (list / dict of the same field read before the store) and
                    # the same field is stored again later: a save/restore in a shape this rule does not recognise
                    saved = False
                    for n2 in cfg.eval_nodes():
                        if n2.kind in ('stmt',) and n2.id != d.node and d.node in cfg.reach(n2.id) \
                                and not (n2.id in cfg.reach(d.node) and cfg.nodes[d.node].loops == n2.loops):
                            txt = unparse(n2.ast)
                            if ".data['%s']" % k in txt and (isinstance(n2.ast, ast.Assign) and not unparse(n2.ast.targets[0]).endswith(".data['%s']" % k)
                                                            or '.append(' in txt):
                                saved = True
                    later = [d2 for d2 in data_events(prog, f) if d2.node != d.node and d2.kind == 'DATA' and d2.keys and k in d2.keys
                             and (cfg.dominates(d.node, d2.node) or d.node in cfg.coreach(d2.node))]
                    if saved and later:
                        verdict = None
                        why = 'the field is saved before and stored again after writing, in a shape this rule does not recognise'
                    elif saved and isinstance(d.value, ast.AST):
                        # the store itself reads from a container that was filled with the same field: a restore
                        conts = set()
                        for n2 in cfg.eval_nodes():
                            if n2.kind == 'stmt' and ".data['%s']" % k in unparse(n2.ast):
                                if isinstance(n2.ast, ast.Expr) and isinstance(n2.ast.value, ast.Call) \
                                        and isinstance(n2.ast.value.func, ast.Attribute) and n2.ast.value.func.attr == 'append':
                                    conts.add(unparse(n2.ast.value.func.value))
                                elif isinstance(n2.ast, ast.Assign) and isinstance(n2.ast.targets[0], ast.Name):
                                    conts.add(n2.ast.targets[0].id)
                        rd = d.value.value if isinstance(d.value, ast.Subscript) else d.value
                        if isinstance(rd, ast.Name) and rd.id in conts:
                            verdict = True
                            why = '(iv) restores the value saved in `%s` before writing' % rd.id
                        elif isinstance(rd, ast.Name):
                            # the value is an element of such a container: `for t, w in saved: t.data[k] = w`
                            for (_, dv_) in name_defs(f, rd.id):
                                if isinstance(dv_, tuple) and len(dv_) > 1 and isinstance(dv_[1], ast.AST) \
                                        and set(x_.id for x_ in ast.walk(dv_[1]) if isinstance(x_, ast.Name)) & conts:
                                    verdict = None
                                    why = 'the stored value is taken out of `%s`, which was filled from the same field before writing: ' \
                                          'a save / restore in a shape this rule does not follow element by element' % \
                                          sorted(set(x_.id for x_ in ast.walk(dv_[1]) if isinstance(x_, ast.Name)) & conts)[0]
                obs.append(Ob('R-STATE/G6', f.fq, 'store `%s` keeps the tree\'s content as the writer found it'
                              % unparse(d.ast)[:70], verdict, why, construct='g6:%s:%s' % (k, unparse(d.ast)[:70]),
                              line=cfg.nodes[d.node].lineno))
        # replace_chars is only ever called with the documented bracket table
        for n in walk_own(f.node):
            if isinstance(n, ast.Call) and prog.callee(n, f) == ('trees', 'replace_chars'):
                ok = len(n.args) == 2 and unparse(n.args[1]) == 'trees.BRACKETS'
                obs.append(Ob('R-STATE/G6', f.fq, 'paren replacement uses the documented (idempotent) table', ok,
                              unparse(n), construct='g6-rc:' + unparse(n), line=n.lineno, nontrivial=False))
    for nm in prog.registry('grammaroutput', 'FORMATS'):
        f = prog.func('grammaroutput', nm)
        cfg = f.cfg
        for pn in f.params[:2]:
            for n in cfg.eval_nodes():
                if n.kind != 'stmt':
                    continue
                st = n.ast
                tg = []
                if isinstance(st, ast.Assign):
                    tg = st.targets
                elif isinstance(st, ast.AugAssign):
                    tg = [st.target]
                elif isinstance(st, ast.Delete):
                    tg = st.targets
                for t in tg:
                    if isinstance(t, ast.Subscript) and root_name(t) == pn:
                        # allowed if the name was rebound to a copy before
                        copies = [(m, v) for (m, v) in name_defs(f, pn) if isinstance(v, ast.AST)
                                  and cfg.dominates(m, n.id)]
                        ok = bool(copies)
                        obs.append(Ob('R-STATE/G6', f.fq, 'store `%s` does not change the caller\'s %s' %
                                      (unparse(st)[:60], 'grammar' if pn == f.params[0] else 'lexicon'), ok,
                                      '`%s` was rebound to a copy first (line %d)' % (pn, cfg.nodes[copies[0][0]].lineno)
                                      if ok else 'the argument itself is modified: a second write of the same grammar '
                                      'sees the additions of the first', construct='g6-gram:' + unparse(st)[:60],
                                      line=n.lineno))
    return obs


def _is_restore(f, d, k):
    """the store is itself the restoring one: for t, w in zip(L, W): t.data[k] = w with W a snapshot of
    the same field taken from the same list before."""
    cfg = f.cfg
    node = cfg.nodes[d.node]
    if not node.loops:
        return False
    head = cfg.nodes[node.loops[-1]]
    if head.kind != 'iter':
        return False
    from ..events import strip_copy
    it = strip_copy(head.ast.iter)
    if not (isinstance(it, ast.Call) and unparse(it.func) == 'zip' and len(it.args) == 2
            and isinstance(head.ast.target, ast.Tuple) and len(head.ast.target.elts) == 2):
        return False
    t, w = [unparse(x) for x in head.ast.target.elts]
    if unparse(d.ast) != "%s.data['%s'] = %s" % (t, k, w):
        return False
    L, W = unparse(strip_copy(it.args[0])), unparse(strip_copy(it.args[1]))
    for (n, v) in name_defs(f, W):
        if isinstance(v, ast.ListComp) and cfg.dominates(n, head.id):
            g = v.generators[0]
            if unparse(strip_copy(g.iter)) == L and not g.ifs and unparse(v.elt) == "%s.data['%s']" % (unparse(g.target), k):
                return True
    return False


def _restored(f, d, k):
    """store X.data[k] = ... in a loop over L; snapshot W = [t.data[k] for t in L] dominates it and a
    later loop `for t, w in zip(L, W): t.data[k] = w` post-dominates it."""
    cfg = f.cfg
    node = cfg.nodes[d.node]
    if not node.loops:
        return False
    from ..events import strip_copy
    head = cfg.nodes[node.loops[-1]]
    if head.kind != 'iter' or not isinstance(strip_copy(head.ast.iter), ast.Name):
        return False
    L = strip_copy(head.ast.iter).id
    snaps = []
    for n in cfg.eval_nodes():
        if n.kind == 'stmt' and isinstance(n.ast, ast.Assign) and isinstance(n.ast.value, ast.ListComp) \
                and isinstance(n.ast.targets[0], ast.Name) and cfg.dominates(n.id, head.id):
            lc = n.ast.value
            g = lc.generators[0]
            if unparse(strip_copy(g.iter)) == L and not g.ifs and unparse(lc.elt) == "%s.data['%s']" % (unparse(g.target), k):
                snaps.append(n.ast.targets[0].id)
    if not snaps:
        return False
    for n in cfg.eval_nodes():
        if n.kind == 'iter' and cfg.dominates(head.id, n.id) and n.id != head.id and cfg.postdominates(n.id, head.id):
            it = strip_copy(n.ast.iter)
            if isinstance(it, ast.Call) and unparse(it.func) == 'zip' and len(it.args) == 2 \
                    and unparse(strip_copy(it.args[0])) == L and unparse(strip_copy(it.args[1])) in snaps and isinstance(n.ast.target, ast.Tuple):
                t, w = [unparse(x) for x in n.ast.target.elts]
                for m in cfg.eval_nodes():
                    if m.kind == 'stmt' and n.id in m.loops and unparse(m.ast) == "%s.data['%s'] = %s" % (t, k, w) \
                            and cfg.in_every_iteration(n.id, m.id):
                        return True
    return False


# ------------------------------------------------------------------------------------ R-OPTSIDE

SIDE = {'treeinput': 'src_opts', 'grammarinput': 'src_opts',
        'treeoutput': 'dest_opts', 'grammaroutput': 'dest_opts', 'transitionoutput': 'dest_opts'}
OPTION_ATTRS = ('src_opts', 'dest_opts', 'params', 'transformparams', 'markov')


def r_optside(prog, tier):
    """Every reader the drivers dispatch to receives the --src-opts options, every writer the --dest-opts options."""
    obs = []
    n = 0
    for mod in ('transform', 'grammar', 'transitions', 'treeanalysis'):
        f = prog.func(mod, 'run')
        _ALIAS_FUNC[0] = f
        for x in walk_own(f.node):
            if not isinstance(x, ast.Call):
                continue
            d = _getattr_dispatch(x)
            if not d or d[0] not in f.module.aliases:
                continue
            target = f.module.aliases[d[0]]
            want = SIDE.get(target)
            if want is None:
                continue
            star = _starstar(x)
            if star is None:
                # no option dictionary at all: fine for a dispatch that never gets one; a sibling site of the same kind in
                # this function that does pass the options shows that this one dropped them
                sibs = [y for y in walk_own(f.node) if isinstance(y, ast.Call) and y is not x and _getattr_dispatch(y)
                        and _getattr_dispatch(y)[:2] == d[:2] and _starstar(y) is not None]
                if sibs:
                    obs.append(Ob('R-OPTSIDE', f.fq, 'dispatch `%s` receives the options of its own side' % unparse(x.func)[:60], False,
                                  'this %s call passes no options, the other call of the same kind in this function (line %d) passes '
                                  '`%s`: one of the two branches ignores --%s' % (
                                      'reader' if want == 'src_opts' else 'writer', sibs[0].lineno, _starstar(sibs[0])[:40],
                                      want.replace('_', '-')),
                                  construct='optside-none:%s' % unparse(x.func)[:60], line=x.lineno))
                continue
            n += 1
            got = [a for a in OPTION_ATTRS if 'args.%s' % a in star]
            if got == [want]:
                ok, why = True, 'options from --%s' % want.replace('_', '-')
            elif got and want not in got:
                ok = False
                why = 'the %s `%s` is handed the options of --%s; the command line gives its options with --%s, which are ' \
                      'silently ignored' % ('reader' if want == 'src_opts' else 'writer', unparse(x.func)[:50],
                                            got[0].replace('_', '-'), want.replace('_', '-'))
            else:
                ok, why = None, 'option dictionary `%s` not traced to a command line attribute' % star[:50]
            obs.append(Ob('R-OPTSIDE', f.fq, 'dispatch `%s` receives the options of its own side' % unparse(x.func)[:60],
                          ok, why, construct='optside:%s:%s' % (unparse(x.func)[:60], star[:40]), line=x.lineno))
    if n < 8:
        raise Unrecognised('R-OPTSIDE: %d dispatch sites with option dictionaries (at least 8 expected)' % n, partial=obs)
    return obs, {'dispatch_sites': n}


# ------------------------------------------------------------------------------------ R-PERTREE

def _chained_apply(prog):
    """In a loop that applies a sequence of transformations, each step works on the result of the step before:
    `x = step(x, ...)`.  `y = step(x, ...)` with x never re-bound in the loop applies every step to the original."""
    obs = []
    for mod in ('transform', 'transitions', 'grammar', 'treeanalysis'):
        f = prog.func(mod, 'run')
        cfg = f.cfg
        for lp in [n for n in cfg.eval_nodes() if n.kind == 'iter' and unparse(n.ast.iter) in ('args.trans', 'args.transform')]:
            for m in cfg.eval_nodes():
                if m.kind != 'stmt' or lp.id not in m.loops or not isinstance(m.ast, ast.Assign) or len(m.ast.targets) != 1 \
                        or not isinstance(m.ast.targets[0], ast.Name) or not isinstance(m.ast.value, ast.Call):
                    continue
                c = m.ast.value
                callee_txt = unparse(c.func)
                if not (callee_txt.startswith('globals()[') or callee_txt.startswith('getattr(transform')) or not c.args \
                        or not isinstance(c.args[0], ast.Name):
                    continue
                tgt, src = m.ast.targets[0].id, c.args[0].id
                if tgt == src:
                    ok, why = True, '`%s = step(%s, ...)`: each step gets the result of the one before' % (tgt, src)
                else:
                    rebound = any(lp.id in cfg.nodes[dn].loops for (dn, _) in name_defs(f, src))
                    ok = None if rebound else False
                    why = '`%s = step(%s, ...)`: `%s` is not re-bound in the loop, so every step is applied to the tree as it was read ' \
                          'and only the result of the last step is used - a step that returns a new root (add_topnode) or None ' \
                          '(a filter) is lost when another step follows' % (tgt, src, src)
                obs.append(Ob('R-PERTREE', f.fq, 'the transformations are applied one after the other', ok, why,
                              construct='chain:%s:%s' % (tgt, src), line=m.lineno))
    return obs


def r_pertree(prog, tier):
    """In the drivers' tree loops, what is done with a tree (task, extraction, oracle, writer) does not depend on the
    running sentence counter: a progress test like `cnt % 100 == 0` may guard the progress message only."""
    obs = []
    nsites = 0
    for mod in ('transform', 'grammar', 'transitions', 'treeanalysis'):
        f = prog.func(mod, 'run')
        cfg = f.cfg
        _ALIAS_FUNC[0] = f
        for lp in [n for n in cfg.eval_nodes() if n.kind == 'iter' and isinstance(n.ast.iter, ast.Call)]:
            d = _getattr_dispatch(lp.ast.iter)
            if not d or f.module.aliases.get(d[0]) != 'treeinput' or not isinstance(lp.ast.target, ast.Name):
                continue
            tv = lp.ast.target.id
            counters = set()
            for m in cfg.eval_nodes():
                if m.kind == 'stmt' and isinstance(m.ast, ast.AugAssign) and isinstance(m.ast.target, ast.Name) \
                        and lp.id in m.loops and unparse(m.ast.value) == '1':
                    counters.add(m.ast.target.id)
            for m in cfg.eval_nodes():
                if m.kind != 'stmt' or lp.id not in m.loops:
                    continue
                uses = [x for x in walk_own(m.ast) if isinstance(x, ast.Call) and any(
                    isinstance(a, ast.Name) and a.id == tv for a in x.args)
                    and unparse(x.func) not in ('print', 'len', 'str', 'repr')]
                if isinstance(m.ast, ast.Expr) and isinstance(m.ast.value, ast.Call) and any(
                        isinstance(a, ast.Name) and a.id == tv for a in m.ast.value.args):
                    uses = uses or [m.ast.value]
                if not uses:
                    continue
                nsites += 1
                bad = None
                for a in cfg.assumes_at(m.id):
                    if lp.id not in a.loops:
                        continue
                    names = set(x.id for x in ast.walk(a.ast) if isinstance(x, ast.Name))
                    if names & counters and tv not in names:
                        bad = a
                obs.append(Ob('R-PERTREE', f.fq, 'per-tree step `%s` does not depend on the sentence counter' % unparse(uses[0])[:60],
                              False if bad is not None else True,
                              'guarded by `%s%s`: only some sentences are processed' % ('' if bad.pol else 'not ', unparse(bad.ast))
                              if bad is not None else 'not under a condition on %s' % (sorted(counters) or 'a counter'),
                              construct='pertree:' + unparse(uses[0])[:60], line=m.lineno))
    if nsites < 4:
        raise Unrecognised('R-PERTREE: %d per-tree steps found in the drivers (at least 4 expected)' % nsites, partial=obs)
    obs.extend(_chained_apply(prog))
    return obs, {'per_tree_steps': nsites}
