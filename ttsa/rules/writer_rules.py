"""Writers: R-NONE, R-ESC, R-VOCAB, R-TABS, R-GUARD."""
import ast
import re

from ..core import (AnalysisError, Unrecognised, path, unparse, norm_test, facts_at, walk_own, split_assumes,
                    const_str, root_name, no_kill_between)
from ..events import name_defs, single_def, data_key
from ..report import Ob

NONE_FIELDS = ('lemma', 'morph', 'edge')


def _parents(func):
    parents = {}
    for n in ast.walk(func.node):
        for c in ast.iter_child_nodes(n):
            parents[c] = n
    return parents


def _defaulted(prog, f, X, fld, at):
    """Is `X.data[fld]` known not to be None at node `at`?  (a) a dominating
    `if X.data[fld] is None: X.data[fld] = <default>` block, (b) a dominating guard `... is not None`."""
    cfg = f.cfg
    slot = "%s.data['%s']" % (X, fld)
    for (fa, nid) in facts_at(cfg, at):
        if fa == ('none', slot, False) and no_kill_between(cfg, nid, at, [X]):
            return 'guarded by `%s`' % unparse(cfg.nodes[nid].ast)
    for n in cfg.eval_nodes():
        if n.kind != 'test' or not cfg.dominates(n.id, at) or n.id == at:
            continue
        if norm_test(n.ast, True) != ('none', slot, True):
            continue
        owner = n.owner
        if not isinstance(owner, ast.If) or owner.orelse:
            continue
        sets = [s for s in owner.body if isinstance(s, ast.Assign) and unparse(s.targets[0]) == slot
                and not (isinstance(s.value, ast.Constant) and s.value.value is None)]
        if sets and no_kill_between(cfg, n.id, at, [X]):
            return 'defaulted by `if %s: %s`' % (unparse(n.ast), unparse(sets[0]))
    return None


def r_none(prog, tier):
    obs = []
    funcs = sorted(prog.modules['treeoutput'].funcs.values(), key=lambda x: x.fq) + [prog.func('trees', 'get_label')]
    nuse = 0
    for f in funcs:
        cfg = f.cfg
        parents = _parents(f)
        for n in walk_own(f.node):
            if not (isinstance(n, ast.Subscript) and isinstance(n.value, ast.Attribute) and n.value.attr == 'data'
                    and isinstance(n.ctx, ast.Load)):
                continue
            keys = data_key(prog, f, n)
            if keys is None:
                continue
            flds = [k for k in keys if k in NONE_FIELDS]
            if not flds:
                continue
            X = unparse(n.value.value)
            p = parents.get(n)
            # the test `X.data[f] == None` / `is None` itself is not a use
            if isinstance(p, ast.Compare) and any(isinstance(c, ast.Constant) and c.value is None
                                                  for c in [p.left] + p.comparators):
                continue
            try:
                at = cfg.node_of(n)
            except AnalysisError:
                continue
            for fld in flds:
                nuse += 1
                why = _defaulted(prog, f, X, fld, at)
                if why is None:
                    # same boolean expression: X.data[f] is not None and X.data[f].startswith(...)
                    q = n
                    while q in parents and why is None:
                        pq = parents[q]
                        if isinstance(pq, ast.BoolOp) and isinstance(pq.op, ast.And):
                            idx = [i for i, v in enumerate(pq.values) if v is q or any(x is q for x in ast.walk(v))]
                            for v in pq.values[:idx[0] if idx else 0]:
                                for (ce, pol) in split_assumes(v, True):
                                    if norm_test(ce, pol) == ('none', "%s.data['%s']" % (X, fld), False):
                                        why = 'guarded in the same condition by `%s`' % unparse(ce)
                        if isinstance(pq, ast.stmt):
                            break
                        q = pq
                obs.append(Ob('R-NONE', f.fq, 'use of optional field `%s.data[%r]` happens after it was defaulted'
                              % (X, fld), why is not None, why or
                              'the field may be None here (bracket trees have no lemma, TIGER trees may lack morph/'
                              'lemma, API-built trees no edge): it is written as "None" or crashes the writer',
                              construct='none:%s:%s:%s' % (X, fld, unparse(parents.get(n, n))[:50]), line=n.lineno))
    return obs, {'optional_field_uses': nuse}


# ------------------------------------------------------------------------------------ R-ESC / R-VOCAB / R-TABS

def _fmt_args(call):
    """[(format string, [arg exprs])] for stream.write(FMT % ARGS) / write(FMT)."""
    if not call.args:
        return None
    a = call.args[0]
    if isinstance(a, ast.BinOp) and isinstance(a.op, ast.Mod) and const_str(a.left) is not None:
        args = list(a.right.elts) if isinstance(a.right, ast.Tuple) else [a.right]
        return const_str(a.left), args
    if const_str(a) is not None:
        return const_str(a), []
    return None


def r_esc(prog, tier):
    obs = []
    f = prog.func('treeoutput', 'tigerxml')
    cfg = f.cfg
    stream = f.params[1]
    nsinks = 0
    for n in walk_own(f.node):
        if not (isinstance(n, ast.Call) and unparse(n.func) == '%s.write' % stream):
            continue
        fa = _fmt_args(n)
        if fa is None:
            obs.append(Ob('R-ESC', f.fq, 'XML is written through literal format strings', False,
                          '`%s`' % unparse(n)[:60], construct='esc?:' + unparse(n)[:60], line=n.lineno))
            continue
        fmt, args = fa
        specs = re.findall(r'%[sdr]', fmt)
        if len(specs) != len(args):
            continue
        at = cfg.node_of(n)
        for spec, a in zip(specs, args):
            if spec != '%s':
                continue
            nsinks += 1
            ok, why = _escaped(prog, f, a, at)
            obs.append(Ob('R-ESC', f.fq, 'value `%s` written into XML is escaped' % unparse(a)[:50], ok, why,
                          construct='esc:' + unparse(a), line=n.lineno))
    # bracket writers: the token is written after paren replacement
    f = prog.func('treeoutput', 'write_brackets_subtree')
    cfg = f.cfg
    stream = f.params[1]
    found = 0
    for n in cfg.eval_nodes():
        if n.kind != 'stmt':
            continue
        for sub in walk_own(n.ast):
            if isinstance(sub, ast.Call) and unparse(sub.func) == '%s.write' % stream and "data['word']" in unparse(sub):
                found += 1
                X = None
                for s2 in ast.walk(sub):
                    if isinstance(s2, ast.Subscript) and unparse(s2).endswith(".data['word']"):
                        X = unparse(s2.value.value)
                ok = False
                for m in cfg.eval_nodes():
                    if m.kind == 'stmt' and cfg.dominates(m.id, n.id) and m.id != n.id:
                        for s3 in walk_own(m.ast):
                            if isinstance(s3, ast.Call) and prog.callee(s3, f) == ('trees', 'replace_chars') \
                                    and len(s3.args) == 2 and unparse(s3.args[0]) == X \
                                    and unparse(s3.args[1]) == 'trees.BRACKETS':
                                ok = True
                obs.append(Ob('R-ESC', f.fq, 'the token `%s.data[\'word\']` is written after its parentheses were '
                              'mapped to the documented names' % X, ok,
                              'dominated by trees.replace_chars(%s, trees.BRACKETS)' % X if ok else
                              'a token containing ( or ) is written verbatim into the bracketing',
                              construct='esc-brackets', line=n.lineno))
    if found == 0:
        raise Unrecognised('write_brackets_subtree writes no token')
    return obs, {'xml_string_sinks': nsinks}


def _escaped(prog, f, a, at):
    if isinstance(a, ast.Constant):
        return True, 'literal'
    if isinstance(a, ast.Call) and unparse(a.func) == 'quoteattr':
        return True, 'quoteattr(...)'
    if isinstance(a, ast.Subscript) and isinstance(a.value, ast.Name) and a.value.id in f.locals:
        # local table all of whose stores are quoteattr(...) values
        tbl = a.value.id
        stores = []
        for n in walk_own(f.node):
            if isinstance(n, ast.Assign) and isinstance(n.targets[0], ast.Subscript) \
                    and isinstance(n.targets[0].value, ast.Name) and n.targets[0].value.id == tbl:
                stores.append(n.value)
        if stores and all(isinstance(v, ast.Call) and unparse(v.func) == 'quoteattr' for v in stores):
            return True, 'entry of `%s`, which holds quoteattr(...) values only' % tbl
    if isinstance(a, ast.Name):
        d = single_def(f, a.id, at)
        if d and d[0] != 'param' and isinstance(d[1], ast.Call) and unparse(d[1].func) == 'quoteattr':
            return True, 'local bound to quoteattr(...)'
    if isinstance(a, ast.Subscript) and isinstance(a.value, ast.Attribute) and a.value.attr == 'data':
        # node field: every reaching store of it in this function must be quoteattr(...)
        slot = unparse(a)
        fld = const_str(a.slice)
        if fld in ('num', 'sid'):
            return True, 'integer field (node number / sentence id)'
        stores = []
        for n in walk_own(f.node):
            if isinstance(n, ast.Assign) and isinstance(n.targets[0], ast.Subscript) \
                    and unparse(n.targets[0].value) == unparse(a.value):
                ks = data_key(prog, f, n.targets[0])
                if ks and fld in ks:
                    stores.append(n.value)
        if stores and isinstance(stores[-1], ast.Call) and unparse(stores[-1].func) == 'quoteattr':
            return True, 'field was replaced by its quoteattr(...) form before'
        return False, 'node field written into an attribute value without quoteattr(): &, <, " break the XML'
    return False, 'not a literal and not passed through quoteattr()'


def _string_consts(prog, f):
    return [n.value for n in walk_own(f.node) if isinstance(n, ast.Constant) and isinstance(n.value, str)]


def r_vocab(prog, tier):
    obs = []
    w_elems, w_attrs = set(), set()
    for nm in ('tigerxml', 'tigerxml_begin', 'tigerxml_end'):
        f = prog.func('treeoutput', nm)
        for n in walk_own(f.node):
            if isinstance(n, ast.Call) and unparse(n.func).endswith('.write'):
                fa = _fmt_args(n)
                if not fa:
                    continue
                fmt, args = fa
                w_elems |= set(re.findall(r'<(\w+)', fmt))
                w_attrs |= set(re.findall(r'(\w+)=', fmt))
                if fmt.startswith('%s=') and args and const_str(args[0]):
                    w_attrs.add(const_str(args[0]))
    r_elems, r_attrs = set(), set()
    for nm in ('tigerxml_build_tree', 'tigerxml'):
        f = prog.func('treeinput', nm)
        for n in walk_own(f.node):
            if isinstance(n, ast.Call) and isinstance(n.func, ast.Attribute) and n.args and const_str(n.args[0]):
                if n.func.attr in ('find', 'findall', 'iter'):
                    r_elems.add(const_str(n.args[0]))
                elif n.func.attr == 'get':
                    r_attrs.add(const_str(n.args[0]))
    if len(r_elems) < 6 or len(r_attrs) < 6:
        raise Unrecognised('TIGER-XML reader vocabulary not found (%s / %s)' % (sorted(r_elems), sorted(r_attrs)))
    for e in sorted(r_elems):
        obs.append(Ob('R-VOCAB', 'treeoutput.tigerxml', 'element <%s> the reader looks for is written by the writer' % e,
                      e in w_elems, 'writer elements %s' % sorted(w_elems), construct='elem:' + e, nontrivial=False))
    for a in sorted(r_attrs):
        obs.append(Ob('R-VOCAB', 'treeoutput.tigerxml', 'attribute %s= the reader looks for is written by the writer' % a,
                      a in w_attrs, 'writer attributes %s' % sorted(w_attrs), construct='attr:' + a, nontrivial=False))
    # the reader reads each node field from the attribute the writer stores it in
    pairs_r = {}
    f = prog.func('treeinput', 'tigerxml_build_tree')
    for n in walk_own(f.node):
        if isinstance(n, ast.Assign) and isinstance(n.targets[0], ast.Subscript) and \
                unparse(n.targets[0].value).endswith('.data') and const_str(n.targets[0].slice):
            for s in ast.walk(n.value):
                if isinstance(s, ast.Call) and isinstance(s.func, ast.Attribute) and s.func.attr == 'get' \
                        and s.args and const_str(s.args[0]):
                    pairs_r[(const_str(n.targets[0].slice), unparse(s.func.value))] = const_str(s.args[0])
    pairs_w = {}
    f = prog.func('treeoutput', 'tigerxml')
    for n in walk_own(f.node):
        if isinstance(n, ast.Call) and unparse(n.func).endswith('.write'):
            fa = _fmt_args(n)
            if fa and fa[0].startswith('%s=') and len(fa[1]) == 2 and const_str(fa[1][0]):
                src = fa[1][1]
                fld = const_str(src.slice) if isinstance(src, ast.Subscript) else None
                if fld:
                    pairs_w[fld] = const_str(fa[1][0])
            elif fa:
                for m in re.finditer(r'(\w+)=%s', fa[0]):
                    idx = fa[0][:m.start()].count('%')
                    if idx < len(fa[1]):
                        s2 = unparse(fa[1][idx])
                        mm = re.search(r"data\['(\w+)'\]", s2)
                        if mm:
                            pairs_w.setdefault(mm.group(1) + '@' + m.group(1), m.group(1))
    for (fld, who), attr in sorted(pairs_r.items()):
        if fld in pairs_w:
            ok = pairs_w[fld] == attr
            obs.append(Ob('R-VOCAB', 'treeinput.tigerxml_build_tree', 'token field %r is read from the attribute the '
                          'writer stores it in' % fld, ok, 'reader %s=, writer %s=' % (attr, pairs_w[fld]),
                          construct='pair:' + fld, nontrivial=True))
    return obs, {}


def r_tabs(prog, tier):
    obs = []
    f = prog.func('treeoutput', 'export_tabs')
    rets = [n for n in walk_own(f.node) if isinstance(n, ast.Return)]
    if not rets:
        raise Unrecognised('export_tabs has no return')
    for r in rets:
        s = const_str(r.value) if r.value is not None else None
        ok = s is not None and re.match(r'^\t+$', s) is not None
        obs.append(Ob('R-TABS', f.fq, 'export fields are separated by at least one tab whatever their length: `%s`'
                      % unparse(r), ok, 'literal of %d tab(s)' % len(s) if ok else
                      'the separator is computed: for long fields it can be empty and two columns run together',
                      construct='tabs:' + unparse(r), line=r.lineno))
    return obs, {}


# ------------------------------------------------------------------------------------ R-GUARD

def r_guard(prog, tier):
    obs = []
    # ---- bracket writer refuses exactly the discontinuous trees
    f = prog.func('treeoutput', 'brackets')
    cfg = f.cfg
    tree = f.params[0]
    G = 'treeanalysis.gap_degree(%s)' % tree
    cont = [('cmp', G, '<=', '0'), ('cmp', G, '<', '1'), ('cmp', G, '==', '0'), ('cmp', '0', '==', G)]
    disc = [('cmp', '0', '<', G), ('cmp', '1', '<=', G), ('cmp', G, '!=', '0'), ('cmp', '0', '!=', G)]
    outs = []
    for n in cfg.eval_nodes():
        if n.kind == 'stmt':
            for sub in walk_own(n.ast):
                if isinstance(sub, ast.Call) and (prog.callee(sub, f) == ('treeoutput', 'write_brackets_subtree')
                                                  or unparse(sub.func) == '%s.write' % f.params[1]):
                    outs.append((n, sub))
    if not outs:
        raise Unrecognised('treeoutput.brackets writes nothing')
    for (n, sub) in outs:
        facts = [x[0] for x in facts_at(cfg, n.id)]
        ok = any(c in facts for c in cont)
        obs.append(Ob('R-GUARD/BRACKETS', f.fq, 'output `%s` happens only for a tree of gap degree 0' % unparse(sub)[:50],
                      ok, 'dominated by `not %s > 0`' % G if ok else
                      'a discontinuous tree (also a skipped one) reaches this write and comes out as a scrambled '
                      'bracketing', construct='guard-br:' + unparse(sub)[:50], line=n.lineno))
    raises = [n for n in cfg.eval_nodes() if n.kind == 'stmt' and isinstance(n.ast, ast.Raise)]
    ok = False
    for r in raises:
        facts = [x[0] for x in facts_at(cfg, r.id)]
        if any(d in facts for d in disc) and ('haskey', f.kwarg, 'brackets_skipdisco', False) in facts \
                and unparse(r.ast.exc).startswith('ValueError('):
            ok = True
    obs.append(Ob('R-GUARD/BRACKETS', f.fq, 'a discontinuous tree is refused with ValueError unless brackets_skipdisco '
                  'is given', ok, 'raise under gap degree > 0 and not skipdisco' if ok else 'no such raise',
                  construct='guard-br-raise', line=f.node.lineno))
    # ---- LoPar refuses non-context-free grammars before opening any file
    f = prog.func('grammaroutput', 'lopar')
    cfg = f.cfg
    G = f.params[0]
    tests = [n for n in cfg.eval_nodes() if n.kind == 'test'
             and norm_test(n.ast, True) == ('opaque', 'grammaranalysis.is_contextfree(%s)' % G, False)]
    ok = False
    why = 'no `if not grammaranalysis.is_contextfree(%s): raise`' % G
    if tests:
        t = tests[0]
        tr = [s for s in cfg.succ[t.id] if cfg.nodes[s].kind == 'assume' and cfg.nodes[s].pol is False]
        raises_ = tr and all(cfg.nodes[x].kind == 'stmt' and isinstance(cfg.nodes[x].ast, ast.Raise)
                             for s in tr for x in cfg.succ[s])
        opens = [n for n in cfg.eval_nodes() if n.kind == 'with']
        dom = opens and all(cfg.dominates(t.id, o.id) for o in opens)
        ok = bool(raises_ and dom and cfg.always_with(cfg.entry, t.id))
        why = 'the test dominates every open and its failing branch raises' if ok else \
            'test found but: raises %s, dominates all opens %s' % (bool(raises_), bool(dom))
    obs.append(Ob('R-GUARD/LOPAR', f.fq, 'a grammar that is not context-free is refused before anything is written', ok, why,
                  construct='guard-lopar', line=f.node.lineno))
    # ---- gap oracle
    f = prog.func('transitions', 'gap')
    cfg = f.cfg
    appends = []
    tvars = set()
    for n in cfg.eval_nodes():
        if n.kind == 'stmt' and isinstance(n.ast, ast.Assign) and isinstance(n.ast.value, ast.Call) \
                and unparse(n.ast.value.func) == 'Transition' and isinstance(n.ast.targets[0], ast.Name):
            tvars.add(n.ast.targets[0].id)
    for n in cfg.eval_nodes():
        if n.kind == 'stmt' and isinstance(n.ast, ast.Expr) and isinstance(n.ast.value, ast.Call) \
                and isinstance(n.ast.value.func, ast.Attribute) and n.ast.value.func.attr == 'append' \
                and len(n.ast.value.args) == 1:
            a0 = n.ast.value.args[0]
            if (isinstance(a0, ast.Name) and a0.id in tvars) or \
                    (isinstance(a0, ast.Call) and unparse(a0.func) == 'Transition'):
                appends.append(n)
    tdefs = {}
    for n in cfg.eval_nodes():
        if n.kind == 'stmt' and isinstance(n.ast, ast.Assign) and isinstance(n.ast.value, ast.Call) \
                and unparse(n.ast.value.func) == 'Transition' and n.ast.value.args:
            tdefs[n.id] = unparse(n.ast.value.args[0])
    outer = [n for n in cfg.eval_nodes() if n.kind == 'test' and isinstance(n.ast, ast.Constant) and not n.loops]
    breaks = [n for n in cfg.eval_nodes() if n.kind == 'stmt' and isinstance(n.ast, ast.Break)
              and len(n.loops) == 1]
    if len(outer) != 1 or len(breaks) != 1 or len(appends) < 4:
        raise Unrecognised('transitions.gap: main loop / break / transition emissions not found (%d/%d/%d)'
                            % (len(outer), len(breaks), len(appends)))
    brk = breaks[0]
    unary_app = []
    other_app = []
    for a in appends:
        # which Transition(...) text reaches it
        txt = None
        for nid, t in tdefs.items():
            if cfg.dominates(nid, a.id) and cfg.same_loop(nid, a.id) and not cfg.between(nid, a.id):
                txt = t
        (unary_app if txt and 'UNARY' in txt else other_app).append(a)
    if not unary_app:
        raise Unrecognised('transitions.gap emits no UNARY transition')
    closure_tests = set()
    for a in unary_app:
        inner = [cfg.nodes[l] for l in a.loops if l != outer[0].id]
        ok = bool(inner) and inner[-1].kind == 'test' and 'len(trees.children(' in unparse(inner[-1].ast) \
            and '== 1' in unparse(inner[-1].ast)
        if ok:
            closure_tests.add(inner[-1].id)
            # the loop advances: d[0] = d[0].parent in every iteration
            adv = any(m.kind == 'stmt' and isinstance(m.ast, ast.Assign) and isinstance(m.ast.targets[0], ast.Subscript)
                      and unparse(m.ast.value) == unparse(m.ast.targets[0]) + '.parent'
                      and cfg.in_every_iteration(inner[-1].id, m.id) for m in cfg.eval_nodes())
            ok = adv
        obs.append(Ob('R-GUARD/GAP', f.fq, 'UNARY transitions are emitted by a closure loop (one per stacked unary node)',
                      ok, 'inside `while %s` which climbs one node per iteration' % unparse(inner[-1].ast)[:70] if ok else
                      'the unary check is not a loop over the chain of unary parents: at most one UNARY per step',
                      construct='gap-closure', line=a.lineno))
    for a in other_app:
        ok = bool(closure_tests) and not cfg.can_reach(a.id, brk.id, avoid=closure_tests)
        obs.append(Ob('R-GUARD/GAP', f.fq, 'after emission at line %d the oracle cannot stop before the unary closure ran'
                      % a.lineno, ok, 'every path to `break` passes the closure loop' if ok else
                      'the termination test is reached before the unary check: unary nodes above the last item '
                      '(e.g. the root of a one-token sentence) get no transition',
                      construct='gap-order:%d' % other_app.index(a), line=a.lineno))
    # ---- top-down oracle: arity dispatch is exhaustive
    f = prog.func('transitions', 'topdown')
    cfg = f.cfg
    chv = None
    for n in cfg.eval_nodes():
        if n.kind == 'stmt' and isinstance(n.ast, ast.Assign) and isinstance(n.ast.value, ast.Call) \
                and prog.callee(n.ast.value, f) == ('trees', 'children') and n.loops and isinstance(n.ast.targets[0], ast.Name):
            lp = cfg.nodes[n.loops[-1]]
            if lp.kind == 'iter' and unparse(n.ast.value.args[0]) == unparse(lp.ast.target):
                chv = n.ast.targets[0].id
    ch = chv is not None
    LC = 'len(%s)' % chv
    apps = [n for n in cfg.eval_nodes() if n.kind == 'stmt' and isinstance(n.ast, ast.Expr) and isinstance(n.ast.value, ast.Call)
            and isinstance(n.ast.value.func, ast.Attribute) and n.ast.value.func.attr == 'append'
            and 'Transition(' in unparse(n.ast)]
    seen = {}
    for a in apps:
        for (fa, _) in facts_at(cfg, a.id):
            if fa[0] == 'cmp' and fa[1] == LC and fa[2] == '==' and fa[3] in ('0', '1', '2'):
                seen[fa[3]] = unparse(a.ast)
    kinds_ok = sorted(seen) == ['0', '1', '2'] and 'SHIFT' in seen['0'] and 'UNARY' in seen['1'] and 'BINARY' in seen['2']
    rz = [n for n in cfg.eval_nodes() if n.kind == 'stmt' and isinstance(n.ast, ast.Raise)
          and all(('cmp', LC, '!=', k) in [x[0] for x in facts_at(cfg, n.id)] for k in ('0', '1', '2'))]
    obs.append(Ob('R-GUARD/TOPDOWN', f.fq, 'arity 0/1/2 of the ordered children map to SHIFT/UNARY/BINARY, anything else '
                  'is refused', kinds_ok and bool(rz) and ch, 'exhaustive if/elif chain with final raise' if kinds_ok and rz and ch
                  else 'chain incomplete: %s, final raise %s, ordered children %s' % (seen, bool(rz), ch),
                  construct='topdown-arity', line=f.node.lineno))
    hs = False
    for n in walk_own(f.node):
        if isinstance(n, ast.IfExp) and unparse(n.test) == "%s[0].data['head']" % chv \
                and const_str(n.body) == 'LEFT' and const_str(n.orelse) == 'RIGHT':
            hs = True
    obs.append(Ob('R-GUARD/TOPDOWN', f.fq, 'head side is LEFT iff the first ordered child is the head', hs,
                  "'LEFT' if <ordered children>[0].data['head'] else 'RIGHT'" if hs else 'head side expression changed',
                  construct='topdown-side', line=f.node.lineno, nontrivial=False))
    # ---- binarization refuses unmarked trees before reading the mark
    f = prog.func('transform', '_binarize_tree')
    cfg = f.cfg
    reads = []
    for n in cfg.eval_nodes():
        for root in cfg.exprs(n.id):
            for sub in ast.walk(root):
                if isinstance(sub, ast.Subscript) and unparse(sub).endswith(".data['head']") and isinstance(sub.ctx, ast.Load):
                    reads.append((n, sub))
    if not reads:
        raise Unrecognised('_binarize_tree does not read head marks')
    for (n, sub) in reads:
        X = unparse(sub.value)
        facts = [x[0] for x in facts_at(cfg, n.id)]
        ok = ('haskey', X, 'head', True) in facts
        obs.append(Ob('R-GUARD/BINARIZE', f.fq, 'the head mark `%s` is read only after its presence was checked' % unparse(sub),
                      ok, 'dominated by the failure of `\'head\' not in %s` (which raises)' % X if ok else
                      'read without the presence check: an unmarked tree gives KeyError or is binarized arbitrarily',
                      construct='bin-head', line=n.lineno))
    # plain transition writer: pos option selects the second component
    f = prog.func('transitionoutput', 'plain')
    cfg = f.cfg
    sel = {}
    for n in cfg.eval_nodes():
        if n.kind == 'stmt' and isinstance(n.ast, ast.Assign):
            for sub in walk_own(n.ast):
                if isinstance(sub, ast.ListComp) and isinstance(sub.generators[0].target, ast.Tuple):
                    names = [unparse(x) for x in sub.generators[0].target.elts]
                    used = [x.id for x in ast.walk(sub.elt) if isinstance(x, ast.Name)]
                    facts = [x[0] for x in facts_at(cfg, n.id)]
                    pol = ('haskey', f.kwarg, 'pos', True) in facts
                    idx = [names.index(u) for u in used if u in names]
                    sel[pol] = idx
    ok = True if (sel.get(True) == [1] and sel.get(False) == [0]) else (False if (sel.get(True) == [0] or sel.get(False) == [1]) else None)
    obs.append(Ob('R-GUARD/PLAIN', f.fq, 'the sentence written is the words, or the POS tags with the pos option', ok,
                  'component 1 under `pos`, component 0 otherwise' if ok else 'selection %s' % sel,
                  construct='plain-pos', line=f.node.lineno))
    return obs, {}
