"""Writers: R-NONE, R-ESC, R-VOCAB, R-TABS, R-GUARD."""
import ast
import re

from ..core import (AnalysisError, Unrecognised, path, unparse, norm_test, facts_at, walk_own, split_assumes,
                    const_str, root_name, no_kill_between)
from ..events import name_defs, single_def, data_key
from ..report import Ob

NONE_FIELDS = ('lemma', 'morph', 'edge')


def _parents(func):
    parents = {}
    for n in ast.walk(func.node):
        for c in ast.iter_child_nodes(n):
            parents[c] = n
    return parents


def _defaulted(prog, f, X, fld, at):
    """Is `X.data[fld]` known not to be None at node `at`?  (a) a dominating
    `if X.data[fld] is None: X.data[fld] = <default>` block, (b) a dominating guard `... is not None`."""
    cfg = f.cfg
    slot = "%s.data['%s']" % (X, fld)
    for (fa, nid) in facts_at(cfg, at):
        if fa == ('none', slot, False) and no_kill_between(cfg, nid, at, [X]):
            return 'guarded by `%s`' % unparse(cfg.nodes[nid].ast)
    for n in cfg.eval_nodes():
        if n.kind != 'test' or not cfg.dominates(n.id, at) or n.id == at:
            continue
        if norm_test(n.ast, True) != ('none', slot, True):
            continue
        owner = n.owner
        if not isinstance(owner, ast.If) or owner.orelse:
            continue
        sets = [s for s in owner.body if isinstance(s, ast.Assign) and unparse(s.targets[0]) == slot
                and not (isinstance(s.value, ast.Constant) and s.value.value is None)]
        if sets and no_kill_between(cfg, n.id, at, [X]):
            return 'defaulted by `if %s: %s`' % (unparse(n.ast), unparse(sets[0]))
    return None


def r_none(prog, tier):
    from ..core import expr_guards
    obs = []
    funcs = sorted(prog.modules['treeoutput'].funcs.values(), key=lambda x: x.fq) + [prog.func('trees', 'get_label')]
    nuse = 0
    for f in funcs:
        cfg = f.cfg
        parents = _parents(f)
        for n in walk_own(f.node):
            if not (isinstance(n, ast.Subscript) and isinstance(n.value, ast.Attribute) and n.value.attr == 'data'
                    and isinstance(n.ctx, ast.Load)):
                continue
            keys = data_key(prog, f, n)
            if keys is None:
                continue
            flds = [k for k in keys if k in NONE_FIELDS]
            if not flds:
                continue
            X = unparse(n.value.value)
            p = parents.get(n)
            # the test `X.data[f] == None` / `is None` itself is not a use
            if isinstance(p, ast.Compare) and any(isinstance(c, ast.Constant) and c.value is None
                                                  for c in [p.left] + p.comparators):
                continue
            # `X.data[f] or DEFAULT` supplies the default itself
            if isinstance(p, ast.BoolOp) and isinstance(p.op, ast.Or) and p.values[0] is n and len(p.values) >= 2:
                continue
            try:
                at = cfg.node_of(n)
            except AnalysisError:
                continue
            for fld in flds:
                nuse += 1
                slot = "%s.data['%s']" % (X, fld)
                why = _defaulted(prog, f, X, fld, at)
                if why is None:
                    for g in expr_guards(f, n):
                        if g == ('none', slot, False) or g == ('truthy', slot, True):
                            why = 'guarded in the same expression'
                verdict = True if why is not None else False
                if why is None:
                    # anything that may have supplied the default in a form this rule does not model?
                    root = root_name(n.value.value)
                    stores = []
                    for m in cfg.eval_nodes():
                        if m.kind == 'stmt' and isinstance(m.ast, (ast.Assign, ast.AugAssign)) and (m.id == at or cfg.can_reach(m.id, at)):
                            for t in (m.ast.targets if isinstance(m.ast, ast.Assign) else [m.ast.target]):
                                if isinstance(t, ast.Subscript) and isinstance(t.value, ast.Attribute) and t.value.attr == 'data':
                                    ks = data_key(prog, f, t)
                                    same_node = unparse(t.value.value) == X or root_name(t.value.value) == root
                                    if (ks is None or fld in ks) and same_node:
                                        stores.append(m)
                                elif isinstance(t, ast.Attribute) and t.attr == 'data':
                                    stores.append(m)
                    opaque = prog.opaque_calls(f, [root] if root else [], before=at)
                    tests = [g for g in expr_guards(f, n) + [x[0] for x in facts_at(cfg, at)]
                             if fld in str(g) and g[0] in ('opaque', 'cmp', 'in')]
                    if stores or opaque or tests:
                        verdict = None
                        why = 'no recognised default, but %s may supply one' % (
                            'a store to the field' if stores else ('the call `%s`' % unparse(opaque[0][1])[:40] if opaque
                                                                    else 'the condition %s' % (tests[0],)))
                    if stores and not opaque:
                        # positive evidence after all: a run reaches the use without passing any of these stores and without
                        # passing a test that the field is not None
                        notnone = frozenset(a_.id for a_ in cfg.nodes if a_.kind == 'assume' and norm_test(a_.ast, a_.pol) in (
                            ('none', slot, False), ('truthy', slot, True)))
                        whole = frozenset(m_.id for m_ in stores if not (isinstance(m_.ast, ast.Assign) and any(
                            isinstance(t_, ast.Subscript) for t_ in m_.ast.targets)) )
                        avoid = frozenset(m_.id for m_ in stores) | notnone
                        if not whole and at in cfg.reach(cfg.entry, avoid=avoid) and all(
                                data_key(prog, f, t_) is not None for m_ in stores if isinstance(m_.ast, ast.Assign)
                                for t_ in m_.ast.targets if isinstance(t_, ast.Subscript)):
                            skipped = [unparse(a_.ast)[:40] for m_ in stores for a_ in cfg.assumes_at(m_.id)][:2]
                            verdict = False
                            why = 'the default for `%s` is stored only under %s; a run on which that does not hold reaches this use ' \
                                  'with the field still None' % (slot, skipped)
                obs.append(Ob('R-NONE', f.fq, 'use of optional field `%s.data[%r]` happens after it was defaulted'
                              % (X, fld), verdict, why or
                              'the field may be None here (bracket trees have no lemma, TIGER trees may lack morph/'
                              'lemma, API-built trees no edge): it is written as "None" or crashes the writer',
                              construct='none:%s:%s:%s' % (X, fld, unparse(parents.get(n, n))[:50]), line=n.lineno))
    return obs, {'optional_field_uses': nuse}


# ------------------------------------------------------------------------------------ R-ESC / R-VOCAB / R-TABS

def _fmt_of(a):
    """(format string with %s/%d/%r specs, [arg exprs]) for  FMT % ARGS | FMT | FMT.format(ARGS) | f-string."""
    if isinstance(a, ast.BinOp) and isinstance(a.op, ast.Mod) and const_str(a.left) is not None:
        args = list(a.right.elts) if isinstance(a.right, ast.Tuple) else [a.right]
        return const_str(a.left), args
    if const_str(a) is not None:
        return const_str(a), []
    if isinstance(a, ast.Call) and isinstance(a.func, ast.Attribute) and a.func.attr == 'format' \
            and const_str(a.func.value) is not None and not a.keywords:
        fmt = const_str(a.func.value)
        if re.sub(r'\{\}', '', fmt).count('{') == 0 and fmt.count('{}') == len(a.args):
            return fmt.replace('%', '%%').replace('{}', '%s'), list(a.args)
        if all(re.fullmatch(r'\{(\d*)(:[sd])?\}', m) for m in re.findall(r'\{[^}]*\}', fmt)):
            specs = re.findall(r'\{(\d*)(?::([sd]))?\}', fmt)
            if all(x[0] == '' for x in specs) and len(specs) == len(a.args):
                out = re.sub(r'\{(\d*)(?::([sd]))?\}', lambda m: '%' + (m.group(2) or 's'), fmt.replace('%', '%%'))
                return out, list(a.args)
        return None
    if isinstance(a, ast.JoinedStr):
        fmt = ''
        args = []
        for x in a.values:
            if isinstance(x, ast.Constant):
                fmt += str(x.value).replace('%', '%%')
            elif isinstance(x, ast.FormattedValue):
                spec = 's'
                if x.format_spec is not None:
                    t = const_str(x.format_spec.values[0]) if len(x.format_spec.values) == 1 else None
                    if t in ('d', 's'):
                        spec = t
                    else:
                        return None
                fmt += '%' + spec
                args.append(x.value)
        return fmt, args
    if isinstance(a, ast.BinOp) and isinstance(a.op, ast.Add):
        l, r = _fmt_of(a.left), _fmt_of(a.right)
        if l is not None and r is not None:
            return l[0] + r[0], l[1] + r[1]
    return None


def _fmt_args(call):
    """[(format string, [arg exprs])] for stream.write(FMT % ARGS) / write(FMT) and equivalent spellings."""
    if not call.args:
        return None
    return _fmt_of(call.args[0])


def _raw_field_reads(e):
    """`X.data[...]` loads inside e that are not inside a quoteattr(...) call."""
    out = []

    def walk(n, quoted):
        if isinstance(n, ast.Call) and unparse(n.func) in ('quoteattr', 'saxutils.quoteattr', 'xml.sax.saxutils.quoteattr',
                                                          'escape', 'saxutils.escape'):
            quoted = True
        if isinstance(n, ast.Subscript) and isinstance(n.value, ast.Attribute) and n.value.attr == 'data' and not quoted:
            if const_str(n.slice) not in ('num', 'sid'):
                out.append(n)
        for c in ast.iter_child_nodes(n):
            walk(c, quoted)
    walk(e, False)
    return out


def _is_quote(v):
    return isinstance(v, ast.Call) and unparse(v.func) in ('quoteattr', 'saxutils.quoteattr', 'xml.sax.saxutils.quoteattr')


def r_esc(prog, tier):
    obs = []
    f = prog.func('treeoutput', 'tigerxml')
    cfg = f.cfg
    stream = f.params[1]
    nsinks = 0
    for n in walk_own(f.node):
        if not (isinstance(n, ast.Call) and unparse(n.func) == '%s.write' % stream):
            continue
        fa = _fmt_args(n)
        if fa is None or len(re.findall(r'%[sdr]', fa[0].replace('%%', ''))) != len(fa[1]):
            raw = _raw_field_reads(n)
            obs.append(Ob('R-ESC', f.fq, 'XML is written through literal format strings', False if raw else None,
                          ('node field `%s` written without quoteattr()' % unparse(raw[0])) if raw else
                          'format of `%s` not recognised' % unparse(n)[:60], construct='esc?:' + unparse(n)[:60], line=n.lineno))
            continue
        fmt, args = fa
        specs = re.findall(r'%[sdr]', fmt.replace('%%', ''))
        at = cfg.node_of(n)
        for spec, a in zip(specs, args):
            if spec != '%s':
                continue
            nsinks += 1
            ok, why = _escaped(prog, f, a, at)
            obs.append(Ob('R-ESC', f.fq, 'value `%s` written into XML is escaped' % unparse(a)[:50], ok, why,
                          construct='esc:' + unparse(a), line=n.lineno))
    # bracket writers: the token is written after paren replacement
    f = prog.func('treeoutput', 'write_brackets_subtree')
    cfg = f.cfg
    stream = f.params[1]
    found = 0
    for n in cfg.eval_nodes():
        if n.kind != 'stmt':
            continue
        for sub in walk_own(n.ast):
            if isinstance(sub, ast.Call) and unparse(sub.func) == '%s.write' % stream and "data['word']" in unparse(sub):
                found += 1
                X = None
                for s2 in ast.walk(sub):
                    if isinstance(s2, ast.Subscript) and unparse(s2).endswith(".data['word']"):
                        X = unparse(s2.value.value)
                ok = False
                anywhere = False
                for m in cfg.eval_nodes():
                    for root in cfg.exprs(m.id):
                        for s3 in ast.walk(root):
                            if isinstance(s3, ast.Call) and prog.callee(s3, f) == ('trees', 'replace_chars'):
                                anywhere = True
                                if m.kind == 'stmt' and cfg.dominates(m.id, n.id) and m.id != n.id \
                                        and len(s3.args) == 2 and unparse(s3.args[0]) == X \
                                        and unparse(s3.args[1]) == 'trees.BRACKETS':
                                    ok = True
                verdict = True if ok else False
                if not ok and (anywhere or prog.opaque_calls(f, [root_name(ast.parse(X, mode='eval').body)] if X else [], before=n.id)
                               or 'replace' in unparse(sub)):
                    verdict = None
                obs.append(Ob('R-ESC', f.fq, 'the token `%s.data[\'word\']` is written after its parentheses were '
                              'mapped to the documented names' % X, verdict,
                              'dominated by trees.replace_chars(%s, trees.BRACKETS)' % X if ok else
                              ('a token containing ( or ) is written verbatim into the bracketing' if verdict is False else
                               'the replacement is done in a form this rule does not model'),
                              construct='esc-brackets', line=n.lineno))
    # the label of a token is written after the replacement as well (the replacement covers every field of the token)
    rc = [m for m in cfg.eval_nodes() if m.kind == 'stmt' and any(
        isinstance(x, ast.Call) and prog.callee(x, f) == ('trees', 'replace_chars') for x in walk_own(m.ast))]
    if rc:
        r0 = rc[0]
        same_branch = [x[0] for x in facts_at(cfg, r0.id)]
        for m in cfg.eval_nodes():
            if m.kind != 'stmt' or m.id == r0.id:
                continue
            for sub in walk_own(m.ast):
                if isinstance(sub, ast.Call) and unparse(sub.func) == '%s.write' % stream and any(
                        isinstance(y, ast.Call) and prog.callee(y, f) == ('trees', 'get_label') for y in ast.walk(sub)):
                    if [x[0] for x in facts_at(cfg, m.id)] != same_branch:
                        continue            # the label of a constituent: another branch
                    after = cfg.dominates(r0.id, m.id)
                    before = cfg.dominates(m.id, r0.id)
                    obs.append(Ob('R-ESC', f.fq, 'the label of a token is written after its parentheses were mapped', True if after else
                                  (False if before else None), 'written after trees.replace_chars(...)' if after else
                                  'the label is written BEFORE trees.replace_chars(...) in the same branch: a tag or function '
                                  'containing a parenthesis goes out verbatim', construct='esc-brackets-label', line=m.lineno))
        # ... also when the label is computed into a local first: what counts is where get_label is evaluated
        for m in cfg.eval_nodes():
            if m.kind != 'stmt' or m.id == r0.id or [x[0] for x in facts_at(cfg, m.id)] != same_branch:
                continue
            for sub in walk_own(m.ast):
                if isinstance(sub, ast.Call) and unparse(sub.func) == '%s.write' % stream and len(sub.args) == 1 \
                        and isinstance(sub.args[0], ast.Name) and cfg.dominates(r0.id, m.id):
                    for (dn, dv) in name_defs(f, sub.args[0].id):
                        if isinstance(dv, ast.AST) and any(isinstance(y, ast.Call) and prog.callee(y, f) == ('trees', 'get_label')
                                                           for y in ast.walk(dv)):
                            early = cfg.dominates(dn, r0.id) and dn != r0.id
                            obs.append(Ob('R-ESC', f.fq, 'the label of a token is computed after its parentheses were mapped',
                                          False if early else (True if cfg.dominates(r0.id, dn) else None),
                                          '`%s = %s` (line %d) is evaluated before trees.replace_chars(...): the tag or function of a '
                                          'token is written with its parentheses' % (sub.args[0].id, unparse(dv)[:40], cfg.nodes[dn].lineno)
                                          if early else 'evaluated after the mapping', construct='esc-brackets-label-local',
                                          line=cfg.nodes[dn].lineno))
    if found == 0:
        raise Unrecognised('write_brackets_subtree writes no token', partial=obs)
    return obs, {'xml_string_sinks': nsinks}


def _plain_escape_of_field(a):
    """escape(<node field>) with no entity table: &, <, > are replaced, the double quote is not"""
    for n in ast.walk(a):
        if isinstance(n, ast.Call) and unparse(n.func) in ('escape', 'saxutils.escape', 'xml.sax.saxutils.escape') \
                and len(n.args) == 1 and not n.keywords:
            if any(isinstance(x, ast.Subscript) and isinstance(x.value, ast.Attribute) and x.value.attr == 'data'
                   and const_str(x.slice) not in ('num', 'sid') for x in ast.walk(n.args[0])):
                return n
    return None


def _escaped(prog, f, a, at, depth=0):
    if isinstance(a, ast.Constant):
        return True, 'literal'
    if _is_quote(a):
        return True, 'quoteattr(...)'
    pe = _plain_escape_of_field(a)
    if pe is not None:
        return False, '`%s` goes into an attribute value: escape() without an entity table leaves the double quote as it is, ' \
                      'a `"` in the field ends the attribute (quoteattr() picks the quoting)' % unparse(pe)[:60]
    if isinstance(a, ast.Subscript) and isinstance(a.value, ast.Name) and a.value.id in f.locals:
        # local table all of whose stores are quoteattr(...) values
        tbl = a.value.id
        stores = []
        for n in walk_own(f.node):
            if isinstance(n, ast.Assign) and isinstance(n.targets[0], ast.Subscript) \
                    and isinstance(n.targets[0].value, ast.Name) and n.targets[0].value.id == tbl:
                stores.append(n.value)
            if isinstance(n, ast.Assign) and isinstance(n.targets[0], ast.Name) and n.targets[0].id == tbl:
                if isinstance(n.value, ast.DictComp):
                    stores.append(n.value.value)
                elif isinstance(n.value, ast.Dict):
                    stores.extend(n.value.values)
                elif isinstance(n.value, ast.Call) and unparse(n.value.func) == 'dict' and not n.value.args:
                    stores.extend(k.value for k in n.value.keywords)
                else:
                    stores.append(n.value)
        if stores and all(_is_quote(v) for v in stores):
            return True, 'entry of `%s`, which holds quoteattr(...) values only' % tbl
        for v in stores:
            pe = _plain_escape_of_field(v)
            if pe is not None:
                return False, 'entry of `%s`, which receives `%s`: escape() without an entity table leaves the double quote ' \
                              'as it is' % (tbl, unparse(pe)[:50])
        raw = [r for v in stores for r in _raw_field_reads(v)]
        if raw:
            return False, 'entry of `%s`, which receives the node field `%s` without quoteattr()' % (tbl, unparse(raw[0]))
        return None, 'entries of `%s` not all recognised' % tbl
    if isinstance(a, ast.Name):
        from ..values import value_cases
        cs = value_cases(f, a.id, at) if a.id in f.locals else []
        if cs and all(c.kind == 'value' for c in cs) and depth < 3:
            res = [_escaped(prog, f, c.value, c.node, depth + 1) for c in cs]
            if all(r[0] is True for r in res):
                return True, 'local bound to %s' % res[0][1]
            bad = [r for r in res if r[0] is False]
            if bad:
                return False, bad[0][1]
        return None, 'origin of `%s` not recognised' % a.id
    if isinstance(a, ast.Subscript) and isinstance(a.value, ast.Attribute) and a.value.attr == 'data':
        # node field: every reaching store of it in this function must be quoteattr(...)
        fld = const_str(a.slice)
        if fld in ('num', 'sid'):
            return True, 'integer field (node number / sentence id)'
        stores = []
        for n in walk_own(f.node):
            if isinstance(n, ast.Assign) and isinstance(n.targets[0], ast.Subscript) \
                    and unparse(n.targets[0].value) == unparse(a.value):
                ks = data_key(prog, f, n.targets[0])
                if ks is None or fld in ks:
                    stores.append(n.value)
        if stores and _is_quote(stores[-1]):
            return True, 'field was replaced by its quoteattr(...) form before'
        if stores and not all(isinstance(v, ast.Constant) or unparse(v).startswith('trees.DEFAULT_') for v in stores):
            return None, 'the field is rewritten before in a form this rule does not model'
        return False, 'node field written into an attribute value without quoteattr(): &, <, " break the XML'
    raw = _raw_field_reads(a)
    if raw:
        return False, 'node field `%s` reaches the XML without quoteattr()' % unparse(raw[0])
    return None, 'neither a literal nor a recognised quoteattr() value'


def _string_consts(prog, f):
    return [n.value for n in walk_own(f.node) if isinstance(n, ast.Constant) and isinstance(n.value, str)]


def r_vocab(prog, tier):
    obs = []
    w_elems, w_attrs = set(), set()
    w_open = False
    todo = [prog.func('treeoutput', nm) for nm in ('tigerxml', 'tigerxml_begin', 'tigerxml_end')]
    seen_f = set()
    while todo:
        f = todo.pop()
        if f.fq in seen_f:
            continue
        seen_f.add(f.fq)
        for n in walk_own(f.node):
            if isinstance(n, ast.Call):
                c_ = prog.callee(n, f)
                if c_ and c_[0] == 'treeoutput' and c_[1] not in ('tigerxml', 'tigerxml_begin', 'tigerxml_end'):
                    g_ = prog.func(c_[0], c_[1], required=False)
                    if g_ is not None:
                        todo.append(g_)         # a worker of the writer: its writes are the writer's
                elif isinstance(n.func, ast.Name) and n.func.id in f.locals:
                    w_open = True               # a local / nested function may write as well
        for n in walk_own(f.node):
            if isinstance(n, ast.Call) and unparse(n.func).endswith('.write'):
                fa = _fmt_args(n)
                if not fa:
                    w_open = True          # something is written whose text this rule cannot see
                    continue
                fmt, args = fa
                w_elems |= set(re.findall(r'<(\w+)', fmt))
                w_attrs |= set(re.findall(r'(\w+)=', fmt))
                for m in re.finditer(r'(<|\b)?%s=', fmt):
                    idx = len(re.findall(r'%[sdr]', fmt[:m.start()].replace('%%', '')))
                    if idx < len(args) and const_str(args[idx]):
                        w_attrs.add(const_str(args[idx]))
                    else:
                        w_open = True      # attribute name computed at run time
                if re.search(r'<%s', fmt):
                    w_open = True
    r_elems, r_attrs = set(), set()
    for nm in ('tigerxml_build_tree', 'tigerxml'):
        f = prog.func('treeinput', nm)
        for n in walk_own(f.node):
            if isinstance(n, ast.Call) and isinstance(n.func, ast.Attribute) and n.args and const_str(n.args[0]):
                if n.func.attr in ('find', 'findall', 'iter'):
                    r_elems.add(const_str(n.args[0]))
                elif n.func.attr == 'get':
                    r_attrs.add(const_str(n.args[0]))
    if len(r_elems) < 6 or len(r_attrs) < 6:
        raise Unrecognised('TIGER-XML reader vocabulary not found (%s / %s)' % (sorted(r_elems), sorted(r_attrs)), partial=obs)
    for e in sorted(r_elems):
        obs.append(Ob('R-VOCAB', 'treeoutput.tigerxml', 'element <%s> the reader looks for is written by the writer' % e,
                      True if e in w_elems else (None if w_open else False), 'writer elements %s' % sorted(w_elems),
                      construct='elem:' + e, nontrivial=False))
    for a in sorted(r_attrs):
        obs.append(Ob('R-VOCAB', 'treeoutput.tigerxml', 'attribute %s= the reader looks for is written by the writer' % a,
                      True if a in w_attrs else (None if w_open else False), 'writer attributes %s' % sorted(w_attrs),
                      construct='attr:' + a, nontrivial=False))
    # the reader reads each node field from the attribute the writer stores it in
    pairs_r = {}
    f = prog.func('treeinput', 'tigerxml_build_tree')
    for n in walk_own(f.node):
        if isinstance(n, ast.Assign) and isinstance(n.targets[0], ast.Subscript) and \
                unparse(n.targets[0].value).endswith('.data') and const_str(n.targets[0].slice):
            for s in ast.walk(n.value):
                if isinstance(s, ast.Call) and isinstance(s.func, ast.Attribute) and s.func.attr == 'get' \
                        and s.args and const_str(s.args[0]):
                    pairs_r[(const_str(n.targets[0].slice), unparse(s.func.value))] = const_str(s.args[0])
    pairs_w = {}
    f = prog.func('treeoutput', 'tigerxml')
    for n in walk_own(f.node):
        if isinstance(n, ast.Call) and unparse(n.func).endswith('.write'):
            fa = _fmt_args(n)
            if fa and fa[0].startswith('%s=') and len(fa[1]) == 2 and const_str(fa[1][0]):
                src = fa[1][1]
                fld = const_str(src.slice) if isinstance(src, ast.Subscript) else None
                if fld:
                    pairs_w[fld] = const_str(fa[1][0])
            elif fa:
                for m in re.finditer(r'(\w+)=%s', fa[0]):
                    idx = fa[0][:m.start()].count('%')
                    if idx < len(fa[1]):
                        s2 = unparse(fa[1][idx])
                        mm = re.search(r"data\['(\w+)'\]", s2)
                        if mm:
                            pairs_w.setdefault(mm.group(1) + '@' + m.group(1), m.group(1))
    for (fld, who), attr in sorted(pairs_r.items()):
        if fld in pairs_w:
            ok = pairs_w[fld] == attr
            obs.append(Ob('R-VOCAB', 'treeinput.tigerxml_build_tree', 'token field %r is read from the attribute the '
                          'writer stores it in' % fld, ok, 'reader %s=, writer %s=' % (attr, pairs_w[fld]),
                          construct='pair:' + fld, nontrivial=True))
    return obs, {}


def _ifexp_leaves(e):
    """the integer constants a (nested) conditional expression can evaluate to, or None"""
    if isinstance(e, ast.Constant) and isinstance(e.value, int) and not isinstance(e.value, bool):
        return [e.value]
    if isinstance(e, ast.IfExp):
        a, b = _ifexp_leaves(e.body), _ifexp_leaves(e.orelse)
        if a is not None and b is not None:
            return a + b
    return None


def r_tabs(prog, tier):
    obs = []
    f = prog.func('treeoutput', 'export_tabs')
    rets = [n for n in walk_own(f.node) if isinstance(n, ast.Return)]
    if not rets:
        raise Unrecognised('export_tabs has no return', partial=obs)
    for r in rets:
        v = r.value
        s = const_str(v) if v is not None else None
        ok = s is not None and re.match(r'^\t+$', s) is not None
        verdict = True if ok else None
        why = 'literal of %d tab(s)' % len(s) if ok else 'separator expression not recognised'
        if not ok and s is not None:
            verdict, why = False, 'the separator %r is not a run of tabs' % s
        if not ok and isinstance(v, ast.BinOp) and isinstance(v.op, ast.Mult):
            tab, k = (v.left, v.right) if const_str(v.left) is not None else (v.right, v.left)
            if const_str(tab) == '\t':
                if isinstance(k, ast.Constant) and isinstance(k.value, int):
                    verdict = k.value >= 1
                    why = '%d tab(s)' % k.value
                elif _ifexp_leaves(k) is not None:
                    leaves = _ifexp_leaves(k)
                    verdict = min(leaves) >= 1
                    why = 'the number of tabs is one of %s' % sorted(set(leaves))
                elif 'max(' in unparse(k):
                    verdict, why = None, 'computed number of tabs with a lower bound: not evaluated'
                else:
                    verdict, why = False, 'the number of tabs `%s` is computed from the field length without a lower ' \
                                          'bound: for long fields it is zero and two columns run together' % unparse(k)
        obs.append(Ob('R-TABS', f.fq, 'export fields are separated by at least one tab whatever their length: `%s`'
                      % unparse(r), verdict, why, construct='tabs:' + unparse(r), line=r.lineno))
    return obs, {}


# ------------------------------------------------------------------------------------ R-GUARD

def r_guard(prog, tier):
    obs = []

    def _sec_brackets():
        # ---- bracket writer refuses exactly the discontinuous trees
        f = prog.func('treeoutput', 'brackets')
        cfg = f.cfg
        tree = f.params[0]
        G = 'treeanalysis.gap_degree(%s)' % tree
        cont = [('cmp', G, '<=', '0'), ('cmp', G, '<', '1'), ('cmp', G, '==', '0'), ('cmp', '0', '==', G)]
        disc = [('cmp', '0', '<', G), ('cmp', '1', '<=', G), ('cmp', G, '!=', '0'), ('cmp', '0', '!=', G)]
        outs = []
        for n in cfg.eval_nodes():
            if n.kind == 'stmt':
                for sub in walk_own(n.ast):
                    if isinstance(sub, ast.Call) and (prog.callee(sub, f) == ('treeoutput', 'write_brackets_subtree')
                                                      or unparse(sub.func) == '%s.write' % f.params[1]
                                                      or (unparse(sub.func) == 'print' and any(
                                                          k_.arg == 'file' and unparse(k_.value) == f.params[1] for k_ in sub.keywords))):
                        outs.append((n, sub))
        if not outs:
            raise Unrecognised('treeoutput.brackets writes nothing')
        def _mentions_gap(fa):
            return any(isinstance(t, str) and ('gap' in t or 'disc' in t or 'continuous' in t) for t in fa[1:])
        for (n, sub) in outs:
            facts = [x[0] for x in facts_at(cfg, n.id)]
            ok = any(c in facts for c in cont)
            verdict = True if ok else False
            why = 'dominated by `not %s > 0`' % G if ok else \
                'a discontinuous tree (also a skipped one) reaches this write and comes out as a scrambled bracketing'
            if not ok:
                related = [fa for fa in facts if _mentions_gap(fa)]
                if any(d in facts for d in disc):
                    why = 'this write happens exactly for trees with gap degree > 0'
                elif related or [c_ for c_ in prog.opaque_calls(f, [tree], before=n.id)
                                 if (prog.callee(c_[1], f) or ('?',))[0] not in ('treeanalysis', 'trees', 'treeoutput')]:
                    verdict = None
                    why = 'guard %s not recognised' % (related[:1] or 'delegated to a helper')
                    for fa in related:
                        # gap degree compared with another bound than 0: `not gap_degree(tree) > 1` lets degree 1 through
                        if fa[0] == 'cmp' and fa[1] == G and fa[2] in ('<=', '<') and fa[3].isdigit() \
                                and int(fa[3]) - (1 if fa[2] == '<' else 0) >= 1:
                            verdict = False
                            why = 'the write is allowed for `%s %s %s`: a tree of gap degree %d is discontinuous, yet it is written ' \
                                  '(and neither refused nor skipped)' % (fa[1], fa[2], fa[3], int(fa[3]) - (1 if fa[2] == '<' else 0))
                    if verdict is None and related and all(any(isinstance(t, str) and 'gap_type(%s)' % tree in t for t in fa[1:]) for fa in related) \
                            and any(isinstance(x_, ast.Call) and prog.callee(x_, f) == ('treeanalysis', 'gap_type') for x_ in walk_own(f.node)):
                        verdict = False
                        why = 'the guard asks treeanalysis.gap_type(%s), which looks at the root and its children only: a tree whose ' \
                              'discontinuous constituents sit deeper passes and is written as a scrambled bracketing' % tree
            obs.append(Ob('R-GUARD/BRACKETS', f.fq, 'output `%s` happens only for a tree of gap degree 0' % unparse(sub)[:50],
                          verdict, why, construct='guard-br:' + unparse(sub)[:50], line=n.lineno))
        raises = [n for n in cfg.eval_nodes() if n.kind == 'stmt' and isinstance(n.ast, ast.Raise)]
        ok = False
        partial = False
        for r in raises:
            facts = [x[0] for x in facts_at(cfg, r.id)]
            if any(d in facts for d in disc) and ('haskey', f.kwarg, 'brackets_skipdisco', False) in facts \
                    and prog.raises_kind(r.ast.exc, f, 'ValueError'):
                ok = True
            elif any(_mentions_gap(fa) for fa in facts) or any('skipdisco' in str(fa) for fa in facts):
                partial = True
        verdict = True if ok else (None if (partial or [c_ for c_ in prog.opaque_calls(f, [tree])
                                                        if (prog.callee(c_[1], f) or ('?',))[0] not in ('treeanalysis', 'trees', 'treeoutput')])
                                   else False)
        if not ok and raises and not partial:
            verdict = None
        if verdict is False and [c_ for c_ in prog.raising_calls(f) if prog.callee(c_, f) not in (
                ('treeanalysis', 'gap_degree'), ('treeoutput', 'write_brackets_subtree'))]:
            verdict = None          # the refusal may sit in a helper
        obs.append(Ob('R-GUARD/BRACKETS', f.fq, 'a discontinuous tree is refused with ValueError unless brackets_skipdisco '
                      'is given', verdict, 'raise under gap degree > 0 and not skipdisco' if ok else
                      ('the function never raises: discontinuous trees are never refused' if verdict is False else
                       'a raise exists but its condition is not recognised'),
                      construct='guard-br-raise', line=f.node.lineno))

    def _sec_lopar():
        # ---- LoPar refuses non-context-free grammars before opening any file
        f = prog.func('grammaroutput', 'lopar')
        cfg = f.cfg
        G = f.params[0]
        opens = [n for n in cfg.eval_nodes() if n.kind == 'with' or any(
            isinstance(x, ast.Call) and unparse(x.func) in ('io.open', 'open') for r_ in cfg.exprs(n.id) for x in ast.walk(r_))]
        calls = [n for n in cfg.eval_nodes() for r_ in cfg.exprs(n.id) for x in ast.walk(r_)
                 if isinstance(x, ast.Call) and prog.callee(x, f) == ('grammaranalysis', 'is_contextfree')]
        verdict = None
        why = 'context-freeness test not recognised'
        if not opens:
            raise Unrecognised('grammaroutput.lopar opens no file')
        if not calls and not prog.opaque_calls(f, [G]):
            verdict, why = False, 'is_contextfree(%s) is never consulted: any LCFRS is written as if it were a PCFG' % G
        elif calls:
            guarded = all(any(fa in (('opaque', 'grammaranalysis.is_contextfree(%s)' % G, True),)
                              for fa in [x[0] for x in facts_at(cfg, o.id)]) for o in opens)
            raising = [r for r in cfg.eval_nodes() if r.kind == 'stmt' and isinstance(r.ast, ast.Raise)
                       and ('opaque', 'grammaranalysis.is_contextfree(%s)' % G, False) in [x[0] for x in facts_at(cfg, r.id)]]
            if guarded and raising:
                verdict, why = True, 'every open happens only after is_contextfree(%s) held; its failure raises' % G
            elif guarded and not raising:
                verdict, why = None, 'opens are guarded but no raise under the failing test was found'
            else:
                first_call = min(c.id for c in calls)
                early = [o for o in opens if not any(cfg.dominates(c.id, o.id) for c in calls)]
                if early and not any(fa[0] == 'opaque' for o in early for fa in [x[0] for x in facts_at(cfg, o.id)]):
                    verdict, why = False, 'a file is opened (line %d) before / without the context-freeness test' % early[0].lineno
        obs.append(Ob('R-GUARD/LOPAR', f.fq, 'a grammar that is not context-free is refused before anything is written', verdict, why,
                      construct='guard-lopar', line=f.node.lineno))

    def _sec_gap():
        # ---- gap oracle
        f = prog.func('transitions', 'gap')
        cfg = f.cfg
        appends = []
        tvars = set()
        for n in cfg.eval_nodes():
            if n.kind == 'stmt' and isinstance(n.ast, ast.Assign) and isinstance(n.ast.value, ast.Call) \
                    and unparse(n.ast.value.func) == 'Transition' and isinstance(n.ast.targets[0], ast.Name):
                tvars.add(n.ast.targets[0].id)
        for n in cfg.eval_nodes():
            if n.kind == 'stmt' and isinstance(n.ast, ast.Expr) and isinstance(n.ast.value, ast.Call) \
                    and isinstance(n.ast.value.func, ast.Attribute) and n.ast.value.func.attr == 'append' \
                    and len(n.ast.value.args) == 1:
                a0 = n.ast.value.args[0]
                if (isinstance(a0, ast.Name) and a0.id in tvars) or \
                        (isinstance(a0, ast.Call) and unparse(a0.func) == 'Transition'):
                    appends.append(n)
        tdefs = {}
        for n in cfg.eval_nodes():
            if n.kind == 'stmt' and isinstance(n.ast, ast.Assign) and isinstance(n.ast.value, ast.Call) \
                    and unparse(n.ast.value.func) == 'Transition' and n.ast.value.args:
                tdefs[n.id] = unparse(n.ast.value.args[0])
        outer = [n for n in cfg.eval_nodes() if n.kind == 'test' and isinstance(n.ast, ast.Constant) and not n.loops]
        breaks = [n for n in cfg.eval_nodes() if n.kind == 'stmt' and isinstance(n.ast, ast.Break)
                  and len(n.loops) == 1]
        if len(outer) != 1 or len(breaks) != 1 or len(appends) < 4:
            raise Unrecognised('transitions.gap: main loop / break / transition emissions not found (%d/%d/%d)'
                                % (len(outer), len(breaks), len(appends)))
        brk = breaks[0]
        unary_app = []
        other_app = []
        for a in appends:
            # which Transition(...) text reaches it
            txt = None
            for nid, t in tdefs.items():
                if cfg.dominates(nid, a.id) and cfg.same_loop(nid, a.id) and not cfg.between(nid, a.id):
                    txt = t
            (unary_app if txt and 'UNARY' in txt else other_app).append(a)
        if not unary_app:
            raise Unrecognised('transitions.gap emits no UNARY transition')
        closure_tests = set()
        for a in unary_app:
            inner = [cfg.nodes[l] for l in a.loops if l != outer[0].id]
            ok = bool(inner) and inner[-1].kind == 'test' and any(
                fa[0] == 'cmp' and fa[2] == '==' and fa[3] == '1' and fa[1].startswith('len(') and 'children' in fa[1]
                for fa in [norm_test(e_, p_) for (e_, p_) in split_assumes(inner[-1].ast, True)])
            if ok:
                closure_tests.add(inner[-1].id)
                # the loop advances: d[0] = d[0].parent in every iteration
                adv = any(m.kind == 'stmt' and isinstance(m.ast, ast.Assign) and isinstance(m.ast.targets[0], ast.Subscript)
                          and unparse(m.ast.value) == unparse(m.ast.targets[0]) + '.parent'
                          and cfg.in_every_iteration(inner[-1].id, m.id) for m in cfg.eval_nodes())
                ok = adv
            verdict = True if ok else None
            if not ok and not inner:
                verdict = False       # positive: the emission is not inside any loop but the main one
            obs.append(Ob('R-GUARD/GAP', f.fq, 'UNARY transitions are emitted by a closure loop (one per stacked unary node)',
                          verdict, 'inside `while %s` which climbs one node per iteration' % unparse(inner[-1].ast)[:70] if ok else
                          ('the unary check is not a loop over the chain of unary parents: at most one UNARY per step'
                           if verdict is False else 'inner loop of a shape this rule does not model'),
                          construct='gap-closure', line=a.lineno))
        for a in other_app:
            ok = (not cfg.can_reach(a.id, brk.id, avoid=closure_tests)) if closure_tests else None
            obs.append(Ob('R-GUARD/GAP', f.fq, 'after emission at line %d the oracle cannot stop before the unary closure ran'
                          % a.lineno, ok, 'every path to `break` passes the closure loop' if ok else
                          'the termination test is reached before the unary check: unary nodes above the last item '
                          '(e.g. the root of a one-token sentence) get no transition',
                          construct='gap-order:%d' % other_app.index(a), line=a.lineno))

    def _sec_topdown():
        # ---- top-down oracle: arity dispatch is exhaustive
        f = prog.func('transitions', 'topdown')
        cfg = f.cfg
        chv = None
        for n in cfg.eval_nodes():
            if n.kind == 'stmt' and isinstance(n.ast, ast.Assign) and isinstance(n.ast.value, ast.Call) \
                    and prog.callee(n.ast.value, f) == ('trees', 'children') and n.loops and isinstance(n.ast.targets[0], ast.Name):
                lp = cfg.nodes[n.loops[-1]]
                if lp.kind == 'iter' and unparse(n.ast.value.args[0]) == unparse(lp.ast.target):
                    chv = n.ast.targets[0].id
        ch = chv is not None
        LC = 'len(%s)' % chv
        apps = [n for n in cfg.eval_nodes() if n.kind == 'stmt' and isinstance(n.ast, ast.Expr) and isinstance(n.ast.value, ast.Call)
                and isinstance(n.ast.value.func, ast.Attribute) and n.ast.value.func.attr == 'append'
                and 'Transition(' in unparse(n.ast)]
        seen = {}
        for a in apps:
            for (fa, _) in facts_at(cfg, a.id):
                if fa[0] == 'cmp' and fa[1] == LC and fa[2] == '==' and fa[3] in ('0', '1', '2'):
                    seen[fa[3]] = unparse(a.ast)
        kinds_ok = sorted(seen) == ['0', '1', '2'] and 'SHIFT' in seen['0'] and 'UNARY' in seen['1'] and 'BINARY' in seen['2']
        rz = [n for n in cfg.eval_nodes() if n.kind == 'stmt' and isinstance(n.ast, ast.Raise)
              and all(('cmp', LC, '!=', k) in [x[0] for x in facts_at(cfg, n.id)] for k in ('0', '1', '2'))]
        verdict = True if (kinds_ok and rz and ch) else None
        why = 'exhaustive if/elif chain with final raise' if verdict else \
            'chain not recognised: %s, final raise %s, ordered children %s' % (seen, bool(rz), ch)
        wrong = [(k, t) for k, t in seen.items() if not {'0': 'SHIFT', '1': 'UNARY', '2': 'BINARY'}[k] in t]
        if wrong and ch:
            verdict, why = False, 'arity %s emits `%s`' % (wrong[0][0], wrong[0][1][:50])
        obs.append(Ob('R-GUARD/TOPDOWN', f.fq, 'arity 0/1/2 of the ordered children map to SHIFT/UNARY/BINARY, anything else '
                      'is refused', verdict, why, construct='topdown-arity', line=f.node.lineno))
        # head side: LEFT iff <ordered children>[0] is the head
        from ..values import expr_cases
        hs = None
        hwhy = 'head side computation not recognised'
        for a in apps:
            if 'BINARY' not in unparse(a.ast):
                continue
            for x in ast.walk(a.ast):
                if isinstance(x, ast.Name) and x.id in f.locals and x.id != chv:
                    cs = expr_cases(f, x, a.id)
                    vals = dict()
                    for c in cs:
                        if c.kind == 'value' and const_str(c.value) in ('LEFT', 'RIGHT'):
                            for fa in c.facts:
                                if fa[0] == 'truthy' and fa[1].endswith("].data['head']"):
                                    vals[const_str(c.value)] = fa
                                if fa[0] == 'none' and fa[1].endswith("].data['head']"):
                                    hs = False
                                    hwhy = 'the side is chosen by whether `%s` is None, not by its truth value: a child marked ' \
                                           'head=False is "not None" as well, so every binary node gets the same side' % fa[1]
                    consts = [c for c in cs if c.kind == 'value' and const_str(c.value) in ('LEFT', 'RIGHT')]
                    if consts and a.loops:
                        outside = [c for c in consts if a.loops[0] not in cfg.nodes[c.node].loops]
                        inside = [c for c in consts if a.loops[0] in cfg.nodes[c.node].loops]
                        if outside and inside and not any(a.loops[0] in cfg.nodes[c.node].loops and const_str(c.value) == const_str(outside[0].value)
                                                          for c in consts):
                            hs = False
                            hwhy = 'the head side `%s` is set once before the loop over the nodes and only ever switched to `%s` inside ' \
                                   'it: after the first such node every later binary node gets the same side' % (
                                       const_str(outside[0].value), const_str(inside[0].value))
                            continue
                    if len(vals) == 2 and hs is not False:
                        l, r = vals['LEFT'], vals['RIGHT']
                        first = "%s[0].data['head']" % chv
                        if l == ('truthy', first, True) and r == ('truthy', first, False):
                            hs, hwhy = True, "LEFT when %s, else RIGHT" % first
                        elif l == ('truthy', first, False) and r == ('truthy', first, True):
                            hs, hwhy = False, 'LEFT and RIGHT are swapped: LEFT is emitted when the first child is NOT the head'
                        elif l[1].startswith('%s[1]' % chv) or l[1].startswith('%s[-1]' % chv):
                            if l[2] is True:
                                hs, hwhy = False, 'LEFT is emitted when the second child is the head'
                elif isinstance(x, ast.IfExp) and const_str(x.body) in ('LEFT', 'RIGHT'):
                    t = norm_test(x.test, True)
                    first = "%s[0].data['head']" % chv
                    if t == ('truthy', first, True):
                        hs = const_str(x.body) == 'LEFT' and const_str(x.orelse) == 'RIGHT'
                        hwhy = "'%s' if %s else '%s'" % (const_str(x.body), first, const_str(x.orelse))
        obs.append(Ob('R-GUARD/TOPDOWN', f.fq, 'head side is LEFT iff the first ordered child is the head', hs, hwhy,
                      construct='topdown-side', line=f.node.lineno, nontrivial=False))

    def _sec_binarize():
        # ---- binarization refuses unmarked trees before reading the mark
        f = prog.func('transform', '_binarize_tree')
        cfg = f.cfg
        reads = []
        for n in cfg.eval_nodes():
            for root in cfg.exprs(n.id):
                for sub in ast.walk(root):
                    if isinstance(sub, ast.Subscript) and unparse(sub).endswith(".data['head']") and isinstance(sub.ctx, ast.Load):
                        reads.append((n, sub))
        if not reads:
            raise Unrecognised('_binarize_tree does not read head marks')
        for (n, sub) in reads:
            X = unparse(sub.value)
            facts = [x[0] for x in facts_at(cfg, n.id)]
            from ..core import expr_guards
            facts = facts + expr_guards(f, sub)
            ok = ('haskey', X, 'head', True) in facts
            verdict = True if ok else False
            if not ok:
                anytest = any(isinstance(x, ast.Compare) and isinstance(x.ops[0], (ast.In, ast.NotIn)) and const_str(x.left) == 'head'
                              for x in walk_own(f.node))
                hastry = any(isinstance(x, ast.Try) for x in walk_own(f.node))
                if anytest or hastry or prog.opaque_calls(f, [root_name(sub)], before=n.id):
                    verdict = None
            obs.append(Ob('R-GUARD/BINARIZE', f.fq, 'the head mark `%s` is read only after its presence was checked' % unparse(sub),
                          verdict, 'dominated by the failure of `\'head\' not in %s` (which raises)' % X if ok else
                          ('read without the presence check: an unmarked tree gives KeyError or is binarized arbitrarily'
                           if verdict is False else 'a presence test exists but its relation to this read is not recognised'),
                          construct='bin-head', line=n.lineno))

    def _sec_sentence():
        # the sentence an oracle returns pairs every word with its POS tag (the token's label)
        for nm_ in ('topdown', 'inorder', 'gap'):
            g_ = prog.func('transitions', nm_, required=False)
            if g_ is None:
                continue
            for x_ in walk_own(g_.node):
                if isinstance(x_, ast.Tuple) and len(x_.elts) == 2 and all(
                        isinstance(e_, ast.Subscript) and isinstance(e_.value, ast.Attribute) and e_.value.attr == 'data'
                        and const_str(e_.slice) is not None for e_ in x_.elts) and const_str(x_.elts[0].slice) == 'word':
                    k2_ = const_str(x_.elts[1].slice)
                    obs.append(Ob('R-GUARD/SENTENCE', g_.fq, 'the sentence pairs each word with its POS tag: `%s`' % unparse(x_)[:60],
                                  k2_ == 'label', 'word and label' if k2_ == 'label' else
                                  'the word is paired with the field %r, the POS tag of a token is its label' % k2_,
                                  construct='sentence-pair:' + nm_, line=x_.lineno, nontrivial=False))

    def _sec_plain():
        # plain transition writer: pos option selects the second component
        f = prog.func('transitionoutput', 'plain')
        cfg = f.cfg
        sel = {}
        for n in cfg.eval_nodes():
            if n.kind == 'stmt' and isinstance(n.ast, ast.Assign):
                for sub in walk_own(n.ast):
                    if isinstance(sub, ast.ListComp) and isinstance(sub.generators[0].target, ast.Tuple):
                        names = [unparse(x) for x in sub.generators[0].target.elts]
                        used = [x.id for x in ast.walk(sub.elt) if isinstance(x, ast.Name)]
                        facts = [x[0] for x in facts_at(cfg, n.id)]
                        pol = True if ('haskey', f.kwarg, 'pos', True) in facts else (
                            False if ('haskey', f.kwarg, 'pos', False) in facts else None)
                        idx = [names.index(u) for u in used if u in names]
                        if pol is None:
                            sel['?'] = idx          # chosen by something this rule does not read (an options object, a flag)
                        else:
                            sel[pol] = idx
        ok = True if (sel.get(True) == [1] and sel.get(False) == [0]) else (
            False if ('?' not in sel and (sel.get(True) == [0] or sel.get(False) == [1])) else None)
        obs.append(Ob('R-GUARD/PLAIN', f.fq, 'the sentence written is the words, or the POS tags with the pos option', ok,
                      'component 1 under `pos`, component 0 otherwise' if ok else 'selection %s' % sel,
                      construct='plain-pos', line=f.node.lineno))

    for nm_, fn_ in (('BRACKETS', _sec_brackets), ('LOPAR', _sec_lopar), ('GAP', _sec_gap), ('TOPDOWN', _sec_topdown),
                     ('BINARIZE', _sec_binarize), ('PLAIN', _sec_plain), ('SENTENCE', _sec_sentence)):
        try:
            fn_()
        except Unrecognised as ex_:
            obs.append(Ob('R-GUARD/' + nm_, 'trees', 'guard rule %s' % nm_, None, str(ex_), construct='guard-unrec:' + nm_))
    return obs, {}
