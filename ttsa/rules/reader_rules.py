"""Readers: R-READER-STATE (+R-COUNTER) and R-AUTOMATON (bracket lexer and 7-state reader)."""
import ast
from collections import deque

from ..core import (AnalysisError, Unrecognised, path, unparse, norm_test, facts_at, walk_own, split_assumes,
                    const_str, root_name, MUTATORS)
from ..events import name_defs, single_def
from ..report import Ob

def _sid_sources(f):
    """Names whose value flows into the sentence id (`X.data['sid'] = ...`): they carry over between
    sentences by design (running number / id of the #BOS line) and are checked by R-SIBLING/SID."""
    out = set()
    todo = []
    for n in walk_own(f.node):
        if isinstance(n, ast.Assign) and unparse(n.targets[0]).endswith(".data['sid']"):
            todo.append(n.value)
    seen = set()
    while todo:
        e = todo.pop()
        for x in ast.walk(e):
            if isinstance(x, ast.Name) and x.id not in seen and x.id in f.locals and x.id != f.kwarg:
                seen.add(x.id)
                out.add(x.id)
                for (_, v) in name_defs(f, x.id):
                    if isinstance(v, ast.AST):
                        todo.append(v)
    return out


def _reporting_only(f, name):
    """Every read of local `name` is inside a progress/report statement (print, *.write to stderr/stdout) or its
    own update: its value cannot reach a tree."""
    for st in walk_own(f.node):
        if not isinstance(st, ast.stmt) or isinstance(st, (ast.If, ast.For, ast.While, ast.With, ast.Try)):
            if isinstance(st, (ast.If, ast.While)):
                if any(isinstance(x, ast.Name) and x.id == name for x in ast.walk(st.test)):
                    # a test on the counter that only guards reporting statements
                    body = list(st.body) + list(st.orelse)
                    if not all(_is_report(b) for b in body):
                        return False
            elif isinstance(st, ast.For):
                if any(isinstance(x, ast.Name) and x.id == name for x in ast.walk(st.iter)):
                    return False
            continue
        reads = [x for x in ast.walk(st) if isinstance(x, ast.Name) and x.id == name and isinstance(x.ctx, ast.Load)]
        if not reads:
            continue
        if _is_report(st):
            continue
        if isinstance(st, ast.AugAssign) and isinstance(st.target, ast.Name) and st.target.id == name:
            continue
        if isinstance(st, ast.Assign) and all(isinstance(t, ast.Name) and t.id == name for t in st.targets):
            continue
        return False
    return True


def _is_report(st):
    if isinstance(st, ast.Expr) and isinstance(st.value, ast.Call):
        fn = unparse(st.value.func)
        return fn == 'print' or fn in ('sys.stderr.write', 'sys.stdout.write', 'sys.stderr.flush', 'sys.stdout.flush')
    return isinstance(st, ast.Pass)


def _writes_name(cfg, n, name):
    node = cfg.nodes[n]
    if node.kind == 'iter':
        return name in [x.id for x in ast.walk(node.ast.target) if isinstance(x, ast.Name)]
    if node.kind != 'stmt':
        return False
    st = node.ast
    tg = []
    if isinstance(st, ast.Assign):
        for t in st.targets:
            tg.extend(t.elts if isinstance(t, (ast.Tuple, ast.List)) else [t])
    elif isinstance(st, ast.AugAssign):
        tg = [st.target]
    elif isinstance(st, ast.Delete):
        tg = list(st.targets)
    for t in tg:
        if root_name(t) == name and not (isinstance(t, ast.Attribute)):
            return True
        if isinstance(t, ast.Subscript) and root_name(t) == name:
            return True
    for sub in walk_own(st):
        if isinstance(sub, ast.Call) and isinstance(sub.func, ast.Attribute) and sub.func.attr in MUTATORS \
                and isinstance(sub.func.value, ast.Name) and sub.func.value.id == name:
            return True
    return False


def r_reader_state(prog, tier):
    obs = []
    for nm in ('brackets', 'export', 'tigerxml'):
        f = prog.func('treeinput', nm)
        cfg = f.cfg
        ys = [n for n in cfg.eval_nodes() if n.kind == 'stmt' and isinstance(n.ast, ast.Expr)
              and isinstance(n.ast.value, ast.Yield)]
        if len(ys) != 1:
            raise Unrecognised('%s: %d yield statements' % (f.fq, len(ys)), partial=obs)
        y = ys[0]
        if not y.loops:
            raise Unrecognised('%s: yield outside a loop' % f.fq, partial=obs)
        main = y.loops[0]
        cross = dict((nm2, 'feeds the sentence id (running number, or id read at the start of the sentence)')
                     for nm2 in _sid_sources(f))
        cand = {}
        for name in sorted(f.locals):
            if name in f.params or name == f.kwarg:
                continue
            outside = [(n, v) for (n, v) in name_defs(f, name) if not cfg.nodes[n].loops and isinstance(v, ast.AST)]
            if not outside:
                continue
            inside = [n.id for n in cfg.nodes if main in n.loops and _writes_name(cfg, n.id, name)]
            if inside:
                cand[name] = (outside, inside)
        for name, (outside, inside) in sorted(cand.items()):
            if name not in cross and _reporting_only(f, name):
                cross[name] = 'only read by progress/report statements: its value cannot reach a tree'
            if name in cross:
                obs.append(Ob('R-READER-STATE', f.fq, '`%s` carries over between sentences by design' % name, True,
                              'CROSS-SENTENCE table: ' + cross[name], construct='cross:' + name, nontrivial=False,
                              line=cfg.nodes[outside[0][0]].lineno))
                continue
            init = unparse(outside[-1][1])
            resets = [nid for (nid, v) in name_defs(f, name) if isinstance(v, ast.AST) and unparse(v) == init
                      and main in cfg.nodes[nid].loops]
            ok = False
            why = 'after the yield, the next sentence starts with whatever `%s` held at the end of this one ' \
                  '(initial value `%s` is not restored on every path)' % (name, init)
            if resets and not cfg.can_reach(y.id, main, avoid=set(resets)):
                ok = True
                why = 're-initialised to `%s` on every path from the yield to the next input item' % init
            else:
                # the path condition fixes the value
                facts = [x[0] for x in facts_at(cfg, y.id)]
                if ('cmp', name, '==', init) in facts and not any(
                        _writes_name(cfg, m, name) for m in cfg.between(y.id, main)):
                    ok = True
                    why = 'the yield happens only when `%s == %s`' % (name, init)
            obs.append(Ob('R-READER-STATE', f.fq, 'per-sentence state `%s` is back at its initial value when the next '
                          'sentence starts' % name, ok, why, construct='reset:' + name, line=y.lineno))
        # token counters
        for name in sorted(f.locals):
            incs = [(n, v) for (n, v) in name_defs(f, name) if isinstance(v, tuple) and v[0] == 'aug'
                    and unparse(v[1]) == '%s += 1' % name]
            consts = [(n, v) for (n, v) in name_defs(f, name) if isinstance(v, ast.Constant)]
            if not incs or not consts:
                continue
            uses = []
            for n in cfg.eval_nodes():
                if n.kind == 'stmt' and isinstance(n.ast, ast.Assign) and isinstance(n.ast.value, ast.Name) \
                        and n.ast.value.id == name:
                    t = unparse(n.ast.targets[0])
                    if t.endswith(".data['num']") or t == 'num':
                        uses.append(n)
            for u in uses:
                follow = [i for (i, _) in incs if cfg.dominates(u.id, i) and cfg.same_loop(u.id, i)
                          and cfg.always_with(u.id, i) and not any(_writes_name(cfg, m, name) for m in cfg.between(u.id, i))]
                one = all(v.value == 1 for (_, v) in consts)
                ok = bool(follow) and one
                obs.append(Ob('R-COUNTER', f.fq, 'token number `%s` comes from a counter that starts at 1 and advances by '
                              'one per token' % unparse(u.ast), ok, '`%s += 1` follows on every path; every '
                              '(re)initialisation is 1' % name if ok else 'increment follows: %s, initial values all 1: %s'
                              % (bool(follow), one), construct='counter:' + unparse(u.ast), line=u.lineno))
    # TIGER-XML numbers tokens per sentence in the builder
    f = prog.func('treeinput', 'tigerxml_build_tree')
    cfg = f.cfg
    for name in ('term_cnt',):
        uses = [n for n in cfg.eval_nodes() if n.kind == 'stmt' and isinstance(n.ast, ast.Assign)
                and unparse(n.ast.targets[0]).endswith(".data['num']")]
        for u in uses:
            c = unparse(u.ast.value)
            defs = name_defs(f, c) if c.isidentifier() else []
            consts = [v for (_, v) in defs if isinstance(v, ast.Constant)]
            incs = [n for (n, v) in defs if isinstance(v, tuple) and v[0] == 'aug' and unparse(v[1]) == '%s += 1' % c]
            ok = len(consts) == 1 and consts[0].value == 1 and len(incs) == 1 and cfg.always_with(u.id, incs[0]) \
                and cfg.same_loop(u.id, incs[0]) and cfg.dominates(u.id, incs[0])
            verdict, why = (True, 'initialised to 1 per call, `+= 1` after each use') if ok else (None, 'numbering idiom not recognised')
            enum = [v for (_, v) in defs if isinstance(v, tuple) and v[0] == 'iter' and isinstance(v[1], ast.Call)
                    and unparse(v[1].func) == 'enumerate']
            if not ok and enum and len(defs) == 1:
                e = enum[0][1]
                st = e.args[1] if len(e.args) > 1 else next((k.value for k in e.keywords if k.arg == 'start'), None)
                if isinstance(st, ast.Constant):
                    verdict = st.value == 1
                    why = 'enumerate(..., %r)' % st.value
                elif st is None:
                    verdict, why = False, 'enumerate() without start: tokens are numbered from 0'
            elif not ok and consts and any(c_.value != 1 for c_ in consts if isinstance(c_.value, int)):
                verdict, why = False, 'token counter starts at %r' % consts[0].value
            elif not ok and consts and not incs:
                verdict, why = False, 'token counter is never incremented'
            obs.append(Ob('R-COUNTER', f.fq, 'token number `%s` comes from a counter that starts at 1 and advances by one '
                          'per token' % unparse(u.ast), verdict, why, construct='counter:' + unparse(u.ast), line=u.lineno))
    # export: per-sentence tables are created inside the sentence block
    f = prog.func('treeinput', 'export')
    cfg = f.cfg
    for name in ('node_by_num', 'children_by_num'):
        defs = [(n, v) for (n, v) in name_defs(f, name) if isinstance(v, ast.AST)]
        if not defs:
            continue
        ok = all(cfg.nodes[n].loops for (n, _) in defs)
        obs.append(Ob('R-READER-STATE', f.fq, 'per-sentence table `%s` is created anew for every sentence' % name, ok,
                      'created inside the sentence block' if ok else 'created once before the loop: entries of earlier '
                      'sentences leak into later ones', construct='table:' + name, line=cfg.nodes[defs[0][0]].lineno))
    return obs, {}


# ====================================================================================== R-AUTOMATON

CLASSES = ['LRB', 'RRB', 'WS', 'TOKEN']
STATES = [0, 1, 2, 3, 4, 5, 9]


class _Stop(Exception):
    def __init__(self, kind, text=''):
        self.kind = kind
        self.text = text


class ReaderModel(object):
    """Evaluates the body of the reader's token loop, taken from the AST, on an abstract machine
    state (state, level, queue length, term counter) for one token class.  Only the statement and
    expression forms listed here are modelled; anything else that touches a control variable is an
    AnalysisError (never a silent pass)."""

    def __init__(self, prog, f):
        self.prog = prog
        self.f = f
        cfg = f.cfg
        loops = [n for n in cfg.eval_nodes() if n.kind == 'iter' and isinstance(n.ast.target, ast.Tuple)
                 and len(n.ast.target.elts) == 2 and not n.loops]
        if len(loops) != 1:
            raise Unrecognised('brackets: token loop `for lextoken, lexclass in lexer` not found')
        loop_ast = loops[0].ast
        self.kw = f.kwarg
        # identify the control variables by their role, whatever they are called
        roles = {}
        for n in ast.walk(loop_ast):
            if isinstance(n, ast.Call) and isinstance(n.func, ast.Attribute) and n.func.attr == 'append' \
                    and isinstance(n.func.value, ast.Name) and n.args and prog.callee(n.args[0], f) == ('trees', 'Tree.__init__'):
                roles.setdefault('queue', n.func.value.id)
        q = roles.get('queue')
        for n in ast.walk(loop_ast):
            if isinstance(n, ast.Assign) and isinstance(n.value, ast.Name) and q:
                t = unparse(n.targets[0])
                if t == "%s[-1].data['num']" % q:
                    roles.setdefault('term_cnt', n.value.id)
                if t == "%s[0].data['sid']" % q:
                    roles.setdefault('cnt', n.value.id)
            if isinstance(n, ast.AugAssign) and isinstance(n.target, ast.Name) and isinstance(n.op, ast.Sub) \
                    and unparse(n.value) == '1':
                roles.setdefault('level', n.target.id)
            if isinstance(n, ast.Assign) and isinstance(n.targets[0], ast.Name) and isinstance(n.value, ast.Constant) \
                    and isinstance(n.value.value, int) and not isinstance(n.value.value, bool) \
                    and n.targets[0].id not in roles.values():
                cand = n.targets[0].id
                # the state variable is the one tested against lists of integers
                for m in ast.walk(loop_ast):
                    if isinstance(m, ast.Compare) and isinstance(m.left, ast.Name) and m.left.id == cand \
                            and isinstance(m.ops[0], ast.In) and isinstance(m.comparators[0], ast.List):
                        roles.setdefault('state', cand)
        missing = [r for r in ('queue', 'state', 'level', 'term_cnt', 'cnt') if r not in roles]
        if missing:
            raise Unrecognised('brackets: control variables %s not identified' % missing)
        roles['lextoken'], roles['lexclass'] = [unparse(x) for x in loop_ast.target.elts]
        self.roles = roles
        inv = dict((v, k) for k, v in roles.items())

        class _Canon(ast.NodeTransformer):
            def visit_Name(self, n):
                if n.id in inv:
                    return ast.copy_location(ast.Name(id=inv[n.id], ctx=n.ctx), n)
                return n
        import copy
        self.loop = _Canon().visit(copy.deepcopy(loop_ast))
        self.orig_loop = loop_ast
        self.tokvar, self.clsvar = 'lextoken', 'lexclass'
        self._canon = _Canon
        # control variables: the ones assigned before the loop and written in it
        self.ctrl = {}
        for n in cfg.eval_nodes():
            if n.kind == 'stmt' and isinstance(n.ast, ast.Assign) and not n.loops and isinstance(n.ast.targets[0], ast.Name):
                v = n.ast.value
                if isinstance(v, ast.Constant) and isinstance(v.value, int):
                    self.ctrl[n.ast.targets[0].id] = v.value
                elif isinstance(v, ast.List) and not v.elts:
                    self.ctrl[n.ast.targets[0].id] = 'list'
        need = {'state': 0, 'level': 0, 'term_cnt': 1, 'queue': 'list'}
        for k, v in need.items():
            if self.ctrl.get(roles[k]) != v:
                raise Unrecognised('brackets: control variable `%s` (%s) is not initialised to %r before the loop'
                                    % (roles[k], k, v))
        import copy
        self.after = [self._canon().visit(copy.deepcopy(st)) for st in self._after_loop()]

    def _after_loop(self):
        """statements after the token loop inside the `with` (end-of-input handling)"""
        for n in walk_own(self.f.node):
            if isinstance(n, ast.With) and self.orig_loop in n.body:
                i = n.body.index(self.orig_loop)
                return n.body[i + 1:]
        return []

    # ---- expression evaluation
    def test(self, e, env):
        if isinstance(e, ast.UnaryOp) and isinstance(e.op, ast.Not):
            return not self.test(e.operand, env)
        if isinstance(e, ast.BoolOp):
            if isinstance(e.op, ast.And):
                for v in e.values:
                    if not self.test(v, env):
                        return False
                return True
            for v in e.values:
                if self.test(v, env):
                    return True
            return False
        if isinstance(e, ast.Compare) and len(e.ops) == 1:
            op = e.ops[0]
            l, r = e.left, e.comparators[0]
            if isinstance(op, (ast.In, ast.NotIn)):
                k = const_str(l)
                if k is not None and isinstance(r, ast.Name) and r.id == self.kw:
                    res = k in env['opts']
                    return res if isinstance(op, ast.In) else not res
                if isinstance(r, (ast.List, ast.Tuple, ast.Set)):
                    vals = [self.value(x, env) for x in r.elts]
                    res = self.value(l, env) in vals
                    return res if isinstance(op, ast.In) else not res
                raise Unrecognised('brackets: membership test `%s` not modelled' % unparse(e))
            a, b = self.value(l, env), self.value(r, env)
            if isinstance(op, ast.Eq):
                return a == b
            if isinstance(op, ast.NotEq):
                return a != b
            if isinstance(op, ast.Gt):
                return a > b
            if isinstance(op, ast.GtE):
                return a >= b
            if isinstance(op, ast.Lt):
                return a < b
            if isinstance(op, ast.LtE):
                return a <= b
        if isinstance(e, ast.Subscript) and isinstance(e.value, ast.Name) and e.value.id == self.kw:
            k = const_str(e.slice)
            return k in env['opts']
        raise Unrecognised('brackets: condition `%s` not modelled' % unparse(e))

    def value(self, e, env):
        if isinstance(e, ast.Constant):
            return e.value
        if isinstance(e, ast.Name):
            if e.id == self.clsvar:
                return env['cls']
            if e.id in ('state', 'level', 'term_cnt'):
                return env[e.id]
            if e.id == 'cnt':
                return ('CNT', env['cnt'])
            if e.id == self.tokvar:
                return 'TOKEN-TEXT'
            if e.id in env['locals']:
                return env['locals'][e.id]
            raise Unrecognised('brackets: value of `%s` not modelled' % e.id)
        if isinstance(e, ast.Call) and unparse(e.func) == 'len' and unparse(e.args[0]) == 'queue':
            return env['qlen']
        if isinstance(e, ast.IfExp):
            return self.value(e.body, env) if self.test(e.test, env) else self.value(e.orelse, env)
        if isinstance(e, ast.Attribute) and isinstance(e.value, ast.Name) and e.value.id == 'trees':
            return e.attr
        if isinstance(e, ast.Subscript) and unparse(e).startswith('queue[') and ".data['" in unparse(e):
            return 'COPY(%s)' % const_str(e.slice)
        if isinstance(e, ast.Subscript) and isinstance(e.value, ast.Attribute) and e.value.attr == 'data' \
                and isinstance(e.value.value, ast.Name) and isinstance(env['locals'].get(e.value.value.id), tuple):
            return 'COPY(%s)' % const_str(e.slice)
        if isinstance(e, ast.UnaryOp) and isinstance(e.op, ast.USub):
            return -self.value(e.operand, env)
        if isinstance(e, ast.BinOp) and isinstance(e.op, (ast.Add, ast.Sub)):
            a, b = self.value(e.left, env), self.value(e.right, env)
            if isinstance(a, int) and isinstance(b, int):
                return a + b if isinstance(e.op, ast.Add) else a - b
            return 'EXPR(%s)' % unparse(e)
        if isinstance(e, ast.Call) and self.prog.callee(e, self.f) == ('trees', 'parse_label'):
            return 'PARSED'
        if isinstance(e, ast.Attribute) and isinstance(e.value, ast.Name) and env['locals'].get(e.value.id) == 'PARSED':
            return 'PARSED.' + e.attr
        return 'EXPR(%s)' % unparse(e)[:40]

    # ---- statement execution
    def _qidx(self, e, env):
        """index i of `queue[i]` as used, checking it exists"""
        i = self.value(e.slice, env)
        if not isinstance(i, int):
            raise Unrecognised('brackets: queue index `%s` not modelled' % unparse(e))
        need = -i if i < 0 else i + 1
        if env['qlen'] < need:
            env['acts'].append(('INDEX-ERROR', unparse(e)))
            raise _Stop('CRASH', 'queue[%d] with %d element(s)' % (i, env['qlen']))
        return i

    def run(self, stmts, env):
        for st in stmts:
            self.stmt(st, env)

    def stmt(self, st, env):
        if isinstance(st, ast.If):
            self.run(st.body if self.test(st.test, env) else st.orelse, env)
            return
        if isinstance(st, ast.Pass):
            return
        if isinstance(st, ast.Raise):
            msg = ''
            arg = st.exc.args[0] if isinstance(st.exc, ast.Call) and st.exc.args else None
            looked_up = None
            # the message looked up in a table of constants by the state: `_ERRORS.get(state, "unknown state")`, `_ERRORS[state]`
            tab, key, dflt = None, None, None
            if isinstance(arg, ast.Call) and isinstance(arg.func, ast.Attribute) and arg.func.attr == 'get' and arg.args \
                    and isinstance(arg.func.value, ast.Name):
                tab, key = arg.func.value.id, arg.args[0]
                dflt = arg.args[1] if len(arg.args) > 1 else None
            elif isinstance(arg, ast.Subscript) and isinstance(arg.value, ast.Name):
                tab, key = arg.value.id, arg.slice
            if tab is not None:
                lit = self.f.module.consts.get(tab)
                try:
                    k = self.value(key, env)
                    table = ast.literal_eval(lit) if lit is not None else None
                except Exception:
                    table = None
                if isinstance(table, dict):
                    if k in table:
                        looked_up = str(table[k])
                    elif dflt is not None and isinstance(dflt, ast.Constant):
                        looked_up = str(dflt.value)
                    else:
                        looked_up = '?'
                else:
                    looked_up = '?'
            if looked_up is not None:
                raise _Stop('RAISE', looked_up)
            for s in ast.walk(st):
                if isinstance(s, ast.Constant) and isinstance(s.value, str):
                    msg = s.value
                    break
            raise _Stop('RAISE', msg)
        if isinstance(st, ast.Expr):
            v = st.value
            if isinstance(v, ast.Yield):
                if unparse(v.value) != 'queue[0]' or env['qlen'] < 1:
                    env['acts'].append(('YIELD?', unparse(v.value) if v.value else ''))
                else:
                    env['acts'].append(('YIELD', env['qlen']))
                return
            if isinstance(v, ast.Call):
                fn = unparse(v.func)
                if fn == 'print' or fn.startswith('sys.std'):
                    return
                if fn == 'queue.append':
                    if not (len(v.args) == 1 and self.prog.callee(v.args[0], self.f) == ('trees', 'Tree.__init__')):
                        raise Unrecognised('brackets: `%s` not modelled' % unparse(st))
                    env['qlen'] += 1
                    env['acts'].append(('PUSH',))
                    return
                if fn == 'queue.pop':
                    if env['qlen'] < 1:
                        raise _Stop('CRASH', 'pop from empty queue')
                    env['qlen'] -= 1
                    env['acts'].append(('POP',))
                    return
                if fn.endswith('.children.append') and fn.startswith('queue['):
                    i = self._qidx(v.func.value.value, env)
                    j = self._qidx(v.args[0], env) if isinstance(v.args[0], ast.Subscript) else None
                    env['acts'].append(('ATTACH', i, j))
                    return
            raise Unrecognised('brackets: statement `%s` not modelled' % unparse(st)[:60])
        if isinstance(st, ast.AugAssign) and isinstance(st.target, ast.Name):
            nm = st.target.id
            d = self.value(st.value, env)
            if nm in ('level', 'term_cnt', 'cnt', 'state') and isinstance(d, int) and isinstance(st.op, (ast.Add, ast.Sub)):
                env[nm] = env[nm] + d if isinstance(st.op, ast.Add) else env[nm] - d
                return
            raise Unrecognised('brackets: `%s` not modelled' % unparse(st))
        if isinstance(st, ast.Assign) and len(st.targets) == 1:
            t = st.targets[0]
            if isinstance(t, ast.Name):
                if t.id == 'state':
                    v = self.value(st.value, env)
                    if not isinstance(v, int):
                        raise Unrecognised('brackets: state assigned a non-constant')
                    env['state'] = v
                    return
                if t.id in ('term_cnt', 'level', 'cnt'):
                    v = self.value(st.value, env)
                    if not isinstance(v, int):
                        raise Unrecognised('brackets: `%s` not modelled' % unparse(st))
                    env[t.id] = v
                    return
                if t.id == 'queue':
                    if not (isinstance(st.value, ast.List) and not st.value.elts):
                        raise Unrecognised('brackets: `%s` not modelled' % unparse(st))
                    env['qlen'] = 0
                    env['acts'].append(('RESETQ',))
                    return
                if t.id in (self.tokvar, self.clsvar):
                    raise Unrecognised('brackets: the loop variables are reassigned')
                if isinstance(st.value, ast.Subscript) and unparse(st.value.value) == 'queue':
                    # an alias for an element of the queue: stores through it are stores on that element
                    env['locals'][t.id] = ('QUEUE', self._qidx(st.value, env))
                    return
                env['locals'][t.id] = self.value(st.value, env)
                return
            if isinstance(t, ast.Attribute) and t.attr == 'parent' and isinstance(t.value, ast.Subscript) \
                    and unparse(t.value.value) == 'queue':
                i = self._qidx(t.value, env)
                j = self._qidx(st.value, env) if isinstance(st.value, ast.Subscript) else None
                env['acts'].append(('PARENT', i, j))
                return
            if isinstance(t, ast.Subscript) and isinstance(t.value, ast.Attribute) and t.value.attr == 'data' \
                    and isinstance(t.value.value, ast.Subscript) and unparse(t.value.value.value) == 'queue':
                i = self._qidx(t.value.value, env)
                k = const_str(t.slice)
                env['acts'].append(('SET', i, k, self.value(st.value, env)))
                return
            if isinstance(t, ast.Subscript) and isinstance(t.value, ast.Attribute) and t.value.attr == 'data' \
                    and isinstance(t.value.value, ast.Name) and isinstance(env['locals'].get(t.value.value.id), tuple) \
                    and env['locals'][t.value.value.id][0] == 'QUEUE':
                i = env['locals'][t.value.value.id][1]
                env['acts'].append(('SET', i, const_str(t.slice), self.value(st.value, env)))
                return
            if isinstance(t, ast.Subscript) and isinstance(t.value, ast.Attribute) and t.value.attr == 'data':
                raise Unrecognised('brackets: store `%s` on a node the model does not track' % unparse(st)[:60])
        if isinstance(st, ast.For):
            # option-governed post-processing (replace_parens); no control variable may be touched
            for s in ast.walk(st):
                if isinstance(s, ast.Name) and isinstance(s.ctx, ast.Store) and s.id in ('state', 'level', 'queue', 'term_cnt'):
                    raise Unrecognised('brackets: control variable written inside a for loop')
            return
        if isinstance(st, ast.Try) or isinstance(st, ast.While):
            raise Unrecognised('brackets: `%s` reached outside the disco branch' % type(st).__name__)
        raise Unrecognised('brackets: statement `%s` not modelled' % unparse(st)[:60])

    def step(self, cls, ctrl, opts):
        """One token of class `cls` in control state ctrl=(state, level, qlen, term_cnt, cnt)."""
        env = {'cls': cls, 'state': ctrl[0], 'level': ctrl[1], 'qlen': ctrl[2], 'term_cnt': ctrl[3], 'cnt': ctrl[4],
               'opts': opts, 'acts': [], 'locals': {}}
        try:
            self.run(self.loop.body, env)
            out = 'OK'
            msg = ''
        except _Stop as s:
            out = s.kind
            msg = s.text
        return out, msg, tuple(env['acts']), (env['state'], env['level'], env['qlen'], env['term_cnt'], env['cnt'])

    def eof(self, ctrl, opts):
        env = {'cls': None, 'state': ctrl[0], 'level': ctrl[1], 'qlen': ctrl[2], 'term_cnt': ctrl[3], 'cnt': ctrl[4],
               'opts': opts, 'acts': [], 'locals': {}}
        try:
            self.run(self.after, env)
            return 'OK'
        except _Stop as s:
            return s.kind


def reference_step(cls, ctrl, opts):
    """The format automaton: sentence `( [label] child+ )`, child `( label ws word )` | `( label child+ )`,
    whitespace anywhere, empty root label = VROOT; with brackets_emptypos also `( word )`."""
    state, level, qlen, tc, cnt = ctrl
    acts = []

    def close():
        nonlocal level, qlen, tc, cnt, state
        level -= 1
        if qlen > 1:
            acts.append(('ATTACH', -2, -1))
            acts.append(('PARENT', -1, -2))
            acts.append(('POP',))
            qlen -= 1
        if level == 0:
            acts.append(('SET', 0, 'sid', ('CNT', cnt)))
            cnt += 1
            acts.append(('YIELD', qlen))
            tc = 1
            acts.append(('RESETQ',))
            qlen = 0
            state = 0
        else:
            state = 5
    if cls == 'LRB':
        if state in (0, 2, 3, 5):
            level += 1
            acts.append(('PUSH',))
            qlen += 1
            state = 9 if state == 0 else 1
        elif state == 9:
            level += 1
            acts.append(('SET', -1, 'label', 'DEFAULT_ROOT'))
            acts.append(('SET', -1, 'edge', 'DEFAULT_EDGE'))
            acts.append(('SET', -1, 'morph', 'DEFAULT_MORPH'))
            acts.append(('PUSH',))
            qlen += 1
            state = 1
        else:
            return 'RAISE', (), ctrl
    elif cls == 'RRB':
        if state == 0:
            pass
        elif state == 2:
            if 'brackets_emptypos' not in opts:
                return 'RAISE', (), ctrl
            acts.append(('SET', -1, 'word', 'COPY(label)'))
            acts.append(('SET', -1, 'label', 'DEFAULT_LABEL'))
            acts.append(('SET', -1, 'edge', 'DEFAULT_EDGE'))
            acts.append(('SET', -1, 'morph', 'DEFAULT_MORPH'))
            acts.append(('SET', -1, 'num', tc))
            tc += 1
            close()
        elif state in (4, 5):
            close()
        else:
            return 'RAISE', (), ctrl
    elif cls == 'WS':
        if state == 2:
            state = 3
    elif cls == 'TOKEN':
        if state == 0:
            pass
        elif state in (1, 9):
            acts.append(('SET', -1, 'label', 'TOKEN-TEXT'))
            acts.append(('SET', -1, 'edge', 'DEFAULT_EDGE'))
            acts.append(('SET', -1, 'morph', 'DEFAULT_MORPH'))
            state = 2
        elif state == 3:
            acts.append(('SET', -1, 'word', 'TOKEN-TEXT'))
            acts.append(('SET', -1, 'num', tc))
            tc += 1
            state = 4
        else:
            return 'RAISE', (), ctrl
    else:
        return 'RAISE', (), ctrl
    return 'OK', tuple(acts), (state, level, qlen, tc, cnt)


EXAMPLE = {'LRB': '(', 'RRB': ')', 'WS': ' ', 'TOKEN': 'x'}


def _norm_acts(acts):
    """order-insensitive inside a block of field stores on the same node"""
    out = []
    block = []
    for a in acts:
        if a[0] == 'SET':
            block.append(a)
        else:
            out.extend(sorted(block, key=str))
            block = []
            out.append(a)
    out.extend(sorted(block, key=str))
    return tuple(out)


def r_automaton(prog, tier):
    obs = []
    f = prog.func('treeinput', 'brackets')
    M = ReaderModel(prog, f)
    depth = 4 if tier != 'thorough' else 10
    sents = 2 if tier != 'thorough' else 3
    # ---- A1 totality: every (class, state) cell has an explicit handler
    for cls in CLASSES:
        for st in STATES:
            outs = []
            for opts in (frozenset(), frozenset(['brackets_emptypos'])):
                out, msg, acts, nxt = M.step(cls, (st, 2, 2, 2, 1), opts)
                outs.append((out, msg, nxt[0]))
            explicit = all(not (o[0] == 'RAISE' and 'unknown' in o[1]) and o[0] != 'CRASH' for o in outs)
            known = all(o[2] in STATES for o in outs)
            obs.append(Ob('R-AUTOMATON/A1', f.fq, 'cell (%s, state %d) has an explicit transition or an explicit rejection, '
                          'and leads to one of the seven states' % (cls, st), explicit and known,
                          '%s -> %s' % (cls, ['%s%s' % (o[0], '' if o[0] != 'OK' else ' -> state %d' % o[2]) for o in outs])
                          if explicit and known else 'falls through to "unknown state", crashes, or assigns an unknown '
                          'state: %s' % outs, construct='cell:%s:%d' % (cls, st), line=f.node.lineno))
    out, msg, acts, nxt = M.step('OTHER', (0, 0, 0, 1, 1), frozenset())
    obs.append(Ob('R-AUTOMATON/A1', f.fq, 'a token class other than the four known ones is rejected', out == 'RAISE',
                  msg or out, construct='cell:other', line=f.node.lineno, nontrivial=False))
    # ---- A2 conformance: product exploration of the extracted machine with the format automaton
    nstates = ntrans = 0
    disagreements = []
    for opts in (frozenset(), frozenset(['brackets_emptypos'])):
        start = (0, 0, 0, 1, 1)
        seen = {start: None}
        dq = deque([start])
        while dq:
            c = dq.popleft()
            nstates += 1
            for cls in CLASSES:
                ntrans += 1
                o1, msg, a1, n1 = M.step(cls, c, opts)
                o2, a2, n2 = reference_step(cls, c, opts)
                same = (o1 == o2) and (o1 != 'OK' or (_norm_acts(a1) == _norm_acts(a2) and n1 == n2))
                if not same:
                    # shortest witness
                    seq = [cls]
                    p = c
                    while seen[p] is not None:
                        p, t = seen[p]
                        seq.append(t)
                    seq.reverse()
                    disagreements.append((sorted(opts), seq, c, (o1, a1, n1), (o2, a2, n2)))
                    continue
                if o1 != 'OK':
                    continue
                if n1[1] > depth or n1[4] > sents + 1 or n1[3] > depth * 2 + 2:
                    continue
                if n1 not in seen:
                    seen[n1] = (c, cls)
                    dq.append(n1)
    groups = {}
    for d in disagreements:
        key = (d[1][-1], d[2][0], tuple(d[0]))
        groups.setdefault(key, d)
    if not groups:
        obs.append(Ob('R-AUTOMATON/A2', f.fq, 'in every reachable state the reader and the format automaton agree on accept/'
                      'reject, on the tree-building actions and on the next state', True,
                      'explored %d product states / %d transitions (nesting <= %d, %d sentences, both brackets_emptypos '
                      'settings)' % (nstates, ntrans, depth, sents), construct='a2-all', line=f.node.lineno))
    for key, d in sorted(groups.items(), key=str):
        opts, seq, c, got, want = d
        obs.append(Ob('R-AUTOMATON/A2', f.fq, 'token class %s in state %d%s behaves as the format automaton' %
                      (key[0], key[1], ' (brackets_emptypos)' if opts else ''), False,
                      'after %r the reader does %s but the format requires %s' % (''.join(EXAMPLE[t] for t in seq),
                                                                                _show(got), _show(want)),
                      construct='a2:%s:%d:%s' % key, line=f.node.lineno,
                      witness={'token_classes': seq, 'example': ''.join(EXAMPLE[t] for t in seq), 'options': opts,
                               'reader': _show(got), 'format': _show(want)}))
    # ---- A3 end of input
    openres = M.eof((5, 1, 1, 2, 1), frozenset())
    closed = M.eof((0, 0, 0, 1, 2), frozenset())
    obs.append(Ob('R-AUTOMATON/A3', f.fq, 'input that ends inside a bracket group is rejected', openres == 'RAISE'
                  and closed == 'OK', 'raise when level > 0 after the last token, nothing otherwise' if openres == 'RAISE'
                  and closed == 'OK' else 'end of input with an open group: %s; with all groups closed: %s (a truncated '
                  'last tree is silently dropped)' % (openres, closed), construct='a3-reader', line=f.node.lineno))
    try:
        obs.extend(_lexer_rules(prog))
    except Unrecognised as e:
        obs.append(Ob('R-AUTOMATON/LEXER', 'treeinput.bracket_lexer', 'the bracket lexer conforms to the three character classes',
                      None, str(e), construct='lexer-unrecognised'))
    # ---- A4 discobracket index convention
    try:
        obs.extend(_disco_rules(prog))
    except Unrecognised as e:
        obs.append(Ob('R-AUTOMATON/A4', 'treeinput.brackets', 'discobracket index convention', None, str(e),
                      construct='disco-unrecognised'))
    # ---- FIELDS: whoever sets a label sets edge and morph as well
    seen_sets = {}
    for cls in CLASSES:
        for st in STATES:
            for opts in (frozenset(), frozenset(['brackets_emptypos'])):
                out, msg, acts, nxt = M.step(cls, (st, 2, 2, 2, 1), opts)
                if out != 'OK':
                    continue
                by_node = {}
                for a in acts:
                    if a[0] == 'SET':
                        by_node.setdefault(a[1], set()).add(a[2])
                for i, keys in by_node.items():
                    if 'label' in keys:
                        seen_sets[(cls, st, bool(opts))] = keys
    for (cls, st, ep), keys in sorted(seen_sets.items()):
        ok = {'edge', 'morph'} <= keys
        obs.append(Ob('R-AUTOMATON/FIELDS', f.fq, 'handler (%s, state %d%s) that labels a node also fills its edge and '
                      'morphology' % (cls, st, ', emptypos' if ep else ''), ok, 'sets %s' % sorted(keys) if ok else
                      'sets only %s: the node keeps None in the other fields and writers fail on it' % sorted(keys),
                      construct='fields:%s:%d:%s' % (cls, st, ep), line=f.node.lineno))
    return obs, {'states': nstates, 'transitions': ntrans, 'exhaustive_below_depth': depth, 'sentences': sents}


def _show(x):
    out, acts, nxt = x
    if out != 'OK':
        return out
    return '%s -> state %d' % (' '.join(a[0] + (':' + str(a[2]) if a[0] == 'SET' else '') for a in acts) or 'nothing', nxt[0])


def _lexer_rules(prog):
    obs = []
    f = prog.func('treeinput', 'bracket_lexer')
    cfg = f.cfg
    wl = [n for n in cfg.eval_nodes() if n.kind == 'test' and isinstance(n.owner, ast.While)]
    if len(wl) != 1:
        raise Unrecognised('bracket_lexer: main loop not found')
    W = wl[0]
    chv = None
    nt = norm_test(W.ast, True)
    if nt[0] == 'cmp' and nt[2] == '!=':
        chv = nt[1] if nt[3] in ("''", '""') else nt[3]
    if not chv:
        raise Unrecognised('bracket_lexer: loop condition is not `<char> != ""`')
    adv = [n for n in cfg.eval_nodes() if n.kind == 'stmt' and unparse(n.ast) == '%s = %s.read(1)' % (chv, f.params[0])
           and W.id in n.loops]
    ok = bool(adv) and cfg.in_every_iteration(W.id, adv[0].id)
    obs.append(Ob('R-AUTOMATON/LEXER', f.fq, 'the lexer consumes exactly one character per iteration', ok,
                  '`%s` at the end of every iteration' % unparse(adv[0].ast) if ok else 'no unconditional read per iteration',
                  construct='lex-advance', line=f.node.lineno, nontrivial=False))
    # buffers
    bufs = {}
    for (nm, kind) in (('tokenbuf', 'TOKEN'), ('whitespacebuf', 'WS')):
        bufs[kind] = nm
    vals = {}
    for n in cfg.eval_nodes():
        if n.kind == 'stmt' and isinstance(n.ast, ast.Assign) and isinstance(n.ast.value, ast.Call) \
                and unparse(n.ast.value.func).endswith('.getvalue') and W.id in n.loops:
            vals[unparse(n.ast.value.func.value)] = unparse(n.ast.targets[0])
    if len(vals) != 2:
        raise Unrecognised('bracket_lexer: the two buffers are not read at the top of the loop')
    # classify yields inside the loop by branch
    branches = {'bracket': [], 'space': [], 'other': []}
    unknown = {'bracket': False, 'space': False, 'other': False}
    import re as _re

    def _member(facts, coll, pol):
        # membership of the character in the collection, also through a set / frozenset / tuple built from it
        for fa in facts:
            if fa[0] == 'in' and fa[1] == chv and fa[3] is pol and _re.match(
                    r'^(?:(?:frozenset|set|tuple|list)\()?%s\)?$' % _re.escape(coll), fa[2]):
                return True
        return False
    for n in cfg.eval_nodes():
        if W.id not in n.loops or n.kind != 'stmt':
            continue
        facts = [x[0] for x in facts_at(cfg, n.id) if W.id in cfg.nodes[x[1]].loops]
        br = None
        if _member(facts, 'trees.PHRASE_BRACKETS', True):
            br = 'bracket'
        elif _member(facts, 'string.whitespace', True):
            br = 'space'
        elif _member(facts, 'trees.PHRASE_BRACKETS', False) and _member(facts, 'string.whitespace', False):
            br = 'other'
        if br is None:
            continue
        st = n.ast
        known_shape = (isinstance(st, ast.Expr) and isinstance(st.value, ast.Yield)) or (
            isinstance(st, ast.Expr) and isinstance(st.value, ast.Call) and unparse(st.value.func).endswith('.write')) or (
            isinstance(st, ast.Assign) and isinstance(st.value, ast.Call) and unparse(st.value.func) == 'StringIO')
        if not known_shape and not isinstance(st, ast.Pass) and not (
                isinstance(st, ast.Expr) and isinstance(st.value, ast.Call) and unparse(st.value.func).endswith('.close')):
            unknown[br] = True        # something else happens in this branch (a helper, another way to reset a buffer)
        if isinstance(st, ast.Expr) and isinstance(st.value, ast.Yield):
            y = st.value.value
            from ..values import is_empty_fact
            g = None
            if isinstance(y, ast.Tuple) and len(y.elts) == 2 and isinstance(y.elts[0], ast.Name) \
                    and const_str(y.elts[1]) in ('TOKEN', 'WS') and is_empty_fact(facts, y.elts[0].id, empty=False):
                g = 'len(%s)' % y.elts[0].id
            branches[br].append(('YIELD', unparse(y), g))
        elif isinstance(st, ast.Expr) and isinstance(st.value, ast.Call) and unparse(st.value.func).endswith('.write'):
            branches[br].append(('WRITE', unparse(st.value.func.value), unparse(st.value.args[0])))
        elif isinstance(st, ast.Assign) and isinstance(st.value, ast.Call) and unparse(st.value.func) == 'StringIO':
            branches[br].append(('FRESH', unparse(st.targets[0])))
    # the character classes are the format's: phrase brackets, string.whitespace, everything else.  A class decided by a
    # str method (isspace, isalnum ...) covers other characters (Unicode blanks are whitespace for isspace only)
    for n in cfg.nodes:
        if n.kind == 'assume' and W.id in n.loops:
            fa = norm_test(n.ast, True)
            txt = unparse(n.ast)
            m_ = _re.match(r'^%s\.(isspace|isalnum|isalpha|isprintable|isascii|isdigit)\(\)$' % _re.escape(chv), txt)
            if m_:
                obs.append(Ob('R-AUTOMATON/LEXER', f.fq, 'the lexer classifies a character by membership in the format\'s classes',
                              False, '`%s` decides a character class: for str.%s the class differs from string.whitespace / the '
                              'bracket inventory (e.g. NO-BREAK SPACE is whitespace for isspace() only), so tokens are cut at '
                              'other places than the format says' % (txt, m_.group(1)), construct='lex-class:' + txt,
                              line=n.lineno))
                break
    # which buffer holds tokens: the one whose value is yielded with the literal class 'TOKEN'
    tb = wb = None
    for n in walk_own(f.node):
        if isinstance(n, ast.Yield) and isinstance(n.value, ast.Tuple) and len(n.value.elts) == 2 \
                and isinstance(n.value.elts[0], ast.Name) and const_str(n.value.elts[1]) in ('TOKEN', 'WS'):
            for bk, bv in vals.items():
                if bv == n.value.elts[0].id:
                    if const_str(n.value.elts[1]) == 'TOKEN':
                        tb = bk
                    else:
                        wb = bk
    if not tb or not wb or tb == wb:
        raise Unrecognised('bracket_lexer: buffers not identified')
    tv, wv = vals[tb], vals[wb]
    flush_t = [('YIELD', "(%s, 'TOKEN')" % tv, 'len(%s)' % tv), ('FRESH', tb)]
    flush_w = [('YIELD', "(%s, 'WS')" % wv, 'len(%s)' % wv), ('FRESH', wb)]
    want = {
        'bracket': flush_t + flush_w + [('YIELD', '(%s, trees.BRACKETS[%s])' % (chv, chv), None)],
        'space': flush_t + [('WRITE', wb, chv)],
        'other': flush_w + [('WRITE', tb, chv)],
    }
    for br in ('bracket', 'space', 'other'):
        got = [x for x in branches[br]]
        ok = True if got == want[br] else None
        if ok is None and got and not unknown[br] and all(x in want[br] for x in got) and len(got) < len(want[br]):
            ok = False            # positive: a flush, a reset or the buffering step of the documented sequence is gone
        if ok is None and sorted(map(str, got)) == sorted(map(str, want[br])):
            ok = False            # same steps in another order (e.g. the character is buffered before the flush)
        obs.append(Ob('R-AUTOMATON/LEXER', f.fq, 'on a %s character the lexer flushes the other class (if non-empty), then %s'
                      % ({'bracket': 'bracket', 'space': 'whitespace', 'other': 'token'}[br],
                         'emits the bracket' if br == 'bracket' else 'buffers the character'), ok,
                      'actions %s' % got if ok else 'actions %s differ from %s' % (got, want[br]),
                      construct='lex-%s' % br, line=f.node.lineno))
    # A3: flush at end of input
    after = [n for n in cfg.eval_nodes() if n.kind == 'stmt' and not n.loops and isinstance(n.ast, ast.Expr)
             and isinstance(n.ast.value, ast.Yield) and cfg.dominates(W.id, n.id)]
    kinds = sorted(unparse(a.ast.value.value).split(', ')[-1].strip("')") for a in after)
    from ..values import is_empty_fact
    guarded = all(isinstance(a.ast.value.value, ast.Tuple) and a.ast.value.value.elts
                  and is_empty_fact([x[0] for x in facts_at(cfg, a.id)], unparse(a.ast.value.value.elts[0]), empty=False)
                  for a in after)
    ok = True if (kinds == ['TOKEN', 'WS'] and guarded) else None
    if ok is None and 'TOKEN' not in kinds and not any(isinstance(x, (ast.Yield, ast.YieldFrom)) and not cfg.nodes[cfg.node_of(x)].loops
                                                       for x in walk_own(f.node)):
        ok = False
    obs.append(Ob('R-AUTOMATON/A3', f.fq, 'at end of input the lexer hands out what is still buffered', ok,
                  'yields the pending token and whitespace after the loop' if ok else
                  ('nothing is yielded after the loop: the last token of the input (not followed by another character '
                   'class) is lost' if ok is False else 'flush after the loop has a shape this rule does not model'),
                  construct='a3-lexer', line=f.node.lineno))
    return obs


def _offset(e, base_text):
    """e == base (+|-) k  ->  k ; None if not of that shape"""
    if unparse(e) == base_text:
        return 0
    if isinstance(e, ast.BinOp) and isinstance(e.op, (ast.Add, ast.Sub)) and unparse(e.left) == base_text \
            and isinstance(e.right, ast.Constant) and isinstance(e.right.value, int):
        return e.right.value if isinstance(e.op, ast.Add) else -e.right.value
    return None


def _disco_rules(prog):
    obs = []
    r = prog.func('treeinput', 'brackets')
    w = prog.func('treeoutput', 'discobrackets')
    b = None
    for n in walk_own(r.node):
        if isinstance(n, ast.Assign) and unparse(n.targets[0]).endswith(".data['num']"):
            node = unparse(n.targets[0])[:-len(".data['num']")]
            k = _offset(n.value, "int(%s.data['word'])" % node)
            if k is not None:
                b = k
    a = None
    for n in walk_own(w.node):
        if isinstance(n, ast.Assign) and unparse(n.targets[0]).endswith(".data['word']") and isinstance(n.value, ast.Call) \
                and unparse(n.value.func) == 'str' and n.value.args:
            node = unparse(n.targets[0])[:-len(".data['word']")]
            k = _offset(n.value.args[0], "%s.data['num']" % node)
            if k is not None:
                a = k
    if a is None or b is None:
        raise Unrecognised('discobracket index encoding/decoding not found (writer %s, reader %s)' % (a, b))
    ok = a + b == 0
    obs.append(Ob('R-AUTOMATON/A4', 'treeinput.brackets', 'the discobracket reader decodes token indices the way the writer '
                  'encodes them', ok, 'writer writes num%+d, reader computes index%+d' % (a, b) if ok else
                  'writer writes num%+d but reader computes index%+d: tokens come back shifted by %d' % (a, b, a + b),
                  construct='a4', line=r.node.lineno))
    # the reader's map from position to word counts every non-blank lexer token of the sentence part
    cfg = r.cfg
    tokloops = [n for n in cfg.eval_nodes() if n.kind == 'iter' and isinstance(n.ast.target, ast.Tuple)
                and len(n.ast.target.elts) == 2 and not n.loops]
    tokv = unparse(tokloops[0].ast.target.elts[0]) if tokloops else None
    stores = [n for n in cfg.eval_nodes() if n.kind == 'stmt' and isinstance(n.ast, ast.Assign)
              and isinstance(n.ast.targets[0], ast.Subscript) and isinstance(n.ast.targets[0].value, ast.Name)
              and isinstance(n.ast.targets[0].slice, ast.Name) and unparse(n.ast.value) == tokv and len(n.loops) >= 2]
    if not stores:
        raise Unrecognised('discobracket reader: position -> word map not found')
    for s in stores:
        pv = unparse(s.ast.targets[0].slice)
        facts = [x[0] for x in facts_at(cfg, s.id) if cfg.nodes[x[1]].loops == s.loops
                 and isinstance(cfg.nodes[x[1]].owner, ast.If)
                 and not (len(cfg.nodes[x[1]].owner.body) == 1 and isinstance(cfg.nodes[x[1]].owner.body[0], ast.Break)
                          and not cfg.nodes[x[1]].owner.orelse)]          # `if <end>: break` is the loop condition spelled out
        okm = facts in ([('cmp', tokv, '!=', "' '")], [('cmp', "' '", '!=', tokv)])
        inc = any(n.kind == 'stmt' and unparse(n.ast) == '%s += 1' % pv and n.id in cfg.succ[s.id]
                  and cfg.dominates(s.id, n.id) for n in cfg.eval_nodes())
        obs.append(Ob('R-AUTOMATON/A4', 'treeinput.brackets', 'every token of the sentence part (whatever its lexer class) '
                      'takes the next position', okm and inc, 'stored unless it is the separating blank; position += 1 with '
                      'each store' if okm and inc else 'words are skipped by a test on %s: later words shift to wrong '
                      'indices' % facts, construct='a4-map', line=s.lineno))
    return obs
