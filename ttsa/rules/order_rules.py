"""R-ORDERED (ordered accessors: definitions and raw uses), R-LEVELS, R-EXPNUM."""
import ast

from ..core import AnalysisError, Unrecognised, path, unparse, norm_test, facts_at, walk_own
from ..events import name_defs, single_def
from ..report import Ob


def _leftmost_key(lam, prog, func):
    """Is `lam` a lambda x: <number of the leftmost token of x>?"""
    if not isinstance(lam, ast.Lambda) or len(lam.args.args) != 1:
        return False
    x = lam.args.args[0].arg
    b = lam.body
    s = unparse(b)
    for t in ('terminals', 'trees.terminals'):
        if s == "%s(%s)[0].data['num']" % (t, x):
            return True
    # min(... .data['num'] for ... in terminals(x)) in list or generator form
    if isinstance(b, ast.Call) and isinstance(b.func, ast.Name) and b.func.id == 'min' and len(b.args) == 1:
        g = b.args[0]
        if isinstance(g, (ast.ListComp, ast.GeneratorExp)) and len(g.generators) == 1 \
                and not g.generators[0].ifs and isinstance(g.generators[0].target, ast.Name):
            v = g.generators[0].target.id
            it = unparse(g.generators[0].iter)
            if unparse(g.elt) == "%s.data['num']" % v and it in (
                    'terminals(%s)' % x, 'trees.terminals(%s)' % x, 'unordered_terminals(%s)' % x,
                    'trees.unordered_terminals(%s)' % x):
                return True
    return False


def _num_key(lam, func=None):
    if isinstance(lam, ast.Name) and func is not None and lam.id in func.module.funcs and lam.id not in func.locals:
        g = func.module.funcs[lam.id]
        rets = [n for n in walk_own(g.node) if isinstance(n, ast.Return)]
        if len(rets) == 1 and len(g.params) == 1 and rets[0].value is not None:
            return unparse(rets[0].value) == "%s.data['num']" % g.params[0]
        return False
    if isinstance(lam, ast.Call) and unparse(lam.func) in ('operator.itemgetter', 'itemgetter'):
        return False
    if not isinstance(lam, ast.Lambda) or len(lam.args.args) != 1:
        return False
    return unparse(lam.body) == "%s.data['num']" % lam.args.args[0].arg


def _kw(call, name):
    for k in call.keywords:
        if k.arg == name:
            return k.value
    return None


def _returns(func):
    return [n for n in walk_own(func.node) if isinstance(n, ast.Return)]


def _yields(func):
    return [n for n in walk_own(func.node) if isinstance(n, (ast.Yield, ast.YieldFrom))]


# raw `.children` uses outside the accessor: function -> reason it may iterate the stored order
RAW_OK = {
    'trees.unordered_terminals': 'documented as unordered; used only where order is irrelevant',
    'trees.terminals': 'collects recursively, the result is sorted by token number before it is returned',
}


def _key_kind(prog, f, k):
    """'leftmost' / 'other' / None(unknown) for a sort key expression of children()."""
    if k is None:
        return None
    if isinstance(k, ast.Lambda):
        if _leftmost_key(k, prog, f):
            return 'leftmost'
        s = unparse(k.body)
        if '[-1]' in s or 'max(' in s:
            return 'other'
        return None
    if isinstance(k, ast.Name) and k.id in f.module.funcs and k.id not in f.locals:
        g = f.module.funcs[k.id]
        rets = _returns(g)
        if len(rets) == 1 and len(g.params) == 1 and rets[0].value is not None:
            lam = ast.Lambda(args=ast.arguments(posonlyargs=[], args=[ast.arg(arg=g.params[0])], kwonlyargs=[],
                                                kw_defaults=[], defaults=[]), body=rets[0].value)
            return _key_kind(prog, g, lam)
    return None


def _num_sorted(v, func=None):
    """v is sorted(<x>, key=lambda t: t.data['num']) without reverse (the key may be a named module function)"""
    return isinstance(v, ast.Call) and isinstance(v.func, ast.Name) and v.func.id == 'sorted' and len(v.args) == 1 \
        and _kw(v, 'reverse') is None and _num_key(_kw(v, 'key'), func)


def _sorted_in_place_before(func, name, ret):
    """`name.sort(key=<token number>)` (no reverse) is the statement right before `return name`, name a list made here."""
    for blk in ast.walk(func.node):
        for fld in ('body', 'orelse', 'finalbody'):
            lst = getattr(blk, fld, None)
            if isinstance(lst, list) and ret in lst:
                i = lst.index(ret)
                if i == 0:
                    return False
                st = lst[i - 1]
                if isinstance(st, ast.Expr) and isinstance(st.value, ast.Call) and isinstance(st.value.func, ast.Attribute) \
                        and st.value.func.attr == 'sort' and isinstance(st.value.func.value, ast.Name) \
                        and st.value.func.value.id == name and not st.value.args \
                        and _kw(st.value, 'reverse') is None and _num_key(_kw(st.value, 'key'), func):
                    defs = [v for (_, v) in name_defs(func, name) if isinstance(v, ast.AST)]
                    return bool(defs) and all(isinstance(v, (ast.List, ast.ListComp)) or (
                        isinstance(v, ast.Call) and isinstance(v.func, ast.Name) and v.func.id == 'list') for v in defs)
    return False


def r_ordered(prog, tier):
    obs = []
    T = prog.modules['trees']
    # ---- (a) definitions (ok: recognised good form; violated: recognised bad form; else undecided)
    f = prog.func('trees', 'children')
    rets = _returns(f)
    ok = None
    why = 'children() has a shape this rule does not recognise'
    src = unparse(f.node)
    if len(rets) == 1 and isinstance(rets[0].value, ast.Call) and isinstance(rets[0].value.func, ast.Name) \
            and rets[0].value.func.id == 'sorted' and len(rets[0].value.args) == 1 \
            and unparse(rets[0].value.args[0]) == '%s.children' % f.params[0]:
        c = rets[0].value
        kind = _key_kind(prog, f, _kw(c, 'key'))
        if _kw(c, 'reverse') is not None:
            ok, why = False, 'children are sorted in reverse'
        elif kind == 'leftmost':
            ok, why = True, 'returns sorted(%s.children) keyed by the number of the leftmost token' % f.params[0]
        elif kind == 'other':
            ok, why = False, 'children are ordered by something else than their leftmost token'
    elif 'sorted(' not in src and '.sort(' not in src:
        ok, why = False, 'children() returns the stored order (no sort at all)'
    elif '.sort(' in src:
        # in place on the stored list (directly, or through a name that is the stored list) - not on a copy of it
        stored = set(['%s.children' % f.params[0]]) | set(
            nm_ for nm_ in f.locals for (_, dv_) in name_defs(f, nm_) if isinstance(dv_, ast.AST) and unparse(dv_) == '%s.children' % f.params[0])
        inplace = [c_ for c_ in walk_own(f.node) if isinstance(c_, ast.Call) and isinstance(c_.func, ast.Attribute)
                   and c_.func.attr == 'sort' and unparse(c_.func.value) in stored]
        if inplace:
            ok, why = False, 'children() sorts the stored list in place: callers that hold the list see it change, and ' \
                             'code reading .children relies on an earlier call'
    # whatever the shape: a return that hands out the stored list itself gives callers an alias that changes under them
    for r_ in rets:
        if r_.value is not None and unparse(r_.value) == '%s.children' % f.params[0]:
            ok = False
            why = '`%s` hands out the stored list itself: a caller that iterates children(x) while re-attaching nodes ' \
                  '(boyd_split, raising, the traversals) sees the list change under it' % unparse(r_)
    obs.append(Ob('R-ORDERED/DEF', f.fq, 'children() orders by leftmost token', ok, why,
                  construct='def-children', line=f.node.lineno))
    f = prog.func('trees', 'terminals')
    rets = _returns(f)
    P = f.params[0]
    ok = None
    why = 'terminals() has a shape this rule does not recognise'
    rec = any(isinstance(n, ast.Call) and prog.callee(n, f) == ('trees', 'terminals') for n in walk_own(f.node)) or any(
        isinstance(n, ast.Call) and unparse(n.func) == 'map' and n.args and unparse(n.args[0]) in ('terminals', 'trees.terminals')
        for n in walk_own(f.node))
    over_children = any(isinstance(n, (ast.For, ast.comprehension)) and unparse(n.iter) == '%s.children' % P
                        for n in walk_own(f.node)) or any(
        isinstance(n, ast.Call) and unparse(n.func) == 'map' and len(n.args) == 2 and unparse(n.args[1]) == '%s.children' % P
        for n in walk_own(f.node))
    kinds = []
    for r in rets:
        v = r.value
        if isinstance(v, ast.List) and len(v.elts) == 1 and unparse(v.elts[0]) == P:
            kinds.append('leaf')
        elif _num_sorted(v, f):
            kinds.append('sorted')
        elif isinstance(v, ast.Call) and isinstance(v.func, ast.Name) and v.func.id == 'sorted':
            k_ = _kw(v, 'key')
            kinds.append('sorted-other' if (k_ is None or isinstance(k_, ast.Lambda) or _kw(v, 'reverse') is not None) else '?')
        elif isinstance(v, ast.Call) and prog.callee(v, f) == ('trees', 'terminals'):
            kinds.append('leaf' if False else 'rec')        # what the function itself returns for another node: ordered by induction
        elif isinstance(v, ast.Name) and _sorted_in_place_before(f, v.id, r):
            kinds.append('sorted')
        elif isinstance(v, ast.Name):
            dvs = [d_ for (_, d_) in name_defs(f, v.id)]
            sorts_somewhere = any(isinstance(x, ast.Call) and (unparse(x.func) == 'sorted' or unparse(x.func).endswith('.sort'))
                                  for x in walk_own(f.node))
            if dvs and all(isinstance(d_, ast.AST) and (_num_sorted(d_, f) or (isinstance(d_, ast.List) and len(d_.elts) == 1))
                           for d_ in dvs) and any(isinstance(d_, ast.AST) and _num_sorted(d_, f) for d_ in dvs):
                kinds.append('sorted')
            elif sorts_somewhere:
                kinds.append('?')
            else:
                kinds.append('unsorted-name')
        elif v is not None and any(isinstance(x, ast.Attribute) and x.attr == 'children' and unparse(x.value) == P
                                   for x in ast.walk(v)) and not any(
                isinstance(x, ast.Call) and isinstance(x.func, ast.Name) and x.func.id == 'sorted' for x in ast.walk(v)):
            kinds.append('stored-children')
        else:
            kinds.append('?')
    if rec and over_children and sorted(set(kinds) - {'rec'}) == ['leaf', 'sorted']:
        ok, why = True, 'leaf returns [tree]; otherwise the terminals of all children, sorted by token number'
    elif 'stored-children' in kinds:
        ok, why = False, 'a return of terminals() hands back the stored child list as it is: tokens come out in storage order'
    elif 'unsorted-name' in kinds or 'sorted-other' in kinds:
        ok, why = False, 'a return of terminals() hands back the collected tokens without sorting them by number'
    obs.append(Ob('R-ORDERED/DEF', f.fq, 'terminals() returns the tokens sorted by number', ok, why,
                  construct='def-terminals', line=f.node.lineno))
    for nm, first in (('preorder', True), ('postorder', False)):
        f = prog.func('trees', nm)
        cfg = f.cfg
        P = f.params[0]
        ys = [y for y in _yields(f) if isinstance(y, ast.Yield) and y.value is not None and unparse(y.value) == P]
        loops = [n for n in cfg.eval_nodes() if n.kind == 'iter' and not n.loops]
        ok = None
        why = '%s() has a shape this rule does not recognise' % nm
        if len(ys) >= 1 and len(loops) == 1:
            ln = loops[0]
            it = ln.ast.iter
            ordered = isinstance(it, ast.Call) and prog.callee(it, f) == ('trees', 'children') and unparse(it.args[0]) == P
            raw = unparse(it) == '%s.children' % P
            yns = [cfg.node_of(y) for y in ys]
            rec = False
            for n in cfg.eval_nodes():
                if ln.id in n.loops:
                    for root in cfg.exprs(n.id):
                        for sub in ast.walk(root):
                            if isinstance(sub, ast.Call) and prog.callee(sub, f) == ('trees', nm) \
                                    and sub.args and unparse(sub.args[0]) == unparse(ln.ast.target):
                                rec = True
            if len(ys) > 1 or any(cfg.nodes[y].loops for y in yns):
                ok, why = False, 'the node itself is yielded more than once (or inside the loop)'
            elif raw:
                ok, why = False, 'the traversal follows the stored child order, not the ordered children'
            elif ordered and rec:
                yn = yns[0]
                before = cfg.dominates(yn, ln.id)
                after = cfg.dominates(ln.id, yn) and cfg.postdominates(yn, ln.id)
                uncond = cfg.always_with(cfg.entry, yn)
                if not uncond:
                    ok, why = False, 'the node itself is yielded only conditionally'
                elif (first and before) or (not first and after):
                    ok = True
                    why = 'yields `%s` once %s the loop over children(%s) that re-yields the recursion' \
                          % (P, 'before' if first else 'after', P)
                elif (first and after) or (not first and before):
                    ok, why = False, '%s() yields the node on the wrong side of its descendants' % nm
        obs.append(Ob('R-ORDERED/DEF', f.fq, '%s() visits the node itself once and the ordered children '
                      'recursively' % nm, ok, why, construct='def-' + nm, line=f.node.lineno))
    for nm in ('right_sibling', 'left_sibling'):
        f = prog.func('trees', nm)
        ok = None
        why = 'sibling lookup has a shape this rule does not recognise'
        uses_ordered = any(isinstance(n, ast.Call) and prog.callee(n, f) == ('trees', 'children')
                           and unparse(n.args[0]) == '%s.parent' % f.params[0] for n in walk_own(f.node))
        parents_ = {}
        for n in ast.walk(f.node):
            for c in ast.iter_child_nodes(n):
                parents_[c] = n
        raws = [n for n in walk_own(f.node) if isinstance(n, ast.Attribute) and n.attr == 'children'
                and unparse(n.value) == '%s.parent' % f.params[0]]
        sorted_raw = [n for n in raws if isinstance(parents_.get(n), ast.Call) and _is_leftmost_sorted(prog, f, parents_[n])]
        harmless = [n for n in raws if n not in sorted_raw and _raw_context(n, parents_.get(n), parents_) not in (None,)
                    and _raw_context(n, parents_.get(n), parents_)[0] is True]
        uses_raw = [n for n in raws if n not in sorted_raw and n not in harmless]
        helper = [n for n in walk_own(f.node) if isinstance(n, ast.Call) and prog.callee(n, f) is not None
                  and prog.callee(n, f) != ('trees', 'children') and n.args and f.params[0] in unparse(n.args[0])]
        if uses_raw:
            ok, why = False, 'looks the node up in the stored child list of the parent'
        elif uses_ordered:
            ok, why = True, 'uses children(%s.parent)' % f.params[0]
        elif sorted_raw:
            ok, why = True, 'sorts the stored children of the parent by leftmost token itself'
        elif helper:
            ok, why = None, 'the sibling list comes from `%s`, which this rule does not follow' % unparse(helper[0].func)
        obs.append(Ob('R-ORDERED/DEF', f.fq, '%s() looks the node up in the ordered children of its parent' % nm,
                      ok, why, construct='def-' + nm, line=f.node.lineno))
    # ---- (b) raw uses of .children
    ncalls = 0
    for f in prog.all_funcs():
        parents = {}
        for n in ast.walk(f.node):
            for c in ast.iter_child_nodes(n):
                parents[c] = n
        for n in walk_own(f.node):
            if isinstance(n, ast.Call) and prog.callee(n, f) == ('trees', 'children'):
                ncalls += 1
            if isinstance(n, ast.Call) and prog.callee(n, f) == ('trees', 'unordered_terminals') and f.fq != 'trees.unordered_terminals':
                # the tokens in storage order: a position in that list means nothing
                par = parents.get(n)
                ctx = _raw_context(n, par, parents)
                if ctx is not None and ctx[0] == 'alias':
                    ctx = _alias_uses(f, ctx[1], parents)
                if ctx is not None:
                    okx, whyx = ctx[0], ctx[1].replace('stored child list', 'token list in storage order').replace(
                        'stored child order', 'storage order')
                    positional = isinstance(par, ast.Subscript) or 'indexing' in whyx or (
                        isinstance(par, ast.Call) and isinstance(par.func, ast.Name) and par.func.id == 'enumerate')
                    if okx is False and not positional:
                        okx = None          # loops and calls: whether the order shows is not decided here
                    elif okx is False and isinstance(par, ast.Call):
                        whyx = 'enumerate() numbers the tokens in storage order: the numbers are not positions in the sentence'
                    obs.append(Ob('R-ORDERED/RAW', f.fq, 'the storage order of the tokens is not observed: `%s`'
                                  % unparse(par if par is not None else n)[:80], okx, whyx,
                                  construct='unordered:' + unparse(par if par is not None else n)[:80], line=n.lineno))
            if not (isinstance(n, ast.Attribute) and n.attr == 'children'):
                continue
            if isinstance(n.value, ast.Name) and n.value.id in f.module.aliases \
                    and n.value.id not in f.locals:
                continue        # the accessor function trees.children, not a child list
            par = parents.get(n)
            n0 = n
            # list(x.children) / tuple(...) is a copy in the same order: what matters is what is done with the copy
            while isinstance(par, ast.Call) and isinstance(par.func, ast.Name) and par.func.id in ('list', 'tuple') \
                    and par.args == [n] and not par.keywords:
                n, par = par, parents.get(par)
            ctx = _raw_context(n, par, parents)
            if ctx is None:
                continue
            if ctx[0] == 'alias':
                ctx = _alias_uses(f, ctx[1], parents)
            if ctx[0] is False and isinstance(par, ast.Call) and n in par.args and not par.keywords \
                    and not any(isinstance(a_, ast.Starred) for a_ in par.args):
                # handed to a function of the package: what that function does with its parameter decides
                c_ = prog.callee(par, f)
                h_ = prog.func(c_[0], c_[1], required=False) if c_ else None
                if h_ is not None and h_.fq != f.fq:
                    ctx = _param_uses(h_, par.args.index(n), ctx)
            ok = ctx[0]
            why = ctx[1]
            if not ok:
                # a list known to hold at most one element has no order
                from ..core import facts_for
                X = unparse(n0.value)
                forms = ['len(%s.children)' % X, 'len(trees.children(%s))' % X, 'len(children(%s))' % X]
                for fa in facts_for(f, n0):
                    if fa[0] == 'cmp' and ((fa[1] in forms and fa[2] == '==' and fa[3] in ('0', '1'))
                                           or (fa[1] in forms and fa[2] in ('<=',) and fa[3] in ('0', '1'))
                                           or (fa[1] in forms and fa[2] == '<' and fa[3] in ('1', '2'))):
                        ok, why = True, 'at most one child here (`%s %s %s`): no order to observe' % (fa[1], fa[2], fa[3])
                    if fa[0] == 'opaque' and fa[2] is False and fa[1] in ('has_children(%s)' % X, 'trees.has_children(%s)' % X):
                        ok, why = True, 'no children here'
            if not ok and isinstance(par, ast.For) and par.iter is n:
                sens = _order_sensitive(par, unparse(n0), prog, f)
                if sens is None:
                    ok, why = None, 'for-loop over the stored child list whose body could not be shown to depend on the order'
                else:
                    why = why + ': ' + sens
            if not ok and ok is not None and f.fq in RAW_OK:
                ok = True
                why = 'RAW table: ' + RAW_OK[f.fq]
            if ok is False and f.fq == 'trees.children':
                continue
            obs.append(Ob('R-ORDERED/RAW', f.fq, 'stored child order is not observed: `%s`'
                          % unparse(par if par is not None else n)[:80], ok, why,
                          construct='raw:' + unparse(par if par is not None else n),
                          line=n0.lineno, nontrivial=not ok or 'order' in why))
    return obs, {'ordered_accessor_call_sites': ncalls}


def _param_uses(h, idx, dflt):
    """The stored child list arrives in parameter number idx of package function h: judge every use of it there."""
    a = h.node.args
    if a.vararg or a.kwarg or a.posonlyargs or idx >= len(a.args):
        return (None, 'the stored child list is passed to %s() in a way this rule does not follow' % h.node.name)
    nm = a.args[idx].arg
    parents = {}
    for n in ast.walk(h.node):
        for c in ast.iter_child_nodes(n):
            parents[c] = n
    if any(isinstance(x, ast.Name) and x.id == nm and not isinstance(x.ctx, ast.Load) for x in ast.walk(h.node)):
        return (None, 'parameter `%s` of %s() is re-bound' % (nm, h.node.name))
    worst = (True, 'passed to %s(), which uses it only in order-insensitive ways' % h.node.name)
    for x in ast.walk(h.node):
        if isinstance(x, ast.Name) and x.id == nm and isinstance(x.ctx, ast.Load):
            par = parents.get(x)
            if isinstance(par, ast.Subscript) and par.value is x and isinstance(parents.get(par), ast.Expr):
                continue            # `nodes[k]` as a statement: only whether the element exists matters
            c = _raw_context(x, par, parents)
            if c is None:
                return (None, '%s() changes the list it is handed' % h.node.name)
            if c[0] == 'alias' or c[0] is None:
                worst = (None, '%s() passes the list on' % h.node.name)
            elif c[0] is False:
                if isinstance(par, ast.Call):
                    worst = (None, '%s() passes the list on to %s()' % (h.node.name, unparse(par.func)))
                else:
                    return (False, 'stored child list passed to %s(), where: %s' % (h.node.name, c[1]))
    return worst


def _alias_uses(f, assign, parents):
    """The stored child list is bound to a local: judge every use of that local."""
    if len(assign.targets) != 1 or not isinstance(assign.targets[0], ast.Name):
        return (None, 'the stored child list is bound in a way this rule does not follow')
    nm = assign.targets[0].id
    stores = [x for x in walk_own(f.node) if isinstance(x, ast.Name) and x.id == nm and not isinstance(x.ctx, ast.Load)]
    if len(stores) != 1:
        return (None, 'the local `%s` holding the stored child list is bound more than once' % nm)
    worst = (True, 'the local `%s` is only used in order-insensitive ways' % nm)
    for x in walk_own(f.node):
        if isinstance(x, ast.Name) and x.id == nm and isinstance(x.ctx, ast.Load):
            par = parents.get(x)
            c = _raw_context(x, par, parents)
            if c is None:
                continue            # structural event (append/remove/insert), judged by R-LINK
            if c[0] == 'alias':
                return (None, 'the stored child list is passed on through another name')
            if c[0] is False:
                return (False, 'the stored child list is bound to `%s` and %s' % (nm, c[1]))
            if c[0] is None:
                worst = c
    return worst


def _emits(prog, g, seen, depth=0):
    """Does function g (or what it calls, two levels) write to a stream, print or yield?"""
    if g.fq in seen or depth > 2:
        return False
    seen.add(g.fq)
    for x in walk_own(g.node):
        if isinstance(x, (ast.Yield, ast.YieldFrom)):
            return True
        if isinstance(x, ast.Call):
            if isinstance(x.func, ast.Attribute) and x.func.attr in ('write', 'writelines'):
                return True
            if isinstance(x.func, ast.Name) and x.func.id == 'print' and 'print' not in g.locals:
                return True
            c = prog.callee(x, g)
            h = prog.func(c[0], c[1], required=False) if c else None
            if h is not None and h.fq != g.fq and _emits(prog, h, seen, depth + 1):
                return True
    return False


def _order_sensitive(loop, listtxt, prog=None, f=None):
    """Why the body of `for x in <stored list>` depends on the order (or changes the list), else None."""
    for st in loop.body:
        for x in [st] + list(ast.walk(st)):
            if prog is not None and isinstance(x, ast.Call):
                c = prog.callee(x, f)
                g = prog.func(c[0], c[1], required=False) if c else None
                if g is not None:
                    from ..events import link_events
                    try:
                        evs = link_events(prog, g)
                    except Exception:
                        evs = []
                    if any(e.kind in ('DET', 'ATT', 'CLR', 'OTHER') for e in evs):
                        return 'the body calls %s, which re-links nodes: the stored list can change while it is iterated' % g.fq
                    if _emits(prog, g, set()):
                        return 'the body calls %s, which writes / yields: the output follows the stored order' % g.fq
            if isinstance(x, (ast.Yield, ast.YieldFrom)):
                return 'the body yields in that order'
            if isinstance(x, (ast.Break, ast.Return)):
                return 'the loop stops at the first match in stored order'
            if isinstance(x, ast.Call) and isinstance(x.func, ast.Attribute):
                if x.func.attr in ('append', 'extend', 'insert', 'write', 'writelines'):
                    if unparse(x.func.value) == listtxt:
                        return 'the body changes the list it iterates'
                    return 'the body appends / writes in that order'
                if x.func.attr in ('remove', 'pop') and unparse(x.func.value) == listtxt:
                    return 'the body removes from the list it iterates: elements are skipped'
            if isinstance(x, ast.Call) and isinstance(x.func, ast.Name) and x.func.id == 'print':
                return 'the body prints in that order'
            if isinstance(x, ast.AugAssign) and isinstance(x.op, ast.Add) and not isinstance(x.value, ast.Constant) \
                    and isinstance(x.target, ast.Name):
                return 'the body concatenates in that order'
    return None


def _raw_context(n, par, parents):
    """(ok, why) for a use of `<X>.children`, or None if it is a structural event handled by R-LINK."""
    if isinstance(getattr(n, 'ctx', None), (ast.Store, ast.Del)):
        return None
    if isinstance(par, ast.Attribute) and par.value is n:
        if par.attr in ('append', 'remove', 'insert', 'extend'):
            return None
        if par.attr in ('index', 'count'):
            return (par.attr == 'count', 'position in the stored list is order-dependent'
                    if par.attr == 'index' else 'count is order-insensitive')
        return (False, 'method .%s on the stored child list' % par.attr)
    if isinstance(par, ast.Call) and n in par.args:
        fn = par.func
        if isinstance(fn, ast.Name) and fn.id == 'len':
            return (True, 'len() is order-insensitive')
        if isinstance(fn, ast.Name) and fn.id == 'sorted':
            return (True, 'sorted before use')
        if isinstance(fn, ast.Name) and fn.id in ('set', 'frozenset'):
            return (True, 'converted to a set')
        if isinstance(fn, ast.Name) and fn.id in ('bool', 'any', 'all', 'sum', 'max', 'min'):
            return (True, '%s() is order-insensitive' % fn.id)
        return (False, 'stored child list passed to %s()' % unparse(fn))
    if isinstance(par, ast.comprehension) and par.iter is n:
        comp = parents.get(par)
        outer = parents.get(comp)
        if isinstance(outer, ast.Call) and isinstance(outer.func, ast.Name) and outer.func.id in ('all', 'any', 'sum', 'set', 'max', 'min', 'len'):
            return (True, 'iterated inside %s(): order-insensitive' % outer.func.id)
        return (False, 'comprehension iterates the stored child order')
    if isinstance(par, ast.For) and par.iter is n:
        return (False, 'for-loop iterates the stored child order (and sees removals made in its body)')
    if isinstance(par, ast.Compare):
        return (True, 'membership / comparison is order-insensitive')
    if isinstance(par, (ast.UnaryOp, ast.BoolOp)) or (isinstance(par, (ast.If, ast.While, ast.IfExp, ast.Assert))
                                                     and par.test is n):
        return (True, 'truth value (empty or not) is order-insensitive')
    if isinstance(par, ast.Subscript) and par.value is n and isinstance(par.ctx, ast.Store) and isinstance(par.slice, ast.Slice):
        return None             # slice assignment: a structural change of the list (what R-LINK looks at), not a reading of its order
    if isinstance(par, ast.Subscript) and par.value is n:
        if isinstance(par.ctx, ast.Del) and isinstance(par.slice, ast.Slice) and par.slice.lower is None \
                and par.slice.upper is None and par.slice.step is None:
            return (True, 'the whole list is emptied: order-insensitive')
        return (False, 'indexing the stored child list')
    if isinstance(par, ast.Assign) and par.value is n:
        return ('alias', par)
    if isinstance(par, ast.Call) and isinstance(par.func, ast.Name) and par.func.id == 'enumerate':
        return (False, 'enumerate over the stored child order')
    return (False, 'stored child list used as an ordered sequence')


# ------------------------------------------------------------------------------------ R-LEVELS

def r_levels(prog, tier):
    obs = []
    f = prog.func('trees', 'levels')
    cfg = f.cfg
    stores = []
    for n in cfg.eval_nodes():
        if n.kind == 'stmt' and isinstance(n.ast, ast.Assign) and isinstance(n.ast.targets[0], ast.Subscript):
            stores.append(n)
        if n.kind == 'stmt' and isinstance(n.ast, ast.Expr) and isinstance(n.ast.value, ast.Call) \
                and isinstance(n.ast.value.func, ast.Attribute) and n.ast.value.func.attr in ('append', 'setdefault'):
            stores.append(n)
    if not stores:
        raise Unrecognised('trees.levels records nothing in a way this rule recognises', partial=obs)
    for n in stores:
        facts = [x[0] for x in facts_at(cfg, n.id)]
        g = any(fa[0] == 'opaque' and fa[1].startswith('has_children(') and fa[2] is True for fa in facts) or \
            any(fa[0] == 'cmp' and fa[1] == '0' and fa[2] == '<' and fa[3].startswith('len(') for fa in facts)
        hc_anywhere = any(isinstance(x, ast.Call) and prog.callee(x, f) == ('trees', 'has_children') for x in walk_own(f.node))
        obs.append(Ob('R-LEVELS', f.fq, 'a level is recorded for constituents only: `%s`' % unparse(n.ast)[:60],
                      True if g else (False if not hc_anywhere else None),
                      'guarded by has_children(...)' if g else ('tokens would get a level and later an export number that '
                      'overwrites their position' if not hc_anywhere else 'guard not recognised'),
                      construct='lvl-store:' + unparse(n.ast), line=n.lineno))
    # the two tables (level -> nodes, node -> level) are filled together
    loopv = None
    for n in cfg.eval_nodes():
        if n.kind == 'iter' and not n.loops and isinstance(n.ast.target, ast.Name):
            loopv = n.ast.target.id
    if loopv:
        app = [n for n in stores if isinstance(n.ast, ast.Expr) and isinstance(n.ast.value, ast.Call)
               and n.ast.value.func.attr == 'append' and n.ast.value.args and unparse(n.ast.value.args[0]) == loopv]
        rev = [n for n in stores if isinstance(n.ast, ast.Assign) and unparse(n.ast.targets[0].slice) == loopv]
        if app and rev:
            together = all(cfg.always_with(a.id, r.id) and cfg.always_with(r.id, a.id) for a in app for r in rev)
            if not together:
                # both filings written once per branch: every filing into one table has a partner into the other on its branch
                filed = app + [n for n in stores if isinstance(n.ast, ast.Assign) and isinstance(n.ast.value, ast.List)
                               and any(isinstance(e_, ast.Name) and e_.id == loopv for e_ in n.ast.value.elts)]
                pair = lambda x, ys: any(cfg.always_with(x.id, y.id) and cfg.always_with(y.id, x.id) for y in ys)
                if all(pair(a, rev) for a in filed) and all(pair(r, filed) for r in rev):
                    together = True
            if not together and len(rev) == 1 and rev[0].loops and all(a.loops and a.loops[-1] == rev[0].loops[-1] for a in app):
                # the same filing written once per branch: taken together, one of them runs whenever the other table is written
                r0, hdr = rev[0], rev[0].loops[-1]
                aids = frozenset(a.id for a in app)
                after = all(cfg.dominates(r0.id, a.id) for a in app) and hdr not in cfg.reach(r0.id, avoid=aids)
                before = all(cfg.dominates(a.id, r0.id) or r0.id in cfg.reach(a.id, avoid=frozenset([hdr])) for a in app) \
                    and r0.id not in cfg.reach(hdr, avoid=aids | {hdr}) and all(hdr not in cfg.reach(a.id, avoid=frozenset([r0.id])) for a in app)
                if after or before:
                    together = True
            cond = None
            if not together:
                for r in rev:
                    extra = [x[0] for x in facts_at(cfg, r.id) if x[0] not in [y[0] for y in facts_at(cfg, app[0].id)]]
                    if extra:
                        cond = (unparse(r.ast), extra[-1])
                for a in app:
                    extra = [x[0] for x in facts_at(cfg, a.id) if x[0] not in [y[0] for y in facts_at(cfg, rev[0].id)]]
                    if extra:
                        cond = (unparse(a.ast), extra[-1])
            if not together and not all(cfg.same_loop(a.id, r.id) for a in app for r in rev):
                cond = None         # the two tables are filled in different loops: not comparable statement by statement
            obs.append(Ob('R-LEVELS', f.fq, 'every constituent is entered into both level tables',
                          True if together else (False if cond else None),
                          'the two recordings always happen together' if together else
                          ('`%s` additionally depends on %s: some constituents are missing from one of the two tables'
                           % cond if cond else 'recordings not matched'), construct='lvl-both', line=f.node.lineno))
    # both tables record the same level for the node
    if loopv:
        app = [n for n in stores if isinstance(n.ast, ast.Expr) and isinstance(n.ast.value, ast.Call)
               and n.ast.value.func.attr == 'append' and n.ast.value.args and unparse(n.ast.value.args[0]) == loopv
               and isinstance(n.ast.value.func.value, ast.Subscript)]
        rev = [n for n in stores if isinstance(n.ast, ast.Assign) and unparse(n.ast.targets[0].slice) == loopv]
        if app and rev:
            keys = set(unparse(a.ast.value.func.value.slice) for a in app)
            vals = set(unparse(r.ast.value) for r in rev)
            verdict_, why_ = None, 'level expressions %s / %s not compared' % (sorted(keys), sorted(vals))
            if keys == vals:
                verdict_, why_ = True, 'the node is filed under `%s` and that same value is recorded for it' % sorted(keys)[0]
            elif len(keys) == 1 and len(vals) == 1 and all(k.isidentifier() for k in keys | vals):
                k_, v_ = sorted(keys)[0], sorted(vals)[0]
                dk = [v for (_, v) in name_defs(f, k_)]
                dv = [v for (_, v) in name_defs(f, v_)]
                # positive evidence: two different locals with different definitions
                if dk and dv and sorted(unparse(x) if isinstance(x, ast.AST) else str(x) for x in dk) != \
                        sorted(unparse(x) if isinstance(x, ast.AST) else str(x) for x in dv):
                    verdict_, why_ = False, 'the node is filed under level `%s` but `%s` is recorded as its level: the two ' \
                                            'tables disagree whenever these differ' % (k_, v_)
            obs.append(Ob('R-LEVELS', f.fq, 'the level recorded for a node is the level it is filed under', verdict_, why_,
                          construct='lvl-same', line=f.node.lineno))
    # the recorded level is a maximum over the paths to the tokens
    lv = None
    for n in stores:
        if isinstance(n.ast, ast.Assign) and isinstance(n.ast.value, ast.Name):
            lv = n.ast.value.id          # reverse_levels[subtree] = level
    verdict = None
    why = 'the computation of the level has a shape this rule does not recognise'
    if lv:
        inloop = [(nid, v) for (nid, v) in name_defs(f, lv) if cfg.nodes[nid].loops and isinstance(v, ast.AST)
                  and not isinstance(v, ast.Constant)]
        good = 0
        bad = []
        for (nid, v) in inloop:
            if isinstance(v, ast.Call) and isinstance(v.func, ast.Name) and v.func.id == 'max':
                good += 1
                continue
            facts = [x[0] for x in facts_at(cfg, nid)]
            vs = unparse(v)
            if ('cmp', lv, '<', vs) in facts or ('cmp', lv, '<=', vs) in facts:
                good += 1
                continue
            inner = len(cfg.nodes[nid].loops) >= 2
            if inner:
                bad.append(vs)
        if bad:
            verdict, why = False, '`%s = %s` inside the loop over paths without max() / comparison: the last path wins, ' \
                                  'not the longest' % (lv, bad[0])
        elif good:
            verdict, why = True, '`%s` is aggregated with max() or a guarded update' % lv
            # ... starting afresh for every node: the initial value is set inside the loop over the nodes
            rec = [n for n in stores if isinstance(n.ast, ast.Assign) and isinstance(n.ast.value, ast.Name) and n.ast.value.id == lv]
            inits = [nid for (nid, v) in name_defs(f, lv) if isinstance(v, ast.Constant)]
            if rec and rec[0].loops and inits and all(rec[0].loops[0] not in cfg.nodes[nid].loops for nid in inits):
                verdict = False
                why = '`%s` is set to its initial value once, before the loop over the nodes (line %d), and only ever raised ' \
                      'inside it: a node gets the largest level of all nodes visited before it, not its own' % (
                          lv, cfg.nodes[inits[0]].lineno)
    obs.append(Ob('R-LEVELS', f.fq, 'the level of a node is the maximum over its downward paths', verdict, why,
                  construct='lvl-max', line=f.node.lineno))
    return obs, {}


# ------------------------------------------------------------------------------------ R-EXPNUM

def _is_leftmost_sorted(prog, f, call):
    """sorted(X, key=<leftmost>) without reverse; key may be a lambda, a nested def or a module function"""
    is_sorted = isinstance(call, ast.Call) and isinstance(call.func, ast.Name) and call.func.id == 'sorted' and call.args
    is_sort = isinstance(call, ast.Call) and isinstance(call.func, ast.Attribute) and call.func.attr == 'sort' and not call.args
    if not (is_sorted or is_sort):
        return False
    if _kw(call, 'reverse') is not None:
        return False
    k = _kw(call, 'key')
    if isinstance(k, ast.Lambda):
        return _leftmost_key(k, prog, f)
    if isinstance(k, ast.Name):
        for n in ast.walk(f.node):
            if isinstance(n, ast.FunctionDef) and n.name == k.id and n is not f.node:
                rets = [r for r in ast.walk(n) if isinstance(r, ast.Return)]
                if len(rets) == 1 and len(n.args.args) == 1 and rets[0].value is not None:
                    lam = ast.Lambda(args=n.args, body=rets[0].value)
                    return _leftmost_key(lam, prog, f)
        return _key_kind(prog, f, k) == 'leftmost'
    return False


def r_expnum(prog, tier):
    """compute_export_numbering: counter from 500, +1 per node, levels ascending, left to right
    inside a level, root 0."""
    obs = []
    f = prog.func('treeoutput', 'compute_export_numbering')
    cfg = f.cfg
    root = f.params[0]
    stores = [n for n in cfg.eval_nodes() if n.kind == 'stmt' and isinstance(n.ast, ast.Assign) and len(n.ast.targets) == 1
              and unparse(n.ast.targets[0]).endswith(".data['num']")]
    loop_stores = [n for n in stores if n.loops]
    root_stores = [n for n in stores if not n.loops]
    if not loop_stores:
        raise Unrecognised('compute_export_numbering assigns no numbers in a loop', partial=obs)
    all_calls = [x for x in ast.walk(f.node) if isinstance(x, ast.Call)]
    any_leftmost_sort = any(_is_leftmost_sorted(prog, f, c) for c in all_calls)
    any_reverse = any(_kw(c, 'reverse') is not None for c in all_calls if isinstance(c.func, ast.Name) and c.func.id == 'sorted')
    # the name holding the level table
    lvname = None
    for n in cfg.eval_nodes():
        if n.kind == 'stmt' and isinstance(n.ast, ast.Assign) and isinstance(n.ast.value, ast.Call) \
                and prog.callee(n.ast.value, f) == ('trees', 'levels'):
            t = n.ast.targets[0]
            lvname = unparse(t.elts[0]) if isinstance(t, ast.Tuple) else unparse(t)
    sorted_levels = [c for c in all_calls if isinstance(c.func, ast.Name) and c.func.id == 'sorted' and c.args and lvname
                     and unparse(c.args[0]) in (lvname, lvname + '.keys()', lvname + '.items()')
                     and _kw(c, 'reverse') is None and _kw(c, 'key') is None]
    for n in loop_stores:
        v = n.ast.value
        # (N1) consecutive from 500
        ok, why = None, 'numbering idiom not recognised'
        if isinstance(v, ast.Name):
            c = v.id
            defs = name_defs(f, c)
            inits = [d for d in defs if isinstance(d[1], ast.Constant)]
            incs = [d for d in defs if isinstance(d[1], tuple) and d[1][0] == 'aug']
            enum = [d for d in defs if isinstance(d[1], tuple) and d[1][0] == 'iter' and isinstance(d[1][1], ast.Call)
                    and unparse(d[1][1].func) == 'enumerate']
            if enum and len(defs) == 1:
                e = enum[0][1][1]
                st = e.args[1] if len(e.args) > 1 else _kw(e, 'start')
                tgt = enum[0][1][2]
                is_index = isinstance(tgt, ast.Tuple) and unparse(tgt.elts[0]) == c
                if is_index and isinstance(st, ast.Constant):
                    ok = st.value == 500
                    why = 'enumerate(..., 500) index' if ok else 'numbering starts at %r, not 500' % st.value
                elif is_index and st is None:
                    ok, why = False, 'numbering starts at 0, not 500'
            elif len(inits) == 1 and len(incs) == 1 and len(defs) == 2:
                init_ok = inits[0][1].value == 500 and not cfg.nodes[inits[0][0]].loops
                inc_ok = unparse(incs[0][1][1]) == '%s += 1' % c and cfg.same_loop(incs[0][0], n.id) \
                    and cfg.always_with(n.id, incs[0][0]) and cfg.always_with(incs[0][0], n.id)
                if init_ok and inc_ok:
                    ok, why = True, 'counter `%s` starts at 500 outside the loops, +1 exactly once per assignment' % c
                elif not init_ok and isinstance(inits[0][1].value, int):
                    ok, why = False, 'counter `%s` starts at %r (or is re-initialised inside a loop)' % (c, inits[0][1].value)
                elif not inc_ok:
                    ok, why = False, 'counter `%s` is not incremented exactly once per numbered node' % c
        obs.append(Ob('R-EXPNUM', f.fq, 'constituent numbers are consecutive from 500: `%s`' % unparse(n.ast), ok, why,
                      construct='num-store:' + unparse(n.ast), line=n.lineno))
        # (N2a) levels ascending
        rev_iter = [x for x in ast.walk(f.node) if isinstance(x, ast.For) and isinstance(x.iter, ast.Call)
                    and unparse(x.iter.func) == 'reversed' and lvname and lvname in unparse(x.iter)
                    and 'sorted(' not in unparse(x.iter)]
        if rev_iter:
            asc, whya = False, 'the levels are visited in reversed dictionary order (`%s`), not in ascending order: a ' \
                               'constituent can be numbered below its descendants' % unparse(rev_iter[0].iter)[:50]
        elif any_reverse:
            asc, whya = False, 'a sort in reverse order decides the numbering'
        elif sorted_levels:
            asc, whya = True, 'the level numbers are visited through sorted(%s)' % lvname
        elif lvname and any(isinstance(x, (ast.For, ast.comprehension)) and unparse(x.iter) in (lvname, lvname + '.keys()', lvname + '.values()', lvname + '.items()')
                            for x in ast.walk(f.node)) and not any(_is_leftmost_sorted(prog, f, c) and unparse(c.args[0]) == lvname for c in all_calls):
            # the table is iterated only in dictionary order
            only_unsorted = not sorted_levels
            asc, whya = (False, 'levels are visited in dictionary order, not ascending') if only_unsorted else (None, '?')
            # a pre-pass that only sorts each level list is fine: look for a second, sorted iteration
            iters = [x for x in ast.walk(f.node) if isinstance(x, ast.For)]
            if len(iters) >= 2:
                asc, whya = None, 'order of the levels not recognised'
        else:
            asc, whya = None, 'order of the levels not recognised'
        obs.append(Ob('R-EXPNUM', f.fq, 'levels are numbered in ascending order (children below parents)', asc, whya,
                      construct='num-asc', line=n.lineno))
        # (N2b) left to right within a level
        any_sort = any((isinstance(c.func, ast.Name) and c.func.id == 'sorted' and _kw(c, 'key') is not None)
                       or (isinstance(c.func, ast.Attribute) and c.func.attr == 'sort') for c in all_calls)
        helper_calls = [c for c in all_calls if prog.callee(c, f) is not None and prog.callee(c, f) != ('trees', 'levels')
                        and prog.callee(c, f)[1] not in ('terminals', 'children')]
        # positive evidence: the sort key reads the NUMBER OF A CHILD NODE - for a child that is a phrase this is the phrase
        # number being handed out (500, 501, ...), compared with the token numbers of children that are tokens
        childnum = None
        for c in all_calls:
            k_ = _kw(c, 'key')
            if isinstance(k_, ast.Lambda) and ".data['num']" in unparse(k_.body) and 'children(' in unparse(k_.body) \
                    and 'terminals(' not in unparse(k_.body):
                childnum = unparse(k_.body)
        if not any_leftmost_sort and childnum:
            l2r = False
            whyl = 'the nodes of a level are sorted by `%s`, the number of their first CHILD: a first child that is a phrase already ' \
                   'carries its new phrase number (500 and up), so a node starting with a phrase sorts behind every node starting ' \
                   'with a token' % childnum[:60]
        elif not any_leftmost_sort and (any_sort or helper_calls or prog.opaque_calls(f, [lvname] if lvname else [])):
            l2r, whyl = None, 'a sort with a key this rule does not recognise decides the order inside a level'
        elif not any_leftmost_sort:
            l2r, whyl = False, 'nodes of one level are never sorted by their leftmost token: they are numbered in the order ' \
                               'the traversal collected them'
        else:
            l2r, whyl = True, 'each level is sorted by leftmost token (sorted(..., key=<leftmost token number>))'
        obs.append(Ob('R-EXPNUM', f.fq, 'within a level nodes are numbered left to right', l2r, whyl,
                      construct='num-l2r', line=n.lineno))
    okr = None
    whyr = 'root numbering not recognised'
    zero = [r for r in root_stores if unparse(r.ast) == "%s.data['num'] = 0" % root]
    if zero and all(cfg.dominates(l.loops[0], zero[0].id) for l in loop_stores) and cfg.postdominates(zero[0].id, cfg.entry):
        okr, whyr = True, '`%s.data[\'num\'] = 0` after the numbering loops' % root
    elif not zero and not any("%s.data['num']" % root in unparse(r.ast) for r in stores):
        okr, whyr = False, 'the root is never numbered 0'
    elif zero:
        # positive evidence: some way out of the function does not pass the store (an early return for a "trivial" tree)
        exits = [p_ for p_ in cfg.pred[cfg.exit] if cfg.nodes[p_].kind != 'stmt' or not isinstance(cfg.nodes[p_].ast, ast.Raise)]
        reach = cfg.reach(cfg.entry, avoid=frozenset(z.id for z in zero))
        skipping = [p_ for p_ in exits if p_ in reach and p_ not in [z.id for z in zero]]
        if skipping and not prog.opaque_calls(f, [root]):
            nd = cfg.nodes[skipping[0]]
            conds = [unparse(a.ast)[:40] for a in cfg.assumes_at(nd.id)]
            okr = False
            whyr = 'line %d leaves the function (under %s) without numbering the root 0: a tree whose root is its only ' \
                   'constituent keeps a missing or stale root number' % (nd.lineno, conds)
    obs.append(Ob('R-EXPNUM', f.fq, 'the root gets number 0 after the constituents are numbered', okr, whyr,
                  construct='num-root', line=f.node.lineno))
    return obs, {}


# ------------------------------------------------------------------------------------ R-NAV

def r_nav(prog, tier):
    """Siblings are the neighbours at offset +1 / -1 in the ordered child list; dominance() is the
    node followed by its chain of parents."""
    obs = []
    for nm, want in (('right_sibling', 1), ('left_sibling', -1)):
        f = prog.func('trees', nm)
        cfg = f.cfg
        t = f.params[0]
        loops = [n for n in cfg.eval_nodes() if n.kind == 'iter']
        ok = None
        why = 'sibling scan has a shape this rule does not recognise'
        for lp in loops:
            it = lp.ast.iter
            # zip(S, S[1:]) over neighbouring pairs
            if isinstance(it, ast.Call) and unparse(it.func) == 'zip' and len(it.args) == 2 \
                    and isinstance(lp.ast.target, ast.Tuple) and len(lp.ast.target.elts) == 2 \
                    and unparse(it.args[1]) == unparse(it.args[0]) + '[1:]':
                a_, b_ = [unparse(x) for x in lp.ast.target.elts]
                for r in [n for n in cfg.eval_nodes() if n.kind == 'stmt' and isinstance(n.ast, ast.Return) and lp.id in n.loops]:
                    facts = [x[0] for x in facts_at(cfg, r.id) if lp.id in cfg.nodes[x[1]].loops]
                    rv = unparse(r.ast.value) if r.ast.value is not None else None
                    for (found, other, off) in ((a_, b_, 1), (b_, a_, -1)):
                        if (('cmp', found, '==', t) in facts or ('cmp', t, '==', found) in facts) and rv == other:
                            ok = off == want
                            why = 'pairs of neighbours: returns the %s element of the pair whose other element is the node ' \
                                  '(offset %+d)' % ('second' if off == 1 else 'first', off)
                continue
            if not (isinstance(it, ast.Call) and unparse(it.func) == 'enumerate' and it.args
                    and isinstance(lp.ast.target, ast.Tuple) and len(lp.ast.target.elts) == 2):
                continue
            src = it.args[0]
            start = 0
            estart = 0
            es = it.args[1] if len(it.args) > 1 else _kw(it, 'start')
            if es is not None:
                estart = es.value if isinstance(es, ast.Constant) and isinstance(es.value, int) else None
            lst = None
            if isinstance(src, ast.Subscript) and isinstance(src.slice, ast.Slice) and isinstance(src.value, ast.Name):
                lst = src.value.id
                lo = src.slice.lower
                start = lo.value if isinstance(lo, ast.Constant) else (0 if lo is None else None)
            elif isinstance(src, ast.Name):
                lst = src.id
            iv, ev = [unparse(x) for x in lp.ast.target.elts]
            for r in [n for n in cfg.eval_nodes() if n.kind == 'stmt' and isinstance(n.ast, ast.Return) and lp.id in n.loops]:
                facts = [x[0] for x in facts_at(cfg, r.id) if lp.id in cfg.nodes[x[1]].loops]
                match = ('cmp', ev, '==', t) in facts or ('cmp', t, '==', ev) in facts
                v = r.ast.value
                k = None
                if isinstance(v, ast.Subscript) and unparse(v.value) == lst:
                    s = v.slice
                    if unparse(s) == iv:
                        k = 0
                    elif isinstance(s, ast.BinOp) and unparse(s.left) == iv and isinstance(s.right, ast.Constant):
                        k = s.right.value if isinstance(s.op, ast.Add) else -s.right.value
                if match and k is not None and start is not None and estart is not None:
                    off = k + estart - start
                    ok = off == want
                    why = 'returns %s[%s%+d] for the element found at slice offset %d: neighbour offset %+d' \
                          % (lst, iv, k, start, off)
        lstdef_ok = any(isinstance(n, ast.Assign) and isinstance(n.value, ast.Call)
                        and ((prog.callee(n.value, f) == ('trees', 'children')
                              and unparse(n.value.args[0]) == '%s.parent' % t)
                             or (_is_leftmost_sorted(prog, f, n.value) and unparse(n.value.args[0]) == '%s.parent.children' % t))
                        for n in walk_own(f.node))
        obs.append(Ob('R-NAV', f.fq, '%s returns the neighbour at offset %+d in the ordered children of the parent'
                      % (nm, want), (True if (ok and lstdef_ok) else (False if ok is False else None)) if ok is not None else None,
                      why, construct='nav:' + nm,
                      line=f.node.lineno))
        rootn = [n for n in cfg.eval_nodes() if n.kind == 'stmt' and isinstance(n.ast, ast.Return)
                 and isinstance(n.ast.value, ast.Constant) and n.ast.value.value is None]
        okn = any(('none', '%s.parent' % t, True) in [x[0] for x in facts_at(cfg, r.id)] for r in rootn) and \
            any(not r.loops and cfg.dominates(loops[0].id, r.id) for r in rootn if loops)
        obs.append(Ob('R-NAV', f.fq, '%s of the root, and of the outermost child, is None' % nm, True if okn else None,
                      'None without parent and after an unsuccessful scan' if okn else 'missing None result',
                      construct='nav-none:' + nm, line=f.node.lineno, nontrivial=False))
    f = prog.func('trees', 'dominance')
    cfg = f.cfg
    t = f.params[0]
    ys = [n for n in cfg.eval_nodes() if n.kind == 'stmt' and isinstance(n.ast, ast.Expr)
          and isinstance(n.ast.value, ast.Yield)]
    first = [y for y in ys if not y.loops]
    inloop = [y for y in ys if y.loops]
    ok = None
    why = 'shape not recognised'
    if len(first) == 1 and len(inloop) == 1:
        v0 = unparse(first[0].ast.value.value)
        d0 = v0 == t or any(isinstance(v, ast.AST) and unparse(v) == t for (_, v) in name_defs(f, v0))
        w = cfg.nodes[inloop[0].loops[-1]]
        cur = unparse(inloop[0].ast.value.value)
        climb = w.kind == 'test' and norm_test(w.ast, True) == ('none', '%s.parent' % cur, False) and any(
            n.kind == 'stmt' and unparse(n.ast) == '%s = %s.parent' % (cur, cur) and cfg.in_every_iteration(w.id, n.id)
            and cfg.dominates(n.id, inloop[0].id) for n in cfg.eval_nodes())
        ok = True if (d0 and climb and cfg.dominates(first[0].id, w.id)) else None
        why = 'yields the node, then each parent while one exists' if ok else 'first yield is the node: %s, climb loop: %s' % (d0, climb)
    if first:
        rets_ = [n for n in cfg.eval_nodes() if n.kind == 'stmt' and isinstance(n.ast, ast.Return)]
        early = [r for r in rets_ if r.id in cfg.reach(cfg.entry, avoid=frozenset([first[0].id]))]
        v0_ = unparse(first[0].ast.value.value)
        is_node = v0_ == t or any(isinstance(v, ast.AST) and unparse(v) == t for (_, v) in name_defs(f, v0_))
        if early and is_node:
            ok = False
            why = 'line %d returns before the node itself is yielded: for that case the path is empty instead of starting ' \
                  'with the node' % early[0].lineno
    obs.append(Ob('R-NAV', f.fq, 'dominance() runs from the node through every ancestor to the root', ok, why,
                  construct='nav-dominance', line=f.node.lineno))
    return obs, {}
