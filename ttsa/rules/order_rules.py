"""R-ORDERED (ordered accessors: definitions and raw uses), R-LEVELS, R-EXPNUM."""
import ast

from ..core import AnalysisError, path, unparse, norm_test, facts_at, walk_own
from ..events import name_defs, single_def
from ..report import Ob


def _leftmost_key(lam, prog, func):
    """Is `lam` a lambda x: <number of the leftmost token of x>?"""
    if not isinstance(lam, ast.Lambda) or len(lam.args.args) != 1:
        return False
    x = lam.args.args[0].arg
    b = lam.body
    s = unparse(b)
    for t in ('terminals', 'trees.terminals'):
        if s == "%s(%s)[0].data['num']" % (t, x):
            return True
    # min(... .data['num'] for ... in terminals(x)) in list or generator form
    if isinstance(b, ast.Call) and isinstance(b.func, ast.Name) and b.func.id == 'min' and len(b.args) == 1:
        g = b.args[0]
        if isinstance(g, (ast.ListComp, ast.GeneratorExp)) and len(g.generators) == 1 \
                and not g.generators[0].ifs and isinstance(g.generators[0].target, ast.Name):
            v = g.generators[0].target.id
            it = unparse(g.generators[0].iter)
            if unparse(g.elt) == "%s.data['num']" % v and it in (
                    'terminals(%s)' % x, 'trees.terminals(%s)' % x, 'unordered_terminals(%s)' % x,
                    'trees.unordered_terminals(%s)' % x):
                return True
    return False


def _num_key(lam):
    if not isinstance(lam, ast.Lambda) or len(lam.args.args) != 1:
        return False
    return unparse(lam.body) == "%s.data['num']" % lam.args.args[0].arg


def _kw(call, name):
    for k in call.keywords:
        if k.arg == name:
            return k.value
    return None


def _returns(func):
    return [n for n in walk_own(func.node) if isinstance(n, ast.Return)]


def _yields(func):
    return [n for n in walk_own(func.node) if isinstance(n, (ast.Yield, ast.YieldFrom))]


# raw `.children` uses outside the accessor: function -> reason it may iterate the stored order
RAW_OK = {
    'trees.unordered_terminals': 'documented as unordered; used only where order is irrelevant',
    'trees.terminals': 'collects recursively, the result is sorted by token number before it is returned',
}


def r_ordered(prog, tier):
    obs = []
    T = prog.modules['trees']
    # ---- (a) definitions
    f = prog.func('trees', 'children')
    rets = _returns(f)
    ok = False
    why = 'children() must return sorted(<tree>.children, key=<number of leftmost token>)'
    if len(rets) == 1 and isinstance(rets[0].value, ast.Call):
        c = rets[0].value
        if isinstance(c.func, ast.Name) and c.func.id == 'sorted' and len(c.args) == 1 \
                and unparse(c.args[0]) == '%s.children' % f.params[0] and _kw(c, 'reverse') is None \
                and _leftmost_key(_kw(c, 'key'), prog, f):
            ok = True
            why = 'returns sorted(%s.children) keyed by the number of the leftmost token' % f.params[0]
    obs.append(Ob('R-ORDERED/DEF', f.fq, 'children() orders by leftmost token', ok, why,
                  construct='def-children', line=f.node.lineno))
    f = prog.func('trees', 'terminals')
    rets = _returns(f)
    cfg = f.cfg
    good = []
    for r in rets:
        v = r.value
        node = cfg.node_of(r)
        facts = [x[0] for x in facts_at(cfg, node)]
        leaf = ('cmp', 'len(%s.children)' % f.params[0], '==', '0') in facts or \
               ('opaque', 'has_children(%s)' % f.params[0], False) in facts
        if leaf:
            good.append(isinstance(v, ast.List) and len(v.elts) == 1 and unparse(v.elts[0]) == f.params[0])
        else:
            g = isinstance(v, ast.Call) and isinstance(v.func, ast.Name) and v.func.id == 'sorted' \
                and _kw(v, 'reverse') is None and _num_key(_kw(v, 'key')) and len(v.args) == 1 \
                and isinstance(v.args[0], ast.Name)
            if g:
                # the sorted list collects terminals(child) for every stored child
                res = v.args[0].id
                coll = False
                for n in cfg.eval_nodes():
                    if n.kind == 'stmt':
                        for sub in walk_own(n.ast):
                            if isinstance(sub, ast.Call) and isinstance(sub.func, ast.Attribute) \
                                    and sub.func.attr == 'extend' and path(sub.func.value) == res \
                                    and sub.args and prog.callee(sub.args[0], f) == ('trees', 'terminals') \
                                    and n.loops:
                                it = cfg.nodes[n.loops[-1]]
                                if it.kind == 'iter' and unparse(it.ast.iter) == '%s.children' % f.params[0] \
                                        and unparse(sub.args[0].args[0]) == unparse(it.ast.target) \
                                        and cfg.in_every_iteration(it.id, n.id):
                                    # unconditional inside the loop body
                                    coll = True
                g = coll
            good.append(bool(g))
    ok = bool(rets) and all(good)
    obs.append(Ob('R-ORDERED/DEF', f.fq, 'terminals() returns the tokens sorted by number', ok,
                  'leaf returns [tree]; otherwise sorted(collected terminals of all children, key=num)' if ok else
                  'a return of terminals() is not the sorted collection of all children\'s terminals',
                  construct='def-terminals', line=f.node.lineno))
    for nm, first in (('preorder', True), ('postorder', False)):
        f = prog.func('trees', nm)
        cfg = f.cfg
        ys = [y for y in _yields(f) if isinstance(y, ast.Yield) and y.value is not None
              and unparse(y.value) == f.params[0]]
        loops = [n for n in cfg.eval_nodes() if n.kind == 'iter' and not n.loops]
        ok = False
        why = '%s() must yield its argument exactly once, %s recursing over children(tree)' \
              % (nm, 'before' if first else 'after')
        if len(ys) == 1 and len(loops) == 1:
            yn = cfg.node_of(ys[0])
            ln = loops[0]
            it = ln.ast.iter
            ordered = prog.callee(it, f) == ('trees', 'children') and unparse(it.args[0]) == f.params[0] \
                if isinstance(it, ast.Call) else False
            noloop = not cfg.nodes[yn].loops
            rec = False
            for n in cfg.eval_nodes():
                if ln.id in n.loops:
                    for root in cfg.exprs(n.id):
                        for sub in ast.walk(root):
                            if isinstance(sub, ast.Call) and prog.callee(sub, f) == ('trees', nm) \
                                    and sub.args and unparse(sub.args[0]) == unparse(ln.ast.target):
                                rec = True
            # every other yield re-yields what the recursion produced
            others = [y for y in _yields(f) if y is not ys[0]]
            inner = all(ln.id in cfg.nodes[cfg.node_of(y)].loops for y in others)
            order = (cfg.dominates(yn, ln.id) and first) or (cfg.dominates(ln.id, yn) and not first
                                                             and cfg.postdominates(yn, ln.id))
            uncond = cfg.always_with(cfg.entry, yn)
            if ordered and noloop and rec and inner and order and uncond:
                ok = True
                why = 'yields `%s` once (unconditionally, outside loops) %s the loop over children(%s) that ' \
                      're-yields the recursion' % (f.params[0], 'before' if first else 'after', f.params[0])
        obs.append(Ob('R-ORDERED/DEF', f.fq, '%s() visits the node itself once and the ordered children '
                      'recursively' % nm, ok, why, construct='def-' + nm, line=f.node.lineno))
    for nm in ('right_sibling', 'left_sibling'):
        f = prog.func('trees', nm)
        ok = False
        for n in walk_own(f.node):
            if isinstance(n, ast.Assign) and isinstance(n.value, ast.Call) \
                    and prog.callee(n.value, f) == ('trees', 'children') \
                    and unparse(n.value.args[0]) == '%s.parent' % f.params[0]:
                ok = True
        obs.append(Ob('R-ORDERED/DEF', f.fq, '%s() looks the node up in the ordered children of its parent' % nm,
                      ok, 'uses children(%s.parent)' % f.params[0] if ok else
                      'does not use the ordered accessor on the parent', construct='def-' + nm,
                      line=f.node.lineno))
    # ---- (b) raw uses of .children
    ncalls = 0
    for f in prog.all_funcs():
        parents = {}
        for n in ast.walk(f.node):
            for c in ast.iter_child_nodes(n):
                parents[c] = n
        for n in walk_own(f.node):
            if isinstance(n, ast.Call) and prog.callee(n, f) == ('trees', 'children'):
                ncalls += 1
            if not (isinstance(n, ast.Attribute) and n.attr == 'children'):
                continue
            if isinstance(n.value, ast.Name) and n.value.id in f.module.aliases \
                    and n.value.id not in f.locals:
                continue        # the accessor function trees.children, not a child list
            par = parents.get(n)
            ctx = _raw_context(n, par, parents)
            if ctx is None:
                continue
            ok = ctx[0]
            why = ctx[1]
            if not ok and f.fq in RAW_OK:
                ok = True
                why = 'RAW table: ' + RAW_OK[f.fq]
            if not ok and f.fq == 'trees.children':
                continue
            obs.append(Ob('R-ORDERED/RAW', f.fq, 'stored child order is not observed: `%s`'
                          % unparse(par if par is not None else n)[:80], ok, why,
                          construct='raw:' + unparse(par if par is not None else n),
                          line=n.lineno, nontrivial=not ok or 'order' in why))
    return obs, {'ordered_accessor_call_sites': ncalls}


def _raw_context(n, par, parents):
    """(ok, why) for a use of `<X>.children`, or None if it is a structural event handled by R-LINK."""
    if isinstance(n.ctx, (ast.Store, ast.Del)):
        return None
    if isinstance(par, ast.Attribute) and par.value is n:
        if par.attr in ('append', 'remove', 'insert'):
            return None
        if par.attr in ('index', 'count'):
            return (par.attr == 'count', 'position in the stored list is order-dependent'
                    if par.attr == 'index' else 'count is order-insensitive')
        return (False, 'method .%s on the stored child list' % par.attr)
    if isinstance(par, ast.Call) and n in par.args:
        fn = par.func
        if isinstance(fn, ast.Name) and fn.id == 'len':
            return (True, 'len() is order-insensitive')
        if isinstance(fn, ast.Name) and fn.id == 'sorted':
            return (True, 'sorted before use')
        if isinstance(fn, ast.Name) and fn.id in ('set', 'frozenset'):
            return (True, 'converted to a set')
        return (False, 'stored child list passed to %s()' % unparse(fn))
    if isinstance(par, ast.comprehension) and par.iter is n:
        comp = parents.get(par)
        outer = parents.get(comp)
        if isinstance(outer, ast.Call) and isinstance(outer.func, ast.Name) and outer.func.id in ('all', 'any', 'sum', 'set', 'max', 'min', 'len'):
            return (True, 'iterated inside %s(): order-insensitive' % outer.func.id)
        return (False, 'comprehension iterates the stored child order')
    if isinstance(par, ast.For) and par.iter is n:
        return (False, 'for-loop iterates the stored child order (and sees removals made in its body)')
    if isinstance(par, ast.Compare):
        return (True, 'membership / comparison is order-insensitive')
    if isinstance(par, ast.Subscript) and par.value is n:
        return (False, 'indexing the stored child list')
    if isinstance(par, ast.Assign) and par.value is n:
        return (False, 'the stored child list is bound to a name and used as a sequence')
    if isinstance(par, ast.Call) and isinstance(par.func, ast.Name) and par.func.id == 'enumerate':
        return (False, 'enumerate over the stored child order')
    return (False, 'stored child list used as an ordered sequence')


# ------------------------------------------------------------------------------------ R-LEVELS

def r_levels(prog, tier):
    obs = []
    f = prog.func('trees', 'levels')
    cfg = f.cfg
    stores = []
    for n in cfg.eval_nodes():
        if n.kind == 'stmt' and isinstance(n.ast, ast.Assign) and isinstance(n.ast.targets[0], ast.Subscript):
            stores.append(n)
        if n.kind == 'stmt' and isinstance(n.ast, ast.Expr) and isinstance(n.ast.value, ast.Call) \
                and isinstance(n.ast.value.func, ast.Attribute) and n.ast.value.func.attr == 'append':
            stores.append(n)
    if not stores:
        raise AnalysisError('trees.levels records nothing')
    for n in stores:
        facts = [x[0] for x in facts_at(cfg, n.id)]
        g = any(fa[0] == 'opaque' and fa[1].startswith('has_children(') and fa[2] is True for fa in facts) or \
            any(fa[0] == 'cmp' and fa[1] == '0' and fa[2] == '<' and fa[3].startswith('len(') for fa in facts)
        obs.append(Ob('R-LEVELS', f.fq, 'a level is recorded for constituents only: `%s`' % unparse(n.ast), g,
                      'guarded by has_children(...)' if g else 'tokens would get a level and later an export '
                      'number that overwrites their position', construct='lvl-store:' + unparse(n.ast),
                      line=n.lineno))
    # the recorded level is a maximum over the paths to the tokens
    lv = None
    for n in stores:
        if isinstance(n.ast, ast.Assign) and isinstance(n.ast.value, ast.Name):
            lv = n.ast.value.id          # reverse_levels[subtree] = level
    agg = False
    if lv:
        for (nid, v) in name_defs(f, lv):
            if isinstance(v, ast.Call) and isinstance(v.func, ast.Name) and v.func.id == 'max':
                agg = True
    obs.append(Ob('R-LEVELS', f.fq, 'the level of a node is the maximum over its downward paths', agg,
                  '`%s` is aggregated with max()' % lv if agg else 'no max() aggregation of the level found',
                  construct='lvl-max', line=f.node.lineno))
    return obs, {}


# ------------------------------------------------------------------------------------ R-EXPNUM

def r_expnum(prog, tier):
    """compute_export_numbering: counter from 500, +1 per node, levels ascending, left to right
    inside a level, root 0."""
    obs = []
    f = prog.func('treeoutput', 'compute_export_numbering')
    cfg = f.cfg
    root = f.params[0]
    stores = []
    for n in cfg.eval_nodes():
        if n.kind == 'stmt' and isinstance(n.ast, ast.Assign) and len(n.ast.targets) == 1 \
                and unparse(n.ast.targets[0]).endswith(".data['num']"):
            stores.append(n)
    loop_stores = [n for n in stores if n.loops]
    root_stores = [n for n in stores if not n.loops]
    if not loop_stores:
        raise AnalysisError('compute_export_numbering assigns no numbers in a loop')
    for n in loop_stores:
        v = n.ast.value
        ok = False
        why = 'the number assigned is not a simple counter'
        if isinstance(v, ast.Name):
            c = v.id
            defs = name_defs(f, c)
            inits = [d for d in defs if isinstance(d[1], ast.Constant)]
            incs = [d for d in defs if isinstance(d[1], tuple) and d[1][0] == 'aug']
            init_ok = len(inits) == 1 and inits[0][1].value == 500 and not cfg.nodes[inits[0][0]].loops \
                and cfg.dominates(inits[0][0], n.id)
            inc_ok = len(incs) == 1 and unparse(incs[0][1][1]) == '%s += 1' % c \
                and cfg.same_loop(incs[0][0], n.id) and cfg.always_with(n.id, incs[0][0]) \
                and cfg.always_with(incs[0][0], n.id)
            other = [d for d in defs if d not in inits and d not in incs]
            if init_ok and inc_ok and not other:
                ok = True
                why = 'counter `%s` starts at 500 outside the loops and is incremented by 1 exactly once ' \
                      'per assignment' % c
            else:
                why = 'counter `%s`: init 500 once outside loops: %s; `+= 1` once per assignment: %s; other ' \
                      'definitions: %d' % (c, init_ok, inc_ok, len(other))
        obs.append(Ob('R-EXPNUM', f.fq, 'constituent numbers are consecutive from 500: `%s`' % unparse(n.ast),
                      ok, why, construct='num-store:' + unparse(n.ast), line=n.lineno))
        # loop structure: outer loop ascending over levels, inner loop over a level sorted by leftmost token
        loops = [cfg.nodes[l] for l in n.loops]
        asc = False
        if loops and loops[0].kind == 'iter':
            it = loops[0].ast.iter
            if isinstance(it, ast.Call) and isinstance(it.func, ast.Name) and it.func.id == 'sorted' \
                    and _kw(it, 'reverse') is None and _kw(it, 'key') is None:
                asc = True
        obs.append(Ob('R-EXPNUM', f.fq, 'levels are numbered in ascending order (children below parents)', asc,
                      'outer loop iterates sorted(...) of the level numbers' if asc else
                      'outer loop `%s` does not iterate the sorted level numbers'
                      % (unparse(loops[0].ast.iter) if loops and loops[0].kind == 'iter' else '?'),
                      construct='num-asc', line=n.lineno))
        l2r = False
        why = 'nodes of one level are not sorted by their leftmost token before they are numbered'
        if len(loops) >= 2 and loops[-1].kind == 'iter':
            it = loops[-1].ast.iter
            if isinstance(it, ast.Call) and isinstance(it.func, ast.Name) and it.func.id == 'sorted' \
                    and _leftmost_key(_kw(it, 'key'), prog, f) and _kw(it, 'reverse') is None:
                l2r = True
                why = 'inner loop iterates the level sorted by leftmost token'
            else:
                # the level lists were sorted in place beforehand, for every level
                for m in cfg.eval_nodes():
                    if m.kind == 'stmt' and isinstance(m.ast, ast.Assign) and isinstance(m.ast.value, ast.Call) \
                            and isinstance(m.ast.value.func, ast.Name) and m.ast.value.func.id == 'sorted' \
                            and _leftmost_key(_kw(m.ast.value, 'key'), prog, f) \
                            and _kw(m.ast.value, 'reverse') is None \
                            and isinstance(m.ast.targets[0], ast.Subscript) \
                            and unparse(m.ast.targets[0]) == unparse(m.ast.value.args[0]) \
                            and m.loops and cfg.dominates(m.loops[-1], n.loops[0]):
                        head = cfg.nodes[m.loops[-1]]
                        if head.kind == 'iter' and unparse(head.ast.iter) in (
                                unparse(m.ast.targets[0].value), unparse(m.ast.targets[0].value) + '.keys()') \
                                and cfg.in_every_iteration(head.id, m.id):
                            l2r = True
                            why = 'every level list is replaced by itself sorted by leftmost token before ' \
                                  'the numbering loop'
        obs.append(Ob('R-EXPNUM', f.fq, 'within a level nodes are numbered left to right', l2r, why,
                      construct='num-l2r', line=n.lineno))
    ok = len(root_stores) == 1 and unparse(root_stores[0].ast) == "%s.data['num'] = 0" % root \
        and all(cfg.dominates(l.loops[0], root_stores[0].id) for l in loop_stores) \
        and cfg.postdominates(root_stores[0].id, cfg.entry)
    obs.append(Ob('R-EXPNUM', f.fq, 'the root gets number 0 after the constituents are numbered', ok,
                  '`%s.data[\'num\'] = 0` post-dominates the numbering loops' % root if ok else
                  'the root is not (unconditionally, afterwards) numbered 0', construct='num-root',
                  line=f.node.lineno))
    return obs, {}


# ------------------------------------------------------------------------------------ R-NAV

def r_nav(prog, tier):
    """Siblings are the neighbours at offset +1 / -1 in the ordered child list; dominance() is the
    node followed by its chain of parents."""
    obs = []
    for nm, want in (('right_sibling', 1), ('left_sibling', -1)):
        f = prog.func('trees', nm)
        cfg = f.cfg
        t = f.params[0]
        loops = [n for n in cfg.eval_nodes() if n.kind == 'iter']
        ok = False
        why = 'loop over the ordered siblings not found'
        for lp in loops:
            it = lp.ast.iter
            if not (isinstance(it, ast.Call) and unparse(it.func) == 'enumerate' and it.args
                    and isinstance(lp.ast.target, ast.Tuple) and len(lp.ast.target.elts) == 2):
                continue
            src = it.args[0]
            start = 0
            lst = None
            if isinstance(src, ast.Subscript) and isinstance(src.slice, ast.Slice) and isinstance(src.value, ast.Name):
                lst = src.value.id
                lo = src.slice.lower
                start = lo.value if isinstance(lo, ast.Constant) else (0 if lo is None else None)
            elif isinstance(src, ast.Name):
                lst = src.id
            iv, ev = [unparse(x) for x in lp.ast.target.elts]
            for r in [n for n in cfg.eval_nodes() if n.kind == 'stmt' and isinstance(n.ast, ast.Return) and lp.id in n.loops]:
                facts = [x[0] for x in facts_at(cfg, r.id) if lp.id in cfg.nodes[x[1]].loops]
                match = ('cmp', ev, '==', t) in facts or ('cmp', t, '==', ev) in facts
                v = r.ast.value
                k = None
                if isinstance(v, ast.Subscript) and unparse(v.value) == lst:
                    s = v.slice
                    if unparse(s) == iv:
                        k = 0
                    elif isinstance(s, ast.BinOp) and unparse(s.left) == iv and isinstance(s.right, ast.Constant):
                        k = s.right.value if isinstance(s.op, ast.Add) else -s.right.value
                if match and k is not None and start is not None:
                    off = k - start
                    ok = off == want
                    why = 'returns %s[%s%+d] for the element found at slice offset %d: neighbour offset %+d' \
                          % (lst, iv, k, start, off)
        lstdef_ok = any(isinstance(n, ast.Assign) and isinstance(n.value, ast.Call)
                        and prog.callee(n.value, f) == ('trees', 'children')
                        and unparse(n.value.args[0]) == '%s.parent' % t for n in walk_own(f.node))
        obs.append(Ob('R-NAV', f.fq, '%s returns the neighbour at offset %+d in the ordered children of the parent'
                      % (nm, want), ok and lstdef_ok, why, construct='nav:' + nm, line=f.node.lineno))
        rootn = [n for n in cfg.eval_nodes() if n.kind == 'stmt' and isinstance(n.ast, ast.Return)
                 and isinstance(n.ast.value, ast.Constant) and n.ast.value.value is None]
        okn = any(('none', '%s.parent' % t, True) in [x[0] for x in facts_at(cfg, r.id)] for r in rootn) and \
            any(not r.loops and cfg.dominates(loops[0].id, r.id) for r in rootn if loops)
        obs.append(Ob('R-NAV', f.fq, '%s of the root, and of the outermost child, is None' % nm, okn,
                      'None without parent and after an unsuccessful scan' if okn else 'missing None result',
                      construct='nav-none:' + nm, line=f.node.lineno, nontrivial=False))
    f = prog.func('trees', 'dominance')
    cfg = f.cfg
    t = f.params[0]
    ys = [n for n in cfg.eval_nodes() if n.kind == 'stmt' and isinstance(n.ast, ast.Expr)
          and isinstance(n.ast.value, ast.Yield)]
    first = [y for y in ys if not y.loops]
    inloop = [y for y in ys if y.loops]
    ok = False
    why = 'shape not recognised'
    if len(first) == 1 and len(inloop) == 1:
        v0 = unparse(first[0].ast.value.value)
        d0 = v0 == t or any(isinstance(v, ast.AST) and unparse(v) == t for (_, v) in name_defs(f, v0))
        w = cfg.nodes[inloop[0].loops[-1]]
        cur = unparse(inloop[0].ast.value.value)
        climb = w.kind == 'test' and norm_test(w.ast, True) == ('none', '%s.parent' % cur, False) and any(
            n.kind == 'stmt' and unparse(n.ast) == '%s = %s.parent' % (cur, cur) and cfg.in_every_iteration(w.id, n.id)
            and cfg.dominates(n.id, inloop[0].id) for n in cfg.eval_nodes())
        ok = d0 and climb and cfg.dominates(first[0].id, w.id)
        why = 'yields the node, then each parent while one exists' if ok else 'first yield is the node: %s, climb loop: %s' % (d0, climb)
    obs.append(Ob('R-NAV', f.fq, 'dominance() runs from the node through every ancestor to the root', ok, why,
                  construct='nav-dominance', line=f.node.lineno))
    return obs, {}
