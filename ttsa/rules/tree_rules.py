"""R-LINK, R-KEEP, R-ROOT, R-FRAME, R-STALE, R-PUNCTSEL: rules about the tree data structure."""
import ast

from ..core import (AnalysisError, Unrecognised, path, unparse, root_name, norm_test, facts_at, no_kill_between,
                    walk_own, names_in)
from ..events import (link_events, data_events, fresh_paths, resolve, single_def, name_defs,
                      is_tree_ctor, mover_helper)
from ..report import Ob

# ------------------------------------------------------------------------------------ helpers


def _is_none(e):
    return isinstance(e, ast.Constant) and e.value is None


def _ordered(cfg, a, b):
    """(first, second) of two CFG nodes by dominance, or None if unordered."""
    if cfg.dominates(a, b):
        return a, b
    if cfg.dominates(b, a):
        return b, a
    return None


def _same_value(func, e1, n1, e2, n2):
    """Do expression e1 at node n1 and e2 at node n2 denote the same value (syntactic access
    paths after alias resolution, no kill of either path between the two nodes)?"""
    p1, p2 = resolve(func, e1, n1), resolve(func, e2, n2)
    r1, r2 = path(e1), path(e2)
    if p1 is None or p2 is None:
        return False
    if p1 != p2 and r1 != r2:
        return False
    cfg = func.cfg
    if n1 == n2:
        return True
    o = _ordered(cfg, n1, n2)
    if o is None:
        # neither dominates: accept if one post-dominates the other and nothing in between kills
        if cfg.postdominates(n2, n1):
            o = (n1, n2)
        elif cfg.postdominates(n1, n2):
            o = (n2, n1)
        else:
            return False
    return no_kill_between(cfg, o[0], o[1], [r1, r2])


def _provably_differ(prog, func, e1, n1, e2, n2):
    """Positive evidence that on some run name e1 at n1 and name e2 at n2 denote different nodes: one of them
    is a parameter that is never re-bound, a definition reaching the other creates a new node."""
    from ..values import value_cases
    if not (isinstance(e1, ast.Name) and isinstance(e2, ast.Name)) or e1.id == e2.id:
        return None
    for (a, na), (b, nb) in (((e1, n1), (e2, n2)), ((e2, n2), (e1, n1))):
        if b.id not in func.params or name_defs(func, b.id):
            continue
        try:
            cases = value_cases(func, a.id, na)
        except Exception:
            return None
        for c in cases:
            if c.kind == 'value' and c.value is not None and is_tree_ctor(prog, func, c.value):
                return '`%s` may hold the node created at line %d, `%s` is always the argument' % (
                    a.id, func.cfg.nodes[c.node].lineno, b.id)
    return None


def movers(prog):
    """Functions of the package that contain structural events, with their events."""
    out = []
    for f in prog.all_funcs():
        if f.module.name == '__main__':
            continue
        evs = link_events(prog, f)
        if evs:
            out.append((f, evs))
    out.sort(key=lambda fe: fe[0].fq)
    return out


def _uncovered_path(cfg, n, cands):
    """Is there a run of the enclosing loop body (or of the function) that executes node n and none of `cands`?"""
    cands = frozenset(c for c in cands if c != n)
    loops = cfg.nodes[n].loops
    if loops:
        start, end = cfg.body_entry(loops[-1]), loops[-1]
    else:
        start, end = cfg.entry, cfg.exit
    if start in cands:
        return False
    before = n == start or n in cfg.reach(start, avoid=cands) or start == n
    after = end in cfg.reach(n, avoid=cands) or (not loops and cfg.rexit in cfg.reach(n, avoid=cands) and False)
    return bool(before and after)


def _absence_verdict(prog, f, ev_node, loose_nodes, roots):
    """Verdict when no exact partner event was found: False only on positive evidence - some run executes the
    event without any candidate partner, and nothing opaque could have done the partner's job."""
    cfg = f.cfg
    if prog.opaque_calls(f, [r for r in roots if r]):
        return None, 'a call that receives the node may do it'
    others = [e for e in link_events(prog, f) if e.kind == 'OTHER']
    if others:
        return None, 'the function also changes child lists in a way that is not modelled (`%s`)' % unparse(others[0].ast)[:40]
    if loose_nodes and not _uncovered_path(cfg, ev_node, loose_nodes):
        return None, 'a candidate partner exists on every path but could not be matched'
    # a candidate under the very conditions of the event (tested a second time in a separate `if`) is skipped only on
    # paths that cannot be taken
    evf = set(fa for (fa, _) in facts_at(cfg, ev_node))
    for c in loose_nodes:
        if c != ev_node and cfg.same_loop(c, ev_node) and set(fa for (fa, _) in facts_at(cfg, c)) <= evf:
            return None, 'a candidate partner runs under the same conditions, tested separately'
    return False, ''


DISCARD = {'trees.delete_terminal': 'the leaf (and ancestors left without children) leave the tree for good'}

# ------------------------------------------------------------------------------------ R-LINK


def r_link(prog, tier):
    obs = []
    nfuncs = 0
    for f, evs in movers(prog):
        nfuncs += 1
        cfg = f.cfg
        fresh = fresh_paths(prog, f)
        atts = [e for e in evs if e.kind == 'ATT']
        pars = [e for e in evs if e.kind == 'PAR']
        dets = [e for e in evs if e.kind == 'DET']
        for e in evs:
            if e.kind == 'OTHER':
                obs.append(Ob('R-LINK/L0', f.fq, 'children lists are changed only by append/insert/remove/'
                              'assignment', None, 'unmodelled structural mutation `%s`' % unparse(e.ast),
                              construct='other:' + unparse(e.ast), line=cfg.nodes[e.node].lineno))
        # L1: every ATT(Q,X) is paired with PAR(X,Q)
        for a in atts:
            found = None
            for p in pars:
                if _is_none(p.q):
                    continue
                if not cfg.same_loop(a.node, p.node):
                    continue
                if not cfg.always_with(a.node, p.node):
                    continue
                if _same_value(f, a.x, a.node, p.x, p.node) and _same_value(f, a.q, a.node, p.q, p.node):
                    found = p
                    break
            verdict, note = True, ''
            if found is None:
                loose = [p.node for p in pars if not _is_none(p.q) and (path(p.x) is None or path(a.x) is None
                                                                       or path(p.x) == path(a.x)
                                                                       or _same_value(f, a.x, a.node, p.x, p.node))]
                verdict, note = _absence_verdict(prog, f, a.node, loose, [root_name(a.x), root_name(a.q)])
                if verdict is None:
                    # a partner for the same node that names another parent, provably a different one on some run
                    for p in pars:
                        if _is_none(p.q) or not cfg.same_loop(a.node, p.node) or not cfg.always_with(a.node, p.node):
                            continue
                        if path(a.x) and _same_value(f, a.x, a.node, p.x, p.node):
                            dv = _provably_differ(prog, f, a.q, a.node, p.q, p.node)
                            if dv:
                                verdict, note = False, 'its partner `%s` names another parent: %s' % (unparse(p.ast), dv)
                                break
            obs.append(Ob('R-LINK/L1', f.fq,
                          'attach `%s` is paired with a parent-pointer update of the attached node on '
                          'every path' % unparse(a.ast), verdict,
                          ('paired with `%s` (line %d)' % (unparse(found.ast), cfg.nodes[found.node].lineno))
                          if found else 'no `%s.parent = %s` executed together with it%s'
                          % (unparse(a.x), unparse(a.q), (' (%s)' % note) if note else ''),
                          construct='att:' + unparse(a.ast), line=cfg.nodes[a.node].lineno))
        # L2: every PAR(X,Q) with Q possibly a node is paired with ATT(Q,X)
        for p in pars:
            if _is_none(p.q):
                continue
            found = None
            why = ''
            for a in atts:
                if not (_same_value(f, a.x, a.node, p.x, p.node) and _same_value(f, a.q, a.node, p.q, p.node)):
                    continue
                if not cfg.same_loop(a.node, p.node):
                    continue
                if cfg.always_with(p.node, a.node):
                    found = a
                    why = 'paired with `%s`' % unparse(a.ast)
                    break
                # exception: the attach may be conditional on the target not being None
                extra = [(fa, nid) for (fa, nid) in facts_at(cfg, a.node)
                         if fa not in [x[0] for x in facts_at(cfg, p.node)]]
                qp = path(p.q)
                okx = bool(extra)
                groups = {}
                for fa, nid in extra:
                    groups.setdefault(nid, []).append(fa)      # a condition and its expansions share the node
                for nid, fas in groups.items():
                    if not any((fa[0] == 'none' and fa[1] == qp and fa[2] is False)
                               or (fa[0] == 'truthy' and fa[1] == qp and fa[2] is True) for fa in fas):
                        okx = False
                    else:
                        owner = cfg.nodes[nid].owner
                        tnode = cfg.stmt_node.get(owner)
                        if tnode is None or not cfg.always_with(p.node, tnode):
                            okx = False
                if okx:
                    found = a
                    why = 'paired with `%s`, conditional only on `%s` not being None' % (unparse(a.ast), qp)
                    break
            if found is None:
                # the node is an element of a list that was assigned wholesale as the parent's children
                d = single_def(f, p.x.id, p.node) if isinstance(p.x, ast.Name) else None
                if d and d[0] != 'param' and isinstance(d[1], tuple) and d[1][0] == 'iter':
                    src = names_in(d[1][1])
                    for c in evs:
                        if c.kind == 'CLR' and _same_value(f, c.q, c.node, p.q, p.node) and (names_in(c.value) & src):
                            found = c
                            why = 'element of the list assigned as `%s.children` (`%s`)' % (unparse(p.q), unparse(c.ast))
            if found is None:
                # the node is collected in a local list that is assigned (sorted / copied / as it is) as the children
                for (lst, an) in _local_list_appends(f, p.x):
                    if cfg.same_loop(an, p.node) and cfg.always_with(p.node, an):
                        for c in evs:
                            if c.kind == 'CLR' and lst in names_in(c.value) and path(c.q) == path(p.q):
                                found = c
                                why = 'collected in `%s`, which becomes `%s.children` (`%s`)' % (lst, unparse(p.q), unparse(c.ast)[:50])
            verdict, note = True, ''
            if found is None:
                loose = [a.node for a in atts if path(a.x) is None or path(p.x) is None or path(a.x) == path(p.x)
                         or _same_value(f, a.x, a.node, p.x, p.node)]
                loose += [c.node for c in evs if c.kind == 'CLR' and not (isinstance(c.value, ast.List) and not c.value.elts)]
                verdict, note = _absence_verdict(prog, f, p.node, loose, [root_name(p.x), root_name(p.q)])
                if verdict is None:
                    for a in atts:
                        if not cfg.same_loop(a.node, p.node) or not cfg.always_with(p.node, a.node):
                            continue
                        if path(a.x) and _same_value(f, a.x, a.node, p.x, p.node):
                            dv = _provably_differ(prog, f, a.q, a.node, p.q, p.node)
                            if dv:
                                verdict, note = False, 'its partner `%s` attaches to another parent: %s' % (unparse(a.ast), dv)
                                break
            obs.append(Ob('R-LINK/L2', f.fq,
                          'parent-pointer update `%s` is paired with an attach to that parent'
                          % unparse(p.ast), verdict,
                          why if found else 'no `%s.children.append(%s)` executed together with it%s'
                          % (unparse(p.q), unparse(p.x), (' (%s)' % note) if note else ''),
                          construct='par:' + unparse(p.ast), line=cfg.nodes[p.node].lineno))
        # L3: every DET(P,X) is followed by a parent-pointer update of X (re-attach or discard)
        for d in dets:
            found = None
            for p in pars:
                if not cfg.same_loop(d.node, p.node):
                    continue
                if not cfg.always_with(d.node, p.node):
                    continue
                if _same_value(f, d.x, d.node, p.x, p.node):
                    found = p
                    break
            ok = found is not None
            detail = ('accompanied by `%s`' % unparse(found.ast)) if found else \
                'the detached node keeps a stale parent pointer (no `%s.parent = ...` accompanies it)' % unparse(d.x)
            if not ok and f.fq in DISCARD:
                ok = True
                detail = 'DISCARD table: ' + DISCARD[f.fq]
            if not ok and f.node.name.startswith('_') and f.cls is None:
                # a private helper that only a DISCARD function (and the helper itself) calls does that function's work
                callers = set()
                for g in prog.all_funcs():
                    for c_ in walk_own(g.node):
                        if isinstance(c_, ast.Call) and prog.callee(c_, g) == (f.module.name, f.node.name):
                            callers.add(g.fq)
                callers.discard(f.fq)
                if callers and all(c_ in DISCARD for c_ in callers):
                    ok = True
                    detail = 'DISCARD table (helper of %s): %s' % (sorted(callers)[0], DISCARD[sorted(callers)[0]])
            if not ok:
                loose = [p.node for p in pars if path(p.x) is None or path(d.x) is None or path(p.x) == path(d.x)
                         or _same_value(f, d.x, d.node, p.x, p.node)]
                ok, note = _absence_verdict(prog, f, d.node, loose, [root_name(d.x)])
                if note:
                    detail += ' (%s)' % note
            obs.append(Ob('R-LINK/L3', f.fq,
                          'detach `%s` is followed by re-attachment or explicit discard of the node'
                          % unparse(d.ast), ok, detail, construct='det:' + unparse(d.ast),
                          line=cfg.nodes[d.node].lineno))
        # L5: a node that this function unhooks somewhere is never attached on a run that skips the unhooking
        for a in atts:
            if path(a.x) is None:
                continue
            ds = [d for d in dets if cfg.same_loop(a.node, d.node) and _same_value(f, a.x, a.node, d.x, d.node)]
            if not ds:
                continue
            verdict, detail = None, 'the unhooking and the attach are not on comparable paths'
            if any(cfg.always_with(a.node, d.node) for d in ds):
                verdict, detail = True, 'every run that attaches the node has unhooked it (`%s`)' % unparse(ds[0].ast)
            elif _uncovered_path(cfg, a.node, [d.node for d in ds]):
                here = [x[0] for x in facts_at(cfg, a.node)]
                for d in ds:
                    extra = [(fa, nid) for (fa, nid) in facts_at(cfg, d.node) if fa not in here]
                    groups = {}
                    for fa, nid in extra:
                        groups.setdefault(nid, []).append(fa)
                    pp = path(d.p)
                    harmless = bool(groups)
                    for nid, fas in groups.items():
                        if not any((fa[0] == 'none' and fa[2] is False and (fa[1] == pp or fa[1].endswith('.parent')))
                                   or (fa[0] == 'truthy' and fa[2] is True and (fa[1] == pp or fa[1].endswith('.parent')))
                                   for fa in fas):
                            harmless = False
                    if harmless:
                        verdict, detail = True, 'the unhooking `%s` is skipped only for a node without parent' % unparse(d.ast)
                        break
                    conds = sorted(set(unparse(cfg.nodes[nid].ast)[:50] for nid in groups if cfg.nodes[nid].ast is not None))
                    if conds and verdict is None:
                        verdict = False
                        detail = 'the unhooking `%s` depends on `%s`, the attach does not: on the other branch the node is ' \
                                 'attached while it still hangs in its old child list (it ends up listed twice)' % (
                                     unparse(d.ast), '`, `'.join(conds))
            obs.append(Ob('R-LINK/L5', f.fq, 'attach `%s` of a node that is unhooked here happens only together with the '
                          'unhooking' % unparse(a.ast), verdict, detail, construct='att-det:' + unparse(a.ast),
                          line=cfg.nodes[a.node].lineno))
        # L4: assignments to .children
        for c in evs:
            if c.kind == 'PERM':
                obs.append(Ob('R-LINK/L4', f.fq, '`%s` only permutes the child list' % unparse(c.ast), True,
                              'sorted() of the same list', construct='perm:' + unparse(c.ast),
                              line=cfg.nodes[c.node].lineno, nontrivial=False))
                continue
            if c.kind != 'CLR':
                continue
            qp = path(c.q)
            v = c.value
            empty = isinstance(v, ast.List) and not v.elts
            is_fresh = qp in fresh or (qp == 'self' and f.name == '__init__')
            if not is_fresh and isinstance(c.q, ast.Name):
                d = single_def(f, c.q.id, c.node)
                if d and d[0] != 'param' and isinstance(d[1], ast.AST) and is_tree_ctor(prog, f, d[1]):
                    is_fresh = True
            if empty and is_fresh:
                obs.append(Ob('R-LINK/L4', f.fq, '`%s` empties the child list of a node created here'
                              % unparse(c.ast), True, 'fresh node', construct='clr:' + unparse(c.ast),
                              line=cfg.nodes[c.node].lineno, nontrivial=False))
                continue
            if empty:
                # need: snapshot S = trees.children(...) before, and an attach of an element of S after
                snaps = []
                for n in cfg.eval_nodes():
                    if n.kind == 'stmt' and isinstance(n.ast, ast.Assign) and len(n.ast.targets) == 1 \
                            and isinstance(n.ast.targets[0], ast.Name) \
                            and cfg.dominates(n.id, c.node) and n.id != c.node:
                        val = n.ast.value
                        fname_ = unparse(val.func).split('.')[-1].lstrip('_') if isinstance(val, ast.Call) else ''
                        if isinstance(val, ast.Call) and (prog.callee(val, f) == ('trees', 'children')
                                                          or fname_ in ('list', 'sorted', 'tuple', 'deque')):
                            snaps.append(n.ast.targets[0].id)
                reatt = None
                for a in atts:
                    if not cfg.dominates(c.node, a.node):
                        continue
                    if _derives_from(f, a.x, a.node, snaps):
                        reatt = a
                        break
                ok = bool(snaps) and reatt is not None
                why4 = ('snapshot %s, re-attached by `%s`' % (snaps, unparse(reatt.ast))) if ok else \
                    'children are dropped: no snapshot taken before / no element of it attached after'
                if not ok and snaps:
                    # a snapshot exists; nothing is re-attached after this statement.  Fine where the snapshot is known to
                    # be empty (the only child was a token that is being absorbed); otherwise no verdict
                    from ..values import is_empty_fact
                    facts_c = [x[0] for x in facts_at(cfg, c.node)]
                    if any(is_empty_fact(facts_c, sn, empty=True) for sn in snaps):
                        ok, why4 = True, 'the snapshot %s is empty on this path: nothing to re-attach' % snaps
                    else:
                        ok, why4 = None, 'a snapshot %s exists but its re-attachment after this statement was not found' % snaps
                obs.append(Ob('R-LINK/L4', f.fq,
                              '`%s` on an existing node is preceded by a snapshot of the children and '
                              'followed by their re-attachment' % unparse(c.ast), ok, why4,
                              construct='clr:' + unparse(c.ast), line=cfg.nodes[c.node].lineno))
                continue
            # bulk assignment of a non-empty value: every element needs its parent pointer set
            src = names_in(v)
            okb = False
            for n in cfg.eval_nodes():
                if n.kind == 'iter' and isinstance(n.ast.target, ast.Name) \
                        and (names_in(n.ast.iter) & src or path(n.ast.iter) == path(c.q) + '.children'):
                    tv = n.ast.target.id
                    for p in pars:
                        if path(p.x) == tv and n.id in cfg.nodes[p.node].loops \
                                and _same_value(f, p.q, p.node, c.q, c.node):
                            okb = True
            if is_fresh and isinstance(v, ast.List) and not v.elts:
                okb = True
            if not okb:
                # every element was put into the assigned list together with its parent pointer
                for nm in src:
                    adds = [m for m in cfg.eval_nodes() if m.kind == 'stmt' and isinstance(m.ast, ast.Expr)
                            and isinstance(m.ast.value, ast.Call) and unparse(m.ast.value.func) == '%s.append' % nm
                            and len(m.ast.value.args) == 1]
                    if adds and all(any(path(p.x) == path(m.ast.value.args[0]) and path(p.q) == path(c.q)
                                        and cfg.same_loop(m.id, p.node) and cfg.always_with(m.id, p.node) for p in pars)
                                    for m in adds):
                        ldefs = [v2 for (_, v2) in name_defs(f, nm) if isinstance(v2, ast.AST)]
                        if ldefs and all(isinstance(v2, ast.List) and not v2.elts for v2 in ldefs):
                            okb = True
            obs.append(Ob('R-LINK/L4', f.fq,
                          'bulk assignment `%s` sets the parent pointer of every element' % unparse(c.ast), okb,
                          'a loop over the assigned elements sets `.parent`' if okb else
                          'children are replaced wholesale but no loop updates the elements\' parent pointers',
                          construct='clr:' + unparse(c.ast), line=cfg.nodes[c.node].lineno))
    return obs, {'mover_functions': nfuncs}


def _local_list_appends(func, x):
    """[(list name, cfg node)] for statements `L.append(x)` with L a local that only ever holds lists made here."""
    out = []
    px = path(x)
    if px is None:
        return out
    for m in func.cfg.eval_nodes():
        if m.kind == 'stmt' and isinstance(m.ast, ast.Expr) and isinstance(m.ast.value, ast.Call) \
                and isinstance(m.ast.value.func, ast.Attribute) and m.ast.value.func.attr == 'append' \
                and isinstance(m.ast.value.func.value, ast.Name) and len(m.ast.value.args) == 1 \
                and path(m.ast.value.args[0]) == px:
            nm = m.ast.value.func.value.id
            defs = [v for (_, v) in name_defs(func, nm) if isinstance(v, ast.AST)]
            if nm in func.locals and defs and all(isinstance(v, ast.List) and not v.elts for v in defs):
                out.append((nm, m.id))
    return out


def _derives_from(func, e, at, snaps, depth=0):
    """Is expression e (at node `at`) an element of one of the snapshot lists `snaps`?"""
    if depth > 4:
        return False
    if isinstance(e, ast.Subscript):
        r = root_name(e)
        return r in snaps
    if isinstance(e, ast.Name):
        defs = name_defs(func, e.id)
        if not defs:
            return False
        good = 0
        for (n, v) in defs:
            if isinstance(v, tuple) and v[0] == 'iter':
                it = v[1]
                if isinstance(it, ast.Name) and it.id in snaps:
                    good += 1
                elif isinstance(it, ast.Subscript) and root_name(it) in snaps:
                    good += 1
            elif isinstance(v, ast.Subscript) and root_name(v) in snaps:
                good += 1
            elif isinstance(v, ast.Call) and isinstance(v.func, ast.Attribute) and v.func.attr in ('pop', 'popleft') \
                    and root_name(v.func.value) in snaps:
                good += 1           # taken out of the snapshot (a work list / deque)
            elif isinstance(v, ast.Constant) and v.value is None:
                continue
        return good > 0
    return False


# ------------------------------------------------------------------------------------ PUNCT filter

def _word_in(expr, varname, sets):
    """Is expr the test `<varname>.data['word'] in trees.<S>` with S in sets?"""
    nt = norm_test(expr, True)
    if nt[0] != 'in' or nt[3] is not True:
        return None
    if nt[1] != "%s.data['word']" % varname:
        return None
    for s in sets:
        if nt[2] in ('trees.' + s, s):
            return s
    return None


def _word_in_pol(expr, pol, varname, sets):
    nt = norm_test(expr, pol)
    if nt[0] != 'in' or nt[3] is not True or nt[1] != "%s.data['word']" % varname:
        return None
    for s in sets:
        if nt[2] in ('trees.' + s, s):
            return s
    return None


def punct_filtered(func, x, at, sets):
    """Is the node denoted by Name x at CFG node `at` known to be a token whose word is in one of
    the inventories `sets`?  (a) a dominating guard, (b) loop variable over a list comprehension
    all of whose definitions filter on that membership.  Returns a reason string or None."""
    if not isinstance(x, ast.Name):
        return None
    cfg = func.cfg
    for a in cfg.assumes_at(at):
        s = _word_in_pol(a.ast, a.pol, x.id, sets)
        if s and no_kill_between(cfg, a.id, at, [x.id]):
            return 'guard `%s%s`' % ('' if a.pol else 'not ', unparse(a.ast))
    d = single_def(func, x.id, at)
    if d and d[0] != 'param' and isinstance(d[1], tuple) and d[1][0] == 'iter':
        it, target = d[1][1], d[1][2]
        if isinstance(it, ast.Name):
            ldefs = name_defs(func, it.id)
            if not ldefs:
                return None
            reasons = []
            if all(isinstance(v, ast.List) and not v.elts for (_, v) in ldefs if isinstance(v, ast.AST)) \
                    and isinstance(target, ast.Name):
                # list filled by append: every appended value must be guarded by the membership test
                apps = []
                for n in cfg.eval_nodes():
                    if n.kind == 'stmt' and isinstance(n.ast, ast.Expr) and isinstance(n.ast.value, ast.Call) \
                            and unparse(n.ast.value.func) == '%s.append' % it.id and len(n.ast.value.args) == 1:
                        apps.append(n)
                if not apps:
                    return None
                for n in apps:
                    arg = n.ast.value.args[0]
                    if not isinstance(arg, ast.Name):
                        return None
                    hit = None
                    for a in cfg.assumes_at(n.id):
                        if _word_in_pol(a.ast, a.pol, arg.id, sets):
                            hit = a
                    if hit is None:
                        return None
                    reasons.append(unparse(hit.ast))
                return 'loop over a list that only receives tokens under `%s`' % '` / `'.join(reasons)
            for (_, v) in ldefs:
                if not isinstance(v, ast.ListComp) or len(v.generators) != 1:
                    return None
                pos = _position(target, x.id)
                ev = _elt_at(v.elt, pos)
                if not isinstance(ev, ast.Name):
                    return None
                conds = []
                for c in v.generators[0].ifs:
                    from ..core import split_assumes
                    conds.extend(split_assumes(c, True))
                hit = None
                for (ce, pol) in conds:
                    if pol and _word_in(ce, ev.id, sets):
                        hit = ce
                if hit is None:
                    return None
                reasons.append(unparse(hit))
            return 'loop over list(s) filtered by `%s`' % '` / `'.join(reasons)
    return None


def punct_verdict(prog, func, x, at, sets):
    """(True, why) the node is known to be a token of the inventory; (False, why) it demonstrably is not restricted:
    it ranges over all tokens / nodes and no condition on the way looks at its word; (None, why) otherwise."""
    why = punct_filtered(func, x, at, sets)
    if why is not None:
        return True, why
    if not isinstance(x, ast.Name):
        return None, 'the moved node is not a simple name'
    cfg = func.cfg
    # any condition on the way that looks at the word of x, or hands x to a predicate this rule cannot look into
    for a in cfg.assumes_at(at):
        txt = unparse(a.ast)
        names = set(n.id for n in ast.walk(a.ast) if isinstance(n, ast.Name))
        if x.id in names and ("data['word']" in txt or any(isinstance(c, ast.Call) and not prog.pure_call(c, func)
                                                          for c in ast.walk(a.ast))):
            return None, 'the condition `%s` restricts the node in a way this rule does not evaluate' % txt[:60]
        if any(isinstance(c, ast.Call) and isinstance(c.func, ast.Name) and c.func.id in func.locals for c in ast.walk(a.ast)):
            return None, 'a local predicate `%s` guards the move' % txt[:60]
    d = single_def(func, x.id, at)
    if d and d[0] != 'param' and isinstance(d[1], tuple) and d[1][0] == 'iter':
        it = d[1][1]
        src = it
        if isinstance(it, ast.Name):
            defs = [v for (_, v) in name_defs(func, it.id) if isinstance(v, ast.AST)]
            if len(defs) == 1:
                src = defs[0]
        if isinstance(src, ast.Call) and prog.callee(src, func) in (('trees', 'terminals'), ('trees', 'preorder'),
                                                                   ('trees', 'postorder'), ('trees', 'children'),
                                                                   ('trees', 'unordered_terminals')):
            return False, 'the moved node runs over every element of `%s` and nothing on the way looks at its word' % unparse(src)
        if isinstance(src, ast.ListComp) and len(src.generators) == 1 and not src.generators[0].ifs:
            return False, 'the moved node comes from the unfiltered list `%s`' % unparse(src)[:60]
        if isinstance(src, ast.ListComp) and len(src.generators) == 1:
            conds = ' and '.join(unparse(c) for c in src.generators[0].ifs)
            if "data['word']" not in conds and not any(isinstance(c, ast.Call) and not prog.pure_call(c, func)
                                                       for i_ in src.generators[0].ifs for c in ast.walk(i_)):
                return False, 'the list the moved node comes from is filtered by `%s`, which does not look at the word' % conds[:60]
    return None, 'origin of the moved node not recognised'


def _position(target, name):
    if isinstance(target, ast.Name):
        return () if target.id == name else None
    if isinstance(target, (ast.Tuple, ast.List)):
        for i, t in enumerate(target.elts):
            p = _position(t, name)
            if p is not None:
                return (i,) + p
    return None


def _elt_at(elt, pos):
    if pos is None:
        return None
    for i in pos:
        if isinstance(elt, (ast.Tuple, ast.List)) and i < len(elt.elts):
            elt = elt.elts[i]
        else:
            return None
    return elt


# ------------------------------------------------------------------------------------ R-KEEP

KEEP_SCOPE_MODULES = ('transform', 'trees')


def _len_gt1_of(fact, ppath_candidates):
    """fact is the normal form of `len(<P>.children) > 1` / `len(trees.children(<P>)) > 1` (or >= 2)."""
    if fact[0] != 'cmp':
        return False
    forms = []
    for pp in ppath_candidates:
        forms += ['len(%s.children)' % pp, 'len(trees.children(%s))' % pp, 'len(children(%s))' % pp]
    l, op, r = fact[1], fact[2], fact[3]
    if op == '<' and l == '1' and r in forms:
        return True
    if op == '<=' and l == '2' and r in forms:
        return True
    if op == '!=' and ((l in forms and r == '1') or (r in forms and l == '1')):
        # != 1 on a non-empty list
        return True
    return False


def r_keep(prog, tier):
    obs = []
    for f, evs in movers(prog):
        if f.module.name not in KEEP_SCOPE_MODULES:
            continue
        if mover_helper(prog, f):
            continue        # a re-link helper: its detach is judged at every call site (events are inlined there)
        cfg = f.cfg
        dets = [e for e in evs if e.kind == 'DET']
        atts = [e for e in evs if e.kind == 'ATT']
        pars = [e for e in evs if e.kind == 'PAR']
        for d in dets:
            ok = False
            narrow_guard = None
            detail = 'nothing guarantees that `%s` keeps a child: no replenishing attach, no discard of the ' \
                     'parent, no `len(...children) > 1` guard evaluated at move time' % unparse(d.p)
            praw = path(d.p)
            pres = resolve(f, d.p, d.node)
            cands = [c for c in set([praw, pres]) if c]
            # (a) replenish: an attach to the same parent follows
            for a in atts:
                if cfg.dominates(d.node, a.node) and a.node != d.node \
                        and (_same_value(f, a.q, a.node, d.p, d.node)):
                    ok = True
                    detail = '(a) replenished by `%s`' % unparse(a.ast)
                    break
            # (b) the parent itself is discarded in the same iteration
            if not ok:
                for p in pars:
                    if _is_none(p.q) and path(p.x) in cands and cfg.always_with(d.node, p.node):
                        ok = True
                        detail = '(b) the parent is itself removed (`%s`)' % unparse(p.ast)
                        break
            # (c) guard evaluated in the same loop iteration
            if not ok:
                for (fa, nid) in facts_at(cfg, d.node):
                    a = cfg.nodes[nid]
                    if not set(a.loops) >= set(cfg.nodes[d.node].loops):
                        continue        # evaluated outside the moving loop: stale
                    if _len_gt1_of(fa, cands) and no_kill_between(cfg, nid, d.node, cands):
                        # no other detach from the same parent between guard and this detach
                        if not any(o.node in cfg.between(nid, d.node) for o in dets if o is not d):
                            ok = True
                            detail = '(c) guarded at move time by `%s`' % unparse(a.ast)
                            break
                    if fa[0] == 'opaque' and fa[2] is False and _all_punct_over(a.ast, cands):
                        sets = ('PUNCT', 'PAIRPUNCT')
                        guard_set = 'PAIRPUNCT' if 'PAIRPUNCT' in unparse(a.ast) else 'PUNCT'
                        moved_pair_only = all(punct_filtered(f, o.x, o.node, ('PAIRPUNCT',)) for o in dets)
                        if guard_set == 'PAIRPUNCT' and not moved_pair_only and all(punct_filtered(f, o.x, o.node, sets) for o in dets):
                            narrow_guard = unparse(a.ast)
                            continue        # the guard only sees paired marks, the function also moves commas etc.
                        if all(punct_filtered(f, o.x, o.node, sets) for o in dets):
                            ok = True
                            detail = '(c) `not %s`: the parent has a child that is not punctuation, and ' \
                                     'this function moves punctuation only' % unparse(a.ast)
                            break
            # (d) tables with checked premises
            if not ok and _role(prog, f) == 'transform.root_attach':
                prem = _root_attach_premise(f, d)
                if prem:
                    ok = True
                    detail = '(d) the parent is the root, and the root child holding the first token ' \
                             'never moves: ' + prem
            if not ok and _role(prog, f) == 'trees.delete_terminal':
                prem = _delete_terminal_premise(f, d)
                if prem:
                    ok = True
                    detail = '(d) upward pruning: ' + prem
            verdict = True if ok else False
            if not ok:
                # is there *any* condition on the way to the detach that looks at the parent's children?
                # if so the guard exists in a shape this rule does not recognise: no verdict
                mention = []
                for a in cfg.assumes_at(d.node):
                    txt = unparse(a.ast)
                    if ('children' in txt or _fed_by_children(f, a.ast)) and set(a.loops) >= set(cfg.nodes[d.node].loops):
                        mention.append(txt)
                wrong_node = None
                for (fa, nid) in facts_at(cfg, d.node):
                    a = cfg.nodes[nid]
                    if not set(a.loops) >= set(cfg.nodes[d.node].loops):
                        continue
                    for P2 in _parent_forms(fa):
                        if _len_gt1_of(fa, [P2]) and P2 not in cands:
                            r1 = root_name(d.p)
                            try:
                                r2 = root_name(ast.parse(P2, mode='eval').body)
                            except SyntaxError:
                                r2 = None
                            if r1 and r2 and r1 != r2 and P2.endswith('.parent') and (pres or praw or '').endswith('.parent'):
                                # neither variable is defined as (a path from) the other
                                def _mentions(a_, b_):
                                    return any(isinstance(v_, ast.AST) and isinstance(v_, (ast.Name, ast.Attribute))
                                               and root_name(v_) == b_ for (_, v_) in name_defs(f, a_))
                                if not _mentions(r1, r2) and not _mentions(r2, r1):
                                    wrong_node = (P2, unparse(a.ast))
                opaque_guard = [unparse(a.ast) for a in cfg.assumes_at(d.node)
                                if any(isinstance(c_, ast.Call) and (
                                    (isinstance(c_.func, ast.Name) and c_.func.id in f.locals) or
                                    (prog.callee(c_, f) is not None and not prog.pure_call(c_, f))) for c_ in ast.walk(a.ast))]
                if opaque_guard and not mention:
                    mention = opaque_guard
                unmodelled = [e for e in evs if e.kind == 'OTHER']
                if unmodelled and not mention:
                    mention = ['unmodelled change of a child list: ' + unparse(unmodelled[0].ast)[:40]]
                if narrow_guard:
                    verdict = False
                    detail = 'the guard `not %s` only looks for a child outside trees.PAIRPUNCT, but every token of trees.PUNCT is ' \
                             'moved: a constituent of commas / full stops only is emptied' % narrow_guard[:70]
                elif wrong_node:
                    verdict = False
                    detail = 'the guard `%s` counts the children of `%s`, but the node is taken out of `%s`: the constituent ' \
                             'it leaves can end up without children' % (wrong_node[1][:60], wrong_node[0], pres or praw)
                elif mention:
                    verdict = None
                    detail = 'a condition on the children of the parent guards the move (`%s`) but not in a form ' \
                             'this rule can evaluate' % mention[-1][:60]
                elif _role(prog, f) == 'trees.delete_terminal' and not cfg.nodes[d.node].loops:
                    verdict = False
                    detail = 'the removal is not part of a loop that climbs while the parent becomes childless: a ' \
                             'constituent left without tokens stays in the tree'
                elif _role(prog, f) in ('trees.delete_terminal', 'transform.root_attach'):
                    verdict = None
                    detail = 'premise of the table entry not recognised in this shape'
            obs.append(Ob('R-KEEP', f.fq, 'detach `%s` never leaves a childless constituent'
                          % unparse(d.ast), verdict, detail, construct='keep:' + unparse(d.ast),
                          line=cfg.nodes[d.node].lineno))
    return obs, {}


def _fed_by_children(f, cond, depth=0):
    """Does a local named in the condition hold (or, for a table, receive) a value computed from some `.children`?"""
    if depth > 2:
        return False
    for nm in set(x.id for x in ast.walk(cond) if isinstance(x, ast.Name) and x.id in f.locals):
        vals = [v for (_, v) in name_defs(f, nm) if isinstance(v, ast.AST)]
        # a flag set inside a loop over some `.children` (`only_punct = False` for a child that is no punctuation)
        for (nid_, _) in name_defs(f, nm):
            if isinstance(nid_, int) and any(f.cfg.nodes[l_].kind == 'iter' and 'children' in unparse(f.cfg.nodes[l_].ast.iter)
                                             for l_ in f.cfg.nodes[nid_].loops):
                return True
        for st in walk_own(f.node):
            if isinstance(st, ast.Assign) and len(st.targets) == 1 and isinstance(st.targets[0], ast.Subscript) \
                    and isinstance(st.targets[0].value, ast.Name) and st.targets[0].value.id == nm:
                vals.append(st.value)
        for v in vals:
            if 'children' in unparse(v):
                return True
            if not isinstance(v, ast.Name) and _fed_by_children(f, v, depth + 1):
                return True
    return False


def _all_punct_over(expr, ppaths):
    """expr is all(<c>.data['word'] in trees.PUNCT for c in <P>.children) (list or generator)."""
    if not (isinstance(expr, ast.Call) and isinstance(expr.func, ast.Name) and expr.func.id == 'all'
            and len(expr.args) == 1):
        return False
    g = expr.args[0]
    if not isinstance(g, (ast.ListComp, ast.GeneratorExp)) or len(g.generators) != 1:
        return False
    gen = g.generators[0]
    if gen.ifs or not isinstance(gen.target, ast.Name):
        return False
    it = gen.iter
    owner = None
    if isinstance(it, ast.Attribute) and it.attr == 'children':
        owner = path(it.value)
    elif isinstance(it, ast.Call) and it.args and isinstance(it.func, (ast.Attribute, ast.Name)) \
            and (getattr(it.func, 'attr', None) == 'children' or getattr(it.func, 'id', None) == 'children'):
        owner = path(it.args[0])
    if owner not in ppaths:
        return False
    return _word_in(g.elt, gen.target.id, ('PUNCT', 'PAIRPUNCT')) is not None


_ROLE_CACHE = {}


def _role(prog, f):
    """The public function a private worker does the work of: `_root_attach` called by nothing but `root_attach` has the
    table entries of `transform.root_attach`."""
    key = (id(prog), f.fq)
    if key not in _ROLE_CACHE:
        role = f.fq
        if f.node.name.startswith('_') and f.cls is None:
            callers = set()
            for g in prog.all_funcs():
                if g.node is f.node:
                    continue
                for c_ in walk_own(g.node):
                    if isinstance(c_, ast.Call) and prog.callee(c_, g) == (f.module.name, f.qual):
                        callers.add(g.fq)
            if len(callers) == 1:
                role = sorted(callers)[0]
        _ROLE_CACHE[key] = role
    return _ROLE_CACHE[key]


def _root_attach_premise(f, d):
    """The detach is dominated by the failure of a test `<t_l> < <tree_min>` where tree_min is the
    number of the first token of the whole tree and t_l is (min of the moved child's token numbers) - 1."""
    cfg = f.cfg
    for (fa, nid) in facts_at(cfg, d.node):
        if fa[0] == 'cmp' and fa[2] in ('<=', '<'):
            l, r = fa[1], fa[3]
            # not (t_l < tree_min)  ==  tree_min <= t_l
            if fa[2] == '<=' and _is_tree_min(f, l, nid) and _is_left_neighbour(f, r, nid):
                return '`%s` fails before the detach' % unparse(cfg.nodes[nid].ast)
    return None


def _def_expr(f, name, at):
    d = single_def(f, name, at)
    if d and d[0] != 'param' and isinstance(d[1], ast.AST):
        return d[1]
    return None


def _is_tree_min(f, text, at):
    try:
        e = ast.parse(text, mode='eval').body
    except SyntaxError:
        return False
    if isinstance(e, ast.Name):
        v = _def_expr(f, e.id, at)
        if v is None:
            return False
        s = unparse(v)
        # <terms>[0].data['num'] where <terms> = trees.terminals(<first param>)
        if isinstance(v, ast.Subscript) and s.endswith("[0].data['num']"):
            base = v.value.value.value   # X[0].data['num'] -> X
            if isinstance(base, ast.Name):
                bv = _def_expr(f, base.id, at)
                return bv is not None and unparse(bv) == 'trees.terminals(%s)' % f.params[0]
            return unparse(base) == 'trees.terminals(%s)' % f.params[0]
    return False


def _is_left_neighbour(f, text, at):
    try:
        e = ast.parse(text, mode='eval').body
    except SyntaxError:
        return False
    if isinstance(e, ast.Name):
        v = _def_expr(f, e.id, at)
        if v is None:
            return False
        return isinstance(v, ast.BinOp) and isinstance(v.op, ast.Sub) and unparse(v.right) == '1' \
            and isinstance(v.left, ast.Call) and isinstance(v.left.func, ast.Name) and v.left.func.id == 'min'
    return False


def _delete_terminal_premise(f, d):
    cfg = f.cfg
    node = cfg.nodes[d.node]
    if not node.loops:
        return None
    head = cfg.nodes[node.loops[-1]]
    if head.kind != 'test':
        return None
    xs = path(d.x)
    ps = path(d.p)
    from ..core import split_assumes
    conds = [norm_test(e, p) for (e, p) in split_assumes(head.ast, True)]
    if ('cmp', 'len(%s.children)' % xs, '==', '0') not in conds:
        return None
    # the loop body rebinds X to P after the detach
    for n in cfg.eval_nodes():
        if n.kind == 'stmt' and isinstance(n.ast, ast.Assign) and len(n.ast.targets) == 1 \
                and path(n.ast.targets[0]) == xs and path(n.ast.value) == ps \
                and cfg.dominates(d.node, n.id) and n.loops == node.loops:
            return 'loop `while %s` removes a node only while it is childless and continues with its ' \
                   'parent (`%s`)' % (unparse(head.ast), unparse(n.ast))
    return None


# ------------------------------------------------------------------------------------ R-ROOT

FILTERS = {'transform.filter_by_length': 'documented to return None for trees that are filtered out'}
ROOT_EXTRA = ['uncollapse_unary_chains']


class _RootFlow(object):
    """Forward dataflow of {ROOT, NODE, FRESH, NONE, OTHER} for local names."""

    def __init__(self, prog, func, preserving, climbing=(), seed='ROOT'):
        self.prog = prog
        self.f = func
        self.preserving = preserving
        self.climbing = climbing      # functions that return the root of whatever node they are given
        self.seed = seed
        self.cfg = func.cfg

    def val(self, e, st):
        if isinstance(e, ast.Name):
            return st.get(e.id, 'OTHER')
        if isinstance(e, ast.Constant) and e.value is None:
            return 'NONE'
        if isinstance(e, ast.Call):
            c = self.prog.callee(e, self.f)
            if c == ('trees', 'Tree.__init__'):
                return 'FRESH'
            if c is not None:
                a0 = self.val(e.args[0], st) if e.args and not isinstance(e.args[0], ast.Starred) else None
                if '%s.%s' % c in self.preserving and a0 == 'ROOT':
                    return 'ROOT'
                if '%s.%s' % c in self.climbing and a0 in ('ROOT', 'NODE', 'FRESH'):
                    return 'ROOT'
                return 'NODE'
            return 'OTHER'
        if isinstance(e, ast.Attribute) and e.attr == 'parent':
            return 'NODE'
        if isinstance(e, ast.IfExp):
            return self.join(self.val(e.body, st), self.val(e.orelse, st))
        return 'OTHER'

    @staticmethod
    def join(a, b):
        if a == b:
            return a
        if a is None:
            return b
        if b is None:
            return a
        nodeish = ('ROOT', 'NODE', 'FRESH')
        if a in nodeish and b in nodeish:
            return 'NODE'
        return 'OTHER'

    def run(self):
        cfg = self.cfg
        init = {}
        if self.f.params:
            init[self.f.params[0]] = self.seed
        state_in = {cfg.entry: init}
        work = [cfg.entry]
        out = {}
        it = 0
        while work:
            it += 1
            if it > 20000:
                raise Unrecognised('root dataflow does not converge in %s' % self.f.fq)
            n = work.pop()
            st = dict(state_in.get(n, {}))
            node = cfg.nodes[n]
            if node.kind == 'stmt':
                s = node.ast
                if isinstance(s, ast.Assign):
                    for t in s.targets:
                        if isinstance(t, ast.Name):
                            st[t.id] = self.val(s.value, st)
                        elif isinstance(t, (ast.Tuple, ast.List)):
                            for tt in t.elts:
                                if isinstance(tt, ast.Name):
                                    st[tt.id] = 'OTHER'
                elif isinstance(s, ast.AugAssign) and isinstance(s.target, ast.Name):
                    st[s.target.id] = 'OTHER'
            elif node.kind == 'iter':
                for sub in ast.walk(node.ast.target):
                    if isinstance(sub, ast.Name):
                        st[sub.id] = 'NODE'
            elif node.kind == 'assume':
                def apply_fact(st0, e_, pol_):
                    """state after assuming e_ == pol_; None if a name holding a node would have to be None"""
                    if isinstance(e_, ast.UnaryOp) and isinstance(e_.op, ast.Not):
                        return apply_fact(st0, e_.operand, not pol_)
                    if isinstance(e_, ast.BoolOp):
                        conj = isinstance(e_.op, ast.And)
                        if conj == pol_:
                            # all parts hold (and / not-or): apply one after the other
                            cur = dict(st0)
                            for v_ in e_.values:
                                cur = apply_fact(cur, v_, pol_)
                                if cur is None:
                                    return None
                            return cur
                        # one of the parts decides (not-and / or): join over the feasible alternatives
                        alts = [apply_fact(dict(st0), v_, pol_) for v_ in e_.values]
                        alts = [a_ for a_ in alts if a_ is not None]
                        if not alts:
                            return None
                        res = dict(alts[0])
                        for a_ in alts[1:]:
                            for k_ in set(res) | set(a_):
                                res[k_] = self.join(res.get(k_), a_.get(k_)) if (k_ in res and k_ in a_) else 'OTHER'
                        return res
                    fa_ = norm_test(e_, pol_)
                    st1 = dict(st0)
                    nm_ = None
                    if fa_[0] == 'none' and fa_[2] is True and fa_[1].endswith('.parent'):
                        nm_ = fa_[1][:-len('.parent')]
                    elif fa_[0] == 'truthy' and fa_[2] is False and fa_[1].endswith('.parent'):
                        nm_ = fa_[1][:-len('.parent')]
                    if nm_ and st1.get(nm_) in ('ROOT', 'NODE', 'FRESH'):
                        st1[nm_] = 'ROOT'
                    if (fa_[0] == 'none' and fa_[2] is True and st1.get(fa_[1]) in ('ROOT', 'NODE', 'FRESH')) or \
                            (fa_[0] == 'truthy' and fa_[2] is False and st1.get(fa_[1]) in ('ROOT', 'NODE', 'FRESH')):
                        return None         # a name that holds a node is not None
                    return st1
                st2 = apply_fact(st, node.ast, node.pol)
                if st2 is None:
                    out[n] = st
                    continue
                st = st2
            out[n] = st
            exit_state = None
            if node.kind == 'iter' and isinstance(node.ast.iter, ast.Call) \
                    and self.prog.callee(node.ast.iter, self.f) == ('trees', 'dominance') \
                    and isinstance(node.ast.target, ast.Name):
                # after `for a in trees.dominance(x): r = a` the name r (and a) denotes the root
                exit_state = dict(st)
                lv = node.ast.target.id
                exit_state[lv] = 'ROOT'
                for b_ in node.ast.body:
                    if isinstance(b_, ast.Assign) and isinstance(b_.value, ast.Name) and b_.value.id == lv:
                        for t in b_.targets:
                            if isinstance(t, ast.Name):
                                exit_state[t.id] = 'ROOT'
            for s in cfg.succ[n]:
                if exit_state is not None and n not in cfg.nodes[s].loops:
                    st_s = exit_state
                else:
                    st_s = st
                st, st_keep = st_s, st
                old = state_in.get(s)
                if old is None:
                    state_in[s] = dict(st)
                    work.append(s)
                else:
                    new = dict(old)
                    changed = False
                    for k in set(old) | set(st):
                        j = self.join(old.get(k), st.get(k)) if (k in old and k in st) else 'OTHER'
                        if k not in old or k not in st:
                            j = 'OTHER' if (old.get(k, st.get(k)) not in ('ROOT',)) else 'OTHER'
                        if new.get(k) != j:
                            new[k] = j
                            changed = True
                    if changed:
                        state_in[s] = new
                        work.append(s)
                st = st_keep
        return state_in, out

    def returns(self):
        """[(cfg node, kind, text)] for every way the function can return."""
        state_in, out = self.run()
        res = []
        cfg = self.cfg
        for p in cfg.pred[cfg.exit]:
            node = cfg.nodes[p]
            if node.kind == 'stmt' and isinstance(node.ast, ast.Return):
                st = state_in.get(p, {})
                if node.ast.value is None:
                    res.append((p, 'NONE', 'return'))
                else:
                    res.append((p, self.val(node.ast.value, st), unparse(node.ast)))
            elif node.kind == 'stmt' and isinstance(node.ast, ast.Expr) and 'exit' in unparse(node.ast):
                continue
            else:
                res.append((p, 'IMPLICIT', 'falls off the end after `%s`'
                            % (unparse(node.ast).split('\n')[0] if node.ast is not None else '?')))
        return res


def _fresh_root_ok(prog, f, name):
    """(iv): the fresh node `name` is put on top of the old root and inherits the sentence id."""
    evs = link_events(prog, f)
    root = f.params[0]
    att = any(e.kind == 'ATT' and path(e.q) == name and path(e.x) == root for e in evs)
    par = any(e.kind == 'PAR' and path(e.x) == root and path(e.q) == name for e in evs)
    nopar = not any(e.kind == 'PAR' and path(e.x) == name and not _is_none(e.q) for e in evs)
    sid = False
    for d in data_events(prog, f):
        if d.kind == 'DATA' and path(d.x) == name and d.keys == ['sid'] and isinstance(d.value, ast.AST) \
                and unparse(d.value) == "%s.data['sid']" % root:
            sid = True
    for n in walk_own(f.node):
        if isinstance(n, ast.Assign) and is_tree_ctor(prog, f, n.value) and any(path(t) == name for t in n.targets):
            if n.value.args and unparse(n.value.args[0]) == '%s.data' % root:
                sid = True
    missing = [w for w, v in (('attach of the old root', att), ('parent pointer of the old root', par),
                              ('no parent of its own', nopar), ('sentence id carried over', sid)) if not v]
    return missing


ADDS_ROOT = {'transform.add_topnode': 'add_topnode puts one new TOP node above every tree it is given'}


def r_root(prog, tier):
    names = list(prog.registry('transform', 'TRANSFORMATIONS')) + ROOT_EXTRA
    funcs = [prog.func('transform', n) for n in names]
    allf = [f for f in prog.modules['transform'].funcs.values()] + \
           [f for f in prog.modules['trees'].funcs.values()]
    preserving = set(f.fq for f in allf)
    # climbers: given any node they return the root above it (every return is ROOT although the parameter is
    # seeded as an arbitrary node and no callee is trusted)
    climbing = set()
    for f in allf:
        if f.params and len(f.params) == 1:
            try:
                r = _RootFlow(prog, f, set(), (), 'NODE').returns()
            except Unrecognised:
                continue
            if r and all(x[1] == 'ROOT' for x in r):
                climbing.add(f.fq)
    # greatest fixpoint: drop functions that have a non-ROOT return
    changed = True
    rets = {}
    while changed:
        changed = False
        for f in allf:
            if f.fq not in preserving:
                continue
            if not f.params:
                preserving.discard(f.fq)
                changed = True
                continue
            r = _RootFlow(prog, f, preserving, climbing).returns()
            rets[f.fq] = r
            bad = [x for x in r if x[1] != 'ROOT' and not (x[1] == 'NONE' and f.fq in FILTERS)]
            # fresh-root idiom
            if bad and all(x[1] == 'FRESH' for x in bad):
                nm = [cfgret for cfgret in bad]
                okf = True
                for (p, k, txt) in bad:
                    rv = f.cfg.nodes[p].ast.value
                    if not isinstance(rv, ast.Name) or _fresh_root_ok(prog, f, rv.id):
                        okf = False
                if okf:
                    bad = []
            if bad:
                preserving.discard(f.fq)
                changed = True
    obs = []
    for f in funcs:
        r = _RootFlow(prog, f, preserving, climbing).returns()
        for (p, kind, txt) in r:
            node = f.cfg.nodes[p]
            ok = True if kind == 'ROOT' else (None if kind == 'OTHER' else False)
            detail = 'typestate of the returned value: ' + kind
            if kind == 'ROOT':
                detail = 'the returned name is the first parameter, rebound only through root-preserving ' \
                         'calls or the climb-to-root idiom'
                if f.fq in ADDS_ROOT:
                    ok = False
                    detail = 'this return hands back the tree as it came (%s): on this path no node is added, although %s' % (
                        [('' if a.pol else 'not ') + unparse(a.ast)[:40] for a in f.cfg.assumes_at(node.id)], ADDS_ROOT[f.fq])
            elif kind == 'NONE' and f.fq in FILTERS:
                ok = True
                detail = 'FILTER table: ' + FILTERS[f.fq]
            elif kind == 'FRESH':
                rv = node.ast.value
                miss = _fresh_root_ok(prog, f, rv.id) if isinstance(rv, ast.Name) else ['not a name']
                ok = not miss
                detail = 'fresh node placed above the old root, sentence id carried over' if ok else \
                    'fresh node returned but missing: ' + ', '.join(miss)
            elif kind == 'IMPLICIT':
                detail = 'the function can fall off its end and return None: the tree would be dropped'
            elif kind == 'NONE':
                detail = 'returns None although the transformation is not a documented filter'
            elif kind == 'NODE':
                detail = 'the returned value may be an inner node (result of a call that does not ' \
                         'preserve the root, or of a .parent step that is not a full climb)'
            obs.append(Ob('R-ROOT', f.fq, 'every return of the transformation hands back the root: %s' % txt,
                          ok, detail, construct='ret:' + txt, line=node.lineno))
    return obs, {'root_preserving_functions': len(preserving), 'climb_to_root_functions': len(climbing)}


# ------------------------------------------------------------------------------------ R-FRAME

# function -> (keys it may write on nodes of the argument tree, keys it may write on nodes it creates)
FRAME = {
    'root_attach': (set(), set()),
    'raising': (set(), set()),
    'punctuation_verylow': (set(), set()),
    'punctuation_symetrify': (set(), set()),
    'punctuation_root': (set(), set()),
    'boyd_split': ({'split', 'head_block'}, {'split', 'head', 'head_block', 'block_number'}),
    'negra_mark_heads': ({'head'}, set()),
    'mark_heads_by_rules': ({'head'}, set()),
    'binarize': (set(), {'label', 'head'}),
    'add_topnode': (set(), {'label', 'morph', 'edge', 'lemma', 'sid'}),
    'collapse_unary_chains': ({'label', 'num', 'word', 'lemma'}, set()),
    'uncollapse_unary_chains': ({'label'}, {'label'}),
    'punctuation_delete': ({'num'}, set()),
    'insert_terminals': ({'num'}, {'word', 'label', 'morph', 'lemma', 'edge', 'num'}),
    'substitute_terminals': ({'word', 'label'}, set()),
    'ptb_delete_traces': ({'label', 'word', 'num'}, set()),
    'filter_by_length': (set(), set()),
}

# functions that only inspect trees: no data write, no link event, transitively
PURE = {
    'trees': ['preorder', 'postorder', 'children', 'has_children', 'unordered_terminals', 'terminals',
              'terminal_blocks', 'right_sibling', 'left_sibling', 'lca', 'dominance', 'levels',
              'get_label', 'parse_label', 'format_label'],
    'treeanalysis': ['gap_degree_node', 'gap_degree', 'has_gaps', 'gap_type', 'disco_order',
                     'PosTags.run', 'SentenceCount.run', 'GapDegree.run'],
    'grammar': ['extract'],
    'transitions': ['topdown', '_inorder', 'inorder', 'gap'],
    'transformconst': ['get_headpos_by_rule'],
}


def callees_of(prog, f):
    out = set()
    for n in walk_own(f.node):
        if isinstance(n, ast.Call):
            c = prog.callee(n, f)
            if c is not None:
                out.add(c)
    return out


def effects(prog, f, _memo=None, _stack=None):
    """Transitive node effects of f: list of (kind, keys, fresh?, site text, function)."""
    if _memo is None:
        _memo = {}
    if _stack is None:
        _stack = set()
    if f.fq in _memo:
        return _memo[f.fq]
    if f.fq in _stack:
        return []
    _stack.add(f.fq)
    res = []
    fresh = fresh_paths(prog, f)
    for d in data_events(prog, f):
        xp = path(d.x)
        r = root_name(d.x)
        is_fresh = xp in fresh or (r in fresh) or (r == 'self')
        if not is_fresh and isinstance(d.x, ast.Name):
            dd = single_def(f, d.x.id, d.node)
            if dd and dd[0] != 'param' and isinstance(dd[1], ast.AST) and is_tree_ctor(prog, f, dd[1]):
                is_fresh = True
        if d.kind == 'DATA':
            res.append(('data', d.keys, is_fresh, unparse(d.ast), f.fq, f.cfg.nodes[d.node].lineno))
        else:
            res.append(('dataall', None, is_fresh, unparse(d.ast), f.fq, f.cfg.nodes[d.node].lineno))
    # any other attribute stored on a node that is not created here (a cache hung on the tree, a mark, ...)
    for n in walk_own(f.node):
        tg = []
        if isinstance(n, ast.Assign):
            for t in n.targets:
                tg.extend(t.elts if isinstance(t, (ast.Tuple, ast.List)) else [t])
        elif isinstance(n, (ast.AugAssign, ast.AnnAssign)):
            tg = [n.target]
        for t in tg:
            if isinstance(t, ast.Attribute) and t.attr not in ('children', 'parent', 'data'):
                r = root_name(t)
                if r is None or r == 'self' or r in f.module.aliases or r in f.module.imports:
                    continue
                if r not in f.locals:
                    continue            # module / function attribute: process state, judged by R-STATE
                xp = path(t.value)
                if (xp in fresh) or (r in fresh):
                    continue
                if isinstance(t.value, ast.Name):
                    dd = name_defs(f, r)
                    def _built_here(v):
                        if not isinstance(v, ast.Call):
                            return False
                        fn = v.func
                        if isinstance(fn, ast.Name) and fn.id in f.module.classes and fn.id not in f.locals:
                            return True
                        if isinstance(fn, ast.Attribute) and isinstance(fn.value, ast.Name) and fn.value.id in f.module.aliases \
                                and fn.attr in prog.modules[f.module.aliases[fn.value.id]].classes:
                            return True
                        c = prog.callee(v, f)
                        return c is not None and c[1] in ('parse_label',)
                    if dd and all(isinstance(v, ast.AST) and _built_here(v) for (_, v) in dd):
                        continue        # an object built here (a new node, a parsed label)
                res.append(('attr', None, False, unparse(n), f.fq, n.lineno))
    for e in link_events(prog, f):
        if e.kind in ('ATT', 'DET', 'PAR', 'CLR', 'PERM', 'OTHER'):
            tgt = e.__dict__.get('q') or e.__dict__.get('p') or e.__dict__.get('x')
            r = root_name(tgt) if tgt is not None else None
            if r == 'self' and f.name == '__init__':
                continue
            res.append(('link', None, False, unparse(e.ast), f.fq, f.cfg.nodes[e.node].lineno))
    for c in sorted(callees_of(prog, f)):
        g = prog.func(c[0], c[1], required=False)
        if g is None or g.fq == f.fq:
            continue
        if c == ('trees', 'Tree.__init__'):
            continue
        for x in effects(prog, g, _memo, _stack):
            # what a callee writes is attributed to nodes of the argument tree (not fresh)
            res.append(x)
    _stack.discard(f.fq)
    _memo[f.fq] = res
    return res


def r_frame(prog, tier):
    obs = []
    memo = {}
    names = list(prog.registry('transform', 'TRANSFORMATIONS')) + ROOT_EXTRA
    for nm in names:
        if nm not in FRAME:
            obs.append(Ob('R-FRAME', 'transform.' + nm, 'transformation has a documented frame', False,
                          'transformation is not in the frame table (new transformation?)',
                          construct='frame-missing:' + nm))
            continue
        f = prog.func('transform', nm)
        exist_ok, fresh_ok = FRAME[nm]
        seen = set()
        for (kind, keys, is_fresh, text, where, line) in effects(prog, f, memo):
            if kind in ('link', 'attr'):
                continue
            if kind == 'dataall':
                obs.append(Ob('R-FRAME', f.fq, 'node content is written field by field', False,
                              'whole data dict replaced/updated: `%s` in %s' % (text, where),
                              construct='dataall:' + text, line=line))
                continue
            if keys is None:
                obs.append(Ob('R-FRAME', f.fq, 'data keys written are statically known', None,
                              'computed key in `%s` (%s)' % (text, where), construct='key?:' + text, line=line))
                continue
            for k in keys:
                allowed = fresh_ok if is_fresh else exist_ok
                ok = k in allowed
                tag = (k, is_fresh, where, text)
                if tag in seen:
                    continue
                seen.add(tag)
                obs.append(Ob('R-FRAME', f.fq,
                              'write of field %r on %s (`%s` in %s) is within the documented frame'
                              % (k, 'a node created here' if is_fresh else 'a node of the argument tree',
                                 text, where), ok,
                              'frame of %s: existing nodes %s, created nodes %s'
                              % (nm, sorted(exist_ok), sorted(fresh_ok)),
                              construct='w:%s:%s:%s' % (k, is_fresh, text), line=line))
    # pure functions
    for mod, fl in sorted(PURE.items()):
        for q in fl:
            f = prog.func(mod, q)
            eff = [x for x in effects(prog, f, memo) if not (x[0] == 'data' and x[2])]
            # get_label etc. never create nodes, so any effect is a violation
            bad = eff[:3]
            obs.append(Ob('R-FRAME/PURE', f.fq, 'inspecting function writes no node field and no link '
                          '(transitively)', not bad,
                          'no store into .data/.children/.parent reachable' if not bad else
                          'writes: ' + '; '.join('`%s` in %s' % (b[3], b[4]) for b in bad),
                          construct='pure:' + ';'.join(b[3] for b in bad), nontrivial=True))
    # moved nodes are of the documented kind
    mv = {'punctuation_verylow': ('PUNCT', 'PAIRPUNCT'), 'punctuation_root': ('PUNCT', 'PAIRPUNCT'),
          'punctuation_symetrify': ('PAIRPUNCT',)}
    for nm, sets in sorted(mv.items()):
        f = prog.func('transform', nm)
        for e in link_events(prog, f):
            if e.kind == 'ATT' and any(o.kind == 'DET' and o.node == e.node for o in link_events(prog, f)):
                continue        # inlined helper: the detach of the same call already stands for the move
            if e.kind not in ('DET', 'ATT'):
                continue
            vd, why = punct_verdict(prog, f, e.x, e.node, sets)
            obs.append(Ob('R-FRAME/MOVED', f.fq, 'only tokens whose word is in trees.%s are moved (`%s`)'
                          % ('/'.join(sets), unparse(e.ast)), vd, why,
                          construct='moved:' + unparse(e.ast), line=f.cfg.nodes[e.node].lineno))
    f = prog.func('transform', 'root_attach')
    for e in link_events(prog, f):
        if e.kind in ('DET', 'ATT') and isinstance(e.x, ast.Name):
            d = single_def(f, e.x.id, e.node)
            ok = bool(d and d[0] != 'param' and isinstance(d[1], tuple) and d[1][0] == 'iter'
                      and unparse(d[1][1]) == 'trees.children(%s)' % f.params[0])
            if not ok:
                ok = None
                if d and d[0] != 'param' and isinstance(d[1], tuple) and d[1][0] == 'iter' and isinstance(d[1][1], ast.Call) \
                        and prog.callee(d[1][1], f) in (('trees', 'preorder'), ('trees', 'postorder'), ('trees', 'terminals')):
                    ok = False      # every node / token of the tree is a candidate, not only the root's children
            obs.append(Ob('R-FRAME/MOVED', f.fq, 'only children of the root are moved (`%s`)' % unparse(e.ast),
                          ok, 'loop variable over trees.children(%s)' % f.params[0] if ok else
                          'the moved node is not a loop variable over the ordered root children',
                          construct='moved:' + unparse(e.ast), line=f.cfg.nodes[e.node].lineno))
    f = prog.func('transform', 'raising')
    # raising removes exactly nodes with split and not head_block, never the root
    rem = [e for e in link_events(prog, f) if e.kind == 'PAR' and _is_none(e.q)]
    for e in rem:
        ok, why = _raising_selection(f, e)
        obs.append(Ob('R-FRAME/MOVED', f.fq, 'raising discards exactly split nodes that are not head '
                      'blocks, never the root (`%s`)' % unparse(e.ast), ok, why,
                      construct='raised:' + unparse(e.ast), line=f.cfg.nodes[e.node].lineno))
    return obs, {}


def _raising_selection(f, e):
    """X in `X.parent = None` iterates a list L; every L.append(Y) is guarded by Y != root,
    Y.data['split'] true and Y.data['head_block'] false."""
    if not isinstance(e.x, ast.Name):
        return None, 'discarded node is not a simple name'
    d = single_def(f, e.x.id, e.node)
    if not (d and d[0] != 'param' and isinstance(d[1], tuple) and d[1][0] == 'iter' and isinstance(d[1][1], ast.Name)):
        return None, 'discarded node is not a loop variable over a removal list'
    lst = d[1][1].id
    cfg = f.cfg
    apps = []
    for n in cfg.eval_nodes():
        if n.kind == 'stmt':
            for sub in walk_own(n.ast):
                if isinstance(sub, ast.Call) and isinstance(sub.func, ast.Attribute) and sub.func.attr == 'append' \
                        and path(sub.func.value) == lst and len(sub.args) == 1:
                    apps.append((n.id, sub.args[0]))
    if not apps:
        # a comprehension with the conditions
        for (nid, v) in name_defs(f, lst):
            if isinstance(v, ast.ListComp) and len(v.generators) == 1 and isinstance(v.elt, ast.Name):
                from ..core import split_assumes
                y = v.elt.id
                conds = []
                for c in v.generators[0].ifs:
                    conds.extend(norm_test(ce, pol) for (ce, pol) in split_assumes(c, True))
                root = f.params[0]
                need = [('truthy', "%s.data['split']" % y, True), ('truthy', "%s.data['head_block']" % y, False)]
                notroot = ('cmp', y, '!=', root) in conds or ('cmp', root, '!=', y) in conds
                miss = [str(x) for x in need if x not in conds]
                if miss and any(c_[0] in ('opaque', 'truthy') and '(' in str(c_[1]) and y in str(c_[1]) for c_ in conds):
                    return None, 'the selection of `%s` goes through a predicate call this rule does not look into' % y
                if miss or not notroot:
                    return False, 'selection of `%s` lacks condition(s): %s%s' % (y, ', '.join(miss), '' if notroot else ' node != root')
                return True, 'selected by a comprehension under `split`, `not head_block`, `!= %s`' % root
        return None, 'removal list `%s` is built in a way this rule does not recognise' % lst
    for (nid, arg) in apps:
        y = path(arg)
        facts = [fa for (fa, _) in facts_at(cfg, nid)]
        need = [('truthy', "%s.data['split']" % y, True), ('truthy', "%s.data['head_block']" % y, False)]
        root = f.params[0]
        notroot = ('cmp', y, '!=', root) in facts or ('cmp', root, '!=', y) in facts
        miss = [str(x) for x in need if x not in facts]
        if miss and any(c_[0] in ('opaque', 'truthy') and '(' in str(c_[1]) and y in str(c_[1]) for c_ in facts):
            return None, 'the selection of `%s` goes through a predicate call this rule does not look into' % y
        if miss or not notroot:
            return False, 'selection of `%s` lacks guard(s): %s%s' % (y, ', '.join(miss),
                                                                       '' if notroot else ' node != root')
    return True, 'selected under `split`, `not head_block`, `!= %s`' % f.params[0]


# ------------------------------------------------------------------------------------ R-STALE

def r_stale(prog, tier):
    """In a loop that re-parents nodes, the source and target of a move are read in the iteration
    that moves (a value read from `.parent` before the loop is stale once the loop has moved
    something)."""
    obs = []
    for f, evs in movers(prog):
        if f.module.name != 'transform' or mover_helper(prog, f):
            continue
        cfg = f.cfg
        pars_in_loops = [e for e in evs if e.kind == 'PAR' and cfg.nodes[e.node].loops]
        if not pars_in_loops:
            continue
        for e in evs:
            if e.kind not in ('ATT', 'DET'):
                continue
            loops = cfg.nodes[e.node].loops
            if not loops:
                continue
            tgt = e.q if e.kind == 'ATT' else e.p
            stale = _stale_parent_read(prog, f, tgt, e.node, loops)
            if stale and not _parent_can_change(prog, f, evs, tgt, e.node, loops):
                stale = None
            obs.append(Ob('R-STALE', f.fq,
                          '%s `%s`: the parent it works on is read in the moving iteration'
                          % ('attach' if e.kind == 'ATT' else 'detach', unparse(e.ast)), stale is None,
                          'read inside the loop / not derived from a .parent read' if stale is None else stale,
                          construct='stale:' + unparse(e.ast), line=cfg.nodes[e.node].lineno))
    # what was read from a node's child list before a loop that replaces that list is not used afterwards as the node's
    # children (the snapshot-and-re-attach idiom, whose elements are attached again, is something else)
    for f, evs in movers(prog):
        if f.module.name != 'transform' or mover_helper(prog, f):
            continue
        cfg = f.cfg
        for c in [e for e in evs if e.kind == 'CLR' and cfg.nodes[e.node].loops and path(e.q)]:
            X = path(c.q)
            L = cfg.nodes[c.node].loops[0]
            forms = ('trees.children(%s)' % X, 'children(%s)' % X, '%s.children' % X)
            for nm in sorted(f.locals):
                dv = name_defs(f, nm)
                if not dv or any(L in cfg.nodes[nid].loops for (nid, _) in dv):
                    continue            # refreshed inside the loop
                if not all(isinstance(v, ast.AST) and any(fm in unparse(v) for fm in forms) and cfg.can_reach(nid, L)
                           for (nid, v) in dv):
                    continue
                # re-attached elements: the snapshot idiom
                if any(e.kind == 'ATT' and _derives_from(f, e.x, e.node, [nm]) for e in evs):
                    continue
                uses = []
                for m in cfg.eval_nodes():
                    if m.id in [nid for (nid, _) in dv]:
                        continue
                    if any(isinstance(x, ast.Name) and x.id == nm and isinstance(x.ctx, ast.Load)
                           for r_ in cfg.exprs(m.id) for x in ast.walk(r_)):
                        if cfg.can_reach(c.node, m.id):
                            uses.append(m)
                if uses:
                    u = uses[0]
                    obs.append(Ob('R-STALE', f.fq, 'what `%s` read from the children of `%s` before the loop is not used after the '
                                  'loop replaced them' % (nm, X), False,
                                  '`%s = %s` (line %d) is taken before the loop; `%s` (line %d) gives `%s` new children; line %d still '
                                  'uses `%s`: it describes the children the node had before' % (
                                      nm, unparse(dv[0][1])[:40], cfg.nodes[dv[0][0]].lineno, unparse(c.ast)[:30],
                                      cfg.nodes[c.node].lineno, X, u.lineno, nm),
                                  construct='stale-snap:%s:%s' % (X, nm), line=u.lineno))
    return obs, {}


def _parent_can_change(prog, f, evs, e, at, loops, depth=0):
    """The `.parent` value `e` derives from was read from a node N before the loop.  Can the loop change N.parent?
    Only if N is an element of a collection (any of its elements may be moved) or some PAR event inside the loop
    re-parents N itself.  A fixed node (a parameter, a local bound once outside the loop) that the loop never
    re-parents keeps its parent."""
    cfg = f.cfg
    outer = loops[0]
    # find the defining read  X = <base>.parent
    if isinstance(e, ast.Name):
        for (n, v) in name_defs(f, e.id):
            if isinstance(v, ast.AST) and outer not in cfg.nodes[n].loops:
                for s_ in ast.walk(v):
                    if isinstance(s_, ast.Attribute) and s_.attr == 'parent':
                        base = s_.value
                        if not isinstance(base, ast.Name):
                            return True
                        bdefs = name_defs(f, base.id)
                        if any(isinstance(bv, tuple) for (_, bv) in bdefs):
                            return True         # a loop / unpacked element
                        if any(isinstance(bv, ast.AST) and isinstance(bv, ast.Subscript) for (_, bv) in bdefs):
                            return True         # an element picked out of a list
                        for p_ in evs:
                            if p_.kind == 'PAR' and outer in cfg.nodes[p_.node].loops and path(p_.x) == base.id:
                                return True
                        return False
    return True


def _stale_parent_read(prog, f, e, at, loops, depth=0):
    """Return a description if e's value derives from a `.parent` read made outside loop `loops[0]`
    (the outermost loop around the event) while PAR events happen in that loop."""
    if depth > 5:
        return None
    cfg = f.cfg
    outer = loops[0]
    if isinstance(e, ast.Attribute) and e.attr == 'parent':
        return None            # read right here, in the iteration
    if isinstance(e, (ast.Attribute, ast.Subscript)):
        return _stale_parent_read(prog, f, e.value, at, loops, depth + 1)
    if isinstance(e, ast.Name):
        if e.id in f.params:
            if not name_defs(f, e.id):
                return None
        for (n, v) in name_defs(f, e.id):
            inside = outer in cfg.nodes[n].loops or n == outer
            if isinstance(v, ast.AST):
                reads_parent = any(isinstance(s, ast.Attribute) and s.attr == 'parent' for s in ast.walk(v))
                if reads_parent and not inside:
                    return '`%s` is computed from `.parent` before the loop (line %d) and used after ' \
                           'earlier iterations may have moved nodes' % (e.id, cfg.nodes[n].lineno)
                if not reads_parent and isinstance(v, (ast.Name, ast.Attribute, ast.Subscript)):
                    r = _stale_parent_read(prog, f, v, n, loops, depth + 1)
                    if r:
                        return r
            elif isinstance(v, tuple) and v[0] == 'iter':
                it = v[1]
                # loop variable over a list built right in the loop header: evaluated once, before the first iteration
                if isinstance(it, (ast.ListComp, ast.GeneratorExp)) and n == outer:
                    pos = _position(v[2], e.id)
                    ev = _elt_at(it.elt, pos)
                    if ev is not None and any(isinstance(s, ast.Attribute) and s.attr == 'parent' for s in ast.walk(ev)):
                        return '`%s` comes from the list in the loop header (line %d), built once before the first ' \
                               'iteration, that stores `.parent` values' % (e.id, cfg.nodes[n].lineno)
                # loop variable over a list built before the loop whose elements contain .parent reads
                if isinstance(it, ast.Name):
                    for (n2, v2) in name_defs(f, it.id):
                        if isinstance(v2, (ast.ListComp, ast.GeneratorExp)) \
                                and outer not in cfg.nodes[n2].loops:
                            pos = _position(v[2], e.id)
                            ev = _elt_at(v2.elt, pos)
                            if ev is not None and any(isinstance(s, ast.Attribute) and s.attr == 'parent'
                                                      for s in ast.walk(ev)):
                                return '`%s` comes from a list built before the loop (line %d) that ' \
                                       'stores `.parent` values' % (e.id, cfg.nodes[n2].lineno)
    return None


# ------------------------------------------------------------------------------------ R-PUNCTSEL

def r_punctsel(prog, tier):
    """The set of tokens moved by punctuation_root / punctuation_verylow is restricted by the
    documented conditions only."""
    obs = []
    for nm in ('punctuation_root', 'punctuation_verylow'):
        f = prog.func('transform', nm)
        cfg = f.cfg
        evs = link_events(prog, f)
        dets = [e for e in evs if e.kind == 'DET']
        if not dets:
            raise Unrecognised('%s has no detach event' % f.fq, partial=obs)
        # every candidate is looked at: the loop over the candidates is never left early
        for d in dets[:1]:
            lp = cfg.nodes[d.node].loops
            if lp:
                brk = [n for n in cfg.eval_nodes() if n.kind == 'stmt' and isinstance(n.ast, (ast.Break, ast.Return))
                       and n.loops and n.loops[-1] == lp[0] and len(n.loops) == 1]
                def _exhausted(b_):
                    # `v = next(it, None)` ... `if v is None: break`: the end of the candidates, not an early exit
                    as_ = [a for a in cfg.assumes_at(b_.id) if lp[0] in a.loops and not (isinstance(a.ast, ast.Constant))]
                    if len(as_) != 1 or not as_[0].pol:
                        return False
                    t_ = as_[0].ast
                    if not (isinstance(t_, ast.Compare) and len(t_.ops) == 1 and isinstance(t_.ops[0], (ast.Is, ast.Eq))
                            and isinstance(t_.left, ast.Name) and isinstance(t_.comparators[0], ast.Constant)
                            and t_.comparators[0].value is None):
                        return False
                    alld_ = name_defs(f, t_.left.id)
                    ids_ = frozenset(d_ for (d_, _) in alld_)
                    dv_ = [v_ for (d_, v_) in alld_ if b_.id in cfg.reach(d_, avoid=ids_ - {d_})]
                    return bool(dv_) and all(isinstance(v_, ast.Call) and unparse(v_.func) == 'next' and len(v_.args) == 2
                                             and isinstance(v_.args[1], ast.Constant) and v_.args[1].value is None for v_ in dv_)
                brk = [b for b in brk if not _exhausted(b)]
                for b in brk:
                    conds = ' and '.join(('' if a.pol else 'not ') + unparse(a.ast) for a in cfg.assumes_at(b.id) if lp[0] in a.loops)
                    obs.append(Ob('R-PUNCTSEL', f.fq, 'the loop over the punctuation tokens looks at every token', False,
                                  '`%s` under `%s` ends the loop at the first such token: all later punctuation stays where it '
                                  'was' % (unparse(b.ast), conds[:80]), construct='sel-break:' + conds[:60], line=b.lineno))
                if not brk:
                    obs.append(Ob('R-PUNCTSEL', f.fq, 'the loop over the punctuation tokens looks at every token', True,
                                  'no break / return inside it', construct='sel-nobreak', line=f.node.lineno, nontrivial=False))
        for d in dets:
            conds = []
            for a in cfg.assumes_at(d.node):
                conds.append((a.ast, a.pol, 'guard'))
            if isinstance(d.x, ast.Name):
                dd = single_def(f, d.x.id, d.node)
                if dd and dd[0] != 'param' and isinstance(dd[1], tuple) and dd[1][0] == 'iter' \
                        and isinstance(dd[1][1], ast.Name):
                    for (_, v) in name_defs(f, dd[1][1].id):
                        if isinstance(v, ast.ListComp):
                            from ..core import split_assumes
                            for c in v.generators[0].ifs:
                                for (ce, pol) in split_assumes(c, True):
                                    conds.append((ce, pol, 'filter'))
            for (ce, pol, kind) in conds:
                ok, why = _allowed_punct_cond(nm, f, ce, pol, d)
                obs.append(Ob('R-PUNCTSEL', f.fq, '%s `%s%s` on the move `%s` is one of the documented '
                              'conditions' % (kind, '' if pol else 'not ', unparse(ce), unparse(d.ast)), ok, why,
                              construct='sel:%s:%s' % (pol, unparse(ce)), line=getattr(ce, 'lineno', 0)))
    return obs, {}


def _allowed_punct_cond(nm, f, ce, pol, d):
    fa = norm_test(ce, pol)
    txt = unparse(ce)
    # membership of the token in the punctuation inventory
    if fa[0] == 'in' and fa[3] is True and fa[1].endswith(".data['word']") and fa[2] in ('trees.PUNCT',):
        return True, 'the token is punctuation'
    root = f.params[0]
    if nm == 'punctuation_root':
        if fa[0] == 'cmp' and _len_gt1_of(fa, _parent_forms(fa)):
            pf = _parent_forms(fa)
            if pf and all(x == root for x in pf):
                return False, 'the condition counts the children of the root `%s`, not those of the token\'s parent: with a ' \
                              'single root child no punctuation moves at all' % root
            if pf and all(x.endswith('.parent') for x in pf):
                return True, 'the parent has more than one child'
            return None, 'a children count of `%s` restricts the move' % (pf[0] if pf else '?')
        if fa[0] == 'cmp' and fa[2] == '!=' and root in (fa[1], fa[3]) and \
                (fa[1].endswith('.parent') or fa[3].endswith('.parent')):
            return True, 'the token is not yet a child of the root'
    if nm == 'punctuation_verylow':
        if fa[0] == 'cmp' and fa[2] in ('<', '<=') and fa[1].lstrip('-').isdigit() \
                and isinstance(ast.parse(fa[3], mode='eval').body, ast.Name) and _is_enum_index(f, fa[3]):
            low = int(fa[1]) + (1 if fa[2] == '<' else 0)        # the index is >= low
            if low == 1:
                return True, 'the token is not the first token'
            if low > 1:
                return False, 'the position must be at least %d: the tokens at positions 1..%d are never lowered' % (low, low - 1)
            return False, 'the first token passes the filter: its "left neighbour" is the last token of the sentence'
        if fa[0] == 'opaque' and fa[2] is False and isinstance(ce, ast.Call) and \
                _all_punct_over(ce, [path(d.p)] if path(d.p) else []):
            return True, 'the parent does not consist of punctuation only'
        if fa[0] == 'cmp' and fa[2] == '!=' and (fa[1].endswith('.parent') or fa[3].endswith('.parent')):
            return True, 'the target differs from the present parent'
    # a comparison of the target with the present parent (possibly through aliases)
    if fa[0] == 'cmp' and fa[2] == '!=':
        cands = set(x for x in (path(d.p), resolve(f, d.p, d.node)) if x)
        if fa[1] in cands or fa[3] in cands:
            return True, 'the target differs from the present parent'
    return None, 'condition `%s%s` is not one of the documented ones in a form this rule recognises' \
        % ('' if pol else 'not ', txt)


def _is_enum_index(f, name):
    """Is `name` bound as the index of an enumerate(...) without start (positions from 0)?"""
    for n in ast.walk(f.node):
        if isinstance(n, (ast.For, ast.comprehension)) and isinstance(n.iter, ast.Call) and unparse(n.iter.func) == 'enumerate' \
                and len(n.iter.args) == 1 and not n.iter.keywords and isinstance(n.target, ast.Tuple) and n.target.elts \
                and unparse(n.target.elts[0]) == name:
            return True
    return False


def _parent_forms(fa):
    """candidate parent paths mentioned in a len(...) comparison"""
    out = []
    if fa[0] != 'cmp':
        return out
    for s in (fa[1], fa[3]):
        if s.startswith('len('):
            inner = s[4:-1]
            if inner.endswith('.children'):
                out.append(inner[:-len('.children')])
            elif inner.startswith('trees.children(') and inner.endswith(')'):
                out.append(inner[len('trees.children('):-1])
    return out
