"""R-EDIT, R-HEADS, R-FLAGS, R-LABELEDIT, R-LABELFIELDS, R-LABELSPLIT, R-DISCOORDER, R-EDGE."""
import ast

from ..core import (AnalysisError, Unrecognised, path, unparse, norm_test, facts_at, walk_own, split_assumes,
                    const_str, root_name, no_kill_between)
from ..events import name_defs, single_def, link_events
from ..report import Ob
from .tree_rules import punct_filtered, punct_verdict


# ------------------------------------------------------------------------------------ R-EDIT

def _bounds(facts, X, lens, lo, hi_plus):
    """Do the facts establish lo <= X <= len + hi_plus for one of the length expressions `lens`?"""
    lower = upper = False
    for fa in facts:
        if fa[0] == 'in' and fa[1] == X and fa[3] is True:
            for L in lens:
                if fa[2] == 'range(%s + 1)[1:]' % L and lo == 1 and hi_plus == 0:
                    return True, True
                if fa[2] in ('range(1, %s + 1)' % L,) and lo == 1 and hi_plus == 0:
                    return True, True
                if fa[2] in ('range(1, %s + 2)' % L,) and lo == 1 and hi_plus == 1:
                    return True, True
        if fa[0] == 'cmp':
            l, op, r = fa[1], fa[2], fa[3]
            if r == X and ((op == '<=' and l == str(lo)) or (op == '<' and l == str(lo - 1))):
                lower = True
            for L in lens:
                ub = L if hi_plus == 0 else '%s + %d' % (L, hi_plus)
                ub1 = '%s + %d' % (L, hi_plus + 1)
                if l == X and ((op == '<=' and r == ub) or (op == '<' and r == ub1)):
                    upper = True
    return lower, upper


def _helper_calls(prog, f):
    """calls to functions of the package that are not known to be free of effects (a helper may do the work)"""
    out = []
    for x in walk_own(f.node):
        if isinstance(x, ast.Call):
            c = prog.callee(x, f)
            if c is not None and c != (f.module.name, f.qual) and not prog.pure_call(x, f):
                out.append(x)
    return out


def r_edit(prog, tier):
    obs = []
    # ---- delete_terminal renumbers exactly the tokens to the right
    f = prog.func('trees', 'delete_terminal')
    cfg = f.cfg
    decs = [n for n in cfg.eval_nodes() if n.kind == 'stmt' and isinstance(n.ast, ast.AugAssign)
            and unparse(n.ast.target).endswith(".data['num']")]
    ok = None
    why = 'no `-= 1` on token numbers in a form this rule models'
    if not decs and not any(isinstance(x, (ast.Assign, ast.AugAssign)) and ".data['num']" in unparse(
            x.targets[0] if isinstance(x, ast.Assign) else x.target) for x in walk_own(f.node)) \
            and not prog.opaque_calls(f, f.params[:1]) and not _helper_calls(prog, f):
        ok, why = False, 'token numbers are never changed: the tokens to the right keep their old numbers'
    if len(decs) == 1:
        n = decs[0]
        T = unparse(n.ast.target)
        facts = [x[0] for x in facts_at(cfg, n.id)]
        g = [fa for fa in facts if fa[0] == 'cmp' and fa[2] == '<' and fa[3] == T]
        numvar = g[0][1] if g else None
        src_ok = False
        if numvar:
            d = [v for (_, v) in name_defs(f, numvar) if isinstance(v, ast.AST)]
            src_ok = len(d) == 1 and unparse(d[0]) == "%s.data['num']" % f.params[1]
        loop = cfg.nodes[n.loops[-1]] if n.loops else None
        over_all = False
        if loop is not None and loop.kind == 'iter' and isinstance(loop.ast.iter, ast.Name):
            dd = [v for (_, v) in name_defs(f, loop.ast.iter.id) if isinstance(v, ast.AST)]
            over_all = len(dd) == 1 and unparse(dd[0]).startswith('terminals(')
            # the list is taken from the root, before the leaf is unhooked
            rootvar = unparse(dd[0])[len('terminals('):-1] if over_all else None
        amount = isinstance(n.ast.op, ast.Sub) and unparse(n.ast.value) == '1'
        ok = True if (bool(g) and src_ok and over_all and amount) else None
        nested_in_while = [l for l in n.loops if cfg.nodes[l].kind == 'test']
        if ok and nested_in_while:
            ok = False
            why_nested = 'the renumbering loop runs inside `while %s`: tokens to the right are decremented once per removed ' \
                         'node, not once per deleted token' % unparse(cfg.nodes[nested_in_while[0]].ast)[:50]
        else:
            why_nested = None
        if ok is None:
            rel = [fa for fa in facts if fa[0] == 'cmp' and T in (fa[1], fa[3])]
            if rel and not g and all(fa[2] in ('<', '<=', '==', '!=') for fa in rel):
                ok = False      # the token number is compared, but not with `removed < number`
            elif not amount:
                ok = False
            elif not rel:
                ok = False      # every token is renumbered, whatever its position
            if ok is False and amount and loop is not None and loop.kind == 'iter' and isinstance(loop.ast.iter, ast.Call) \
                    and unparse(loop.ast.iter.func).split('.')[-1] in ('filter', 'filterfalse', 'takewhile', 'dropwhile', 'islice'):
                ok = None       # the selection of the tokens sits in the iterator of the loop, which is not followed
        why = why_nested if why_nested else 'tokens with number > the removed one are decremented by 1, over all terminals of the root' if ok else \
            'guard `removed < token number`: %s, removed number taken from the leaf: %s, loop over all terminals: %s, ' \
            'amount 1: %s' % (bool(g), src_ok, over_all, amount)
    obs.append(Ob('R-EDIT/SHIFT', f.fq, 'deleting a token renumbers exactly the tokens to its right by -1', ok, why,
                  construct='del-shift', line=f.node.lineno))
    # ---- insert_terminals shifts tokens at or after the position by +1 before linking the new one
    f = prog.func('transform', 'insert_terminals')
    cfg = f.cfg
    incs = [n for n in cfg.eval_nodes() if n.kind == 'stmt' and isinstance(n.ast, ast.AugAssign)
            and unparse(n.ast.target).endswith(".data['num']")]
    ok = None
    why = 'no `+= 1` on token numbers in a form this rule models'
    posvar = None
    if len(incs) == 1:
        n = incs[0]
        T = unparse(n.ast.target)
        facts = [x[0] for x in facts_at(cfg, n.id)]
        g = [fa for fa in facts if fa[0] == 'cmp' and fa[2] == '<=' and fa[3] == T]
        posvar = g[0][1] if g else None
        newnum = [m for m in cfg.eval_nodes() if m.kind == 'stmt' and isinstance(m.ast, ast.Assign)
                  and unparse(m.ast.targets[0]).endswith(".data['num']") and posvar and unparse(m.ast.value) == posvar]
        atts = [e for e in link_events(prog, f) if e.kind == 'ATT']
        before = bool(atts) and all(cfg.dominates(n.loops[-1], a.node) for a in atts) if n.loops else False
        amount = isinstance(n.ast.op, ast.Add) and unparse(n.ast.value) == '1'
        ok = True if (bool(g) and bool(newnum) and before and amount) else None
        if ok is None:
            rel = [fa for fa in facts if fa[0] == 'cmp' and T in (fa[1], fa[3])]
            if rel and not g and all(fa[2] in ('<', '<=', '==', '!=') for fa in rel):
                ok = False      # compared with the position, but not with `position <= number` (e.g. strictly)
            elif not amount:
                ok = False
            elif not rel:
                ok = False
            lp_ = cfg.nodes[n.loops[-1]] if n.loops else None
            if ok is False and amount and lp_ is not None and lp_.kind == 'iter' and isinstance(lp_.ast.iter, ast.Call) \
                    and unparse(lp_.ast.iter.func).split('.')[-1] in ('filter', 'filterfalse', 'takewhile', 'dropwhile', 'islice'):
                ok = None       # the selection of the tokens sits in the iterator of the loop, which is not followed
        why = 'tokens numbered >= the position move up by 1, the new token takes the position, then it is attached' \
            if ok else 'guard `position <= token number`: %s, new token numbered with the position: %s, shift before ' \
            'attach: %s, amount 1: %s' % (bool(g), bool(newnum), before, amount)
    obs.append(Ob('R-EDIT/SHIFT', f.fq, 'inserting a token renumbers exactly the tokens at or after its position by +1',
                  ok, why, construct='ins-shift', line=f.node.lineno))
    # ---- out-of-range requests are skipped on every path
    for nm, lo, hi_plus in (('substitute_terminals', 1, 0), ('insert_terminals', 1, 1)):
        f = prog.func('transform', nm)
        cfg = f.cfg
        tree = f.params[0]
        lens = ['len(trees.terminals(%s))' % tree]
        for (nid, v) in [(n, v) for nm2 in f.locals for (n, v) in name_defs(f, nm2) if isinstance(v, ast.AST)
                         and unparse(v) == 'trees.terminals(%s)' % tree]:
            pass
        for nm2 in sorted(f.locals):
            for (n, v) in name_defs(f, nm2):
                if isinstance(v, ast.AST) and unparse(v) == 'trees.terminals(%s)' % tree:
                    lens.append('len(%s)' % nm2)
        # the loop variable over the requested indices
        loops = [n for n in cfg.eval_nodes() if n.kind == 'iter' and isinstance(n.ast.target, ast.Name) and not n.loops
                 and isinstance(n.ast.iter, ast.Call) and unparse(n.ast.iter.func) == 'sorted'
                 and any(k.arg == 'key' and unparse(k.value) == 'int' for k in n.ast.iter.keywords)]
        if len(loops) != 1:
            # positive evidence for insert_terminals: the requests of the sentence are walked in the order of the table
            # (file order), although every insertion shifts the positions behind it
            raw = [n for n in cfg.eval_nodes() if n.kind == 'iter' and isinstance(n.ast.target, ast.Name) and not n.loops
                   and unparse(n.ast.iter).startswith('%s.terminals[' % nm) and 'sorted' not in unparse(n.ast.iter)]
            if nm == 'insert_terminals' and len(raw) == 1:
                obs.append(Ob('R-EDIT/RANGE', f.fq, 'the requested positions of a sentence are processed in ascending order',
                              False, '`for %s in %s` follows the order of the terminal file: a lower position listed after a '
                              'higher one shifts the token inserted earlier' % (raw[0].ast.target.id, unparse(raw[0].ast.iter)[:60]),
                              construct='ins-order', line=raw[0].lineno))
                continue
            raise Unrecognised('%s: loop over the requested indices not found' % f.fq, partial=obs)
        X = loops[0].ast.target.id
        # locals that hold the sentence length, measured afresh in every iteration of the request loop
        for nm2 in sorted(f.locals):
            dv = name_defs(f, nm2)
            if dv and all(isinstance(v, ast.AST) and unparse(v) in lens and loops[0].id in cfg.nodes[nid].loops
                          and cfg.in_every_iteration(loops[0].id, nid) for (nid, v) in dv):
                lens.append(nm2)
        # effect sites: every statement in the loop that writes a node field or attaches a node
        sites = []
        for n in cfg.eval_nodes():
            if loops[0].id not in n.loops or n.kind != 'stmt':
                continue
            s = unparse(n.ast)
            if (isinstance(n.ast, (ast.Assign, ast.AugAssign)) and ".data['" in unparse(
                    n.ast.targets[0] if isinstance(n.ast, ast.Assign) else n.ast.target)) \
                    or '.children.append(' in s:
                sites.append(n)
            # subscripting the terminal list with the requested index
            for sub in walk_own(n.ast):
                if isinstance(sub, ast.Subscript) and X in [x.id for x in ast.walk(sub.slice) if isinstance(x, ast.Name)] \
                        and isinstance(sub.ctx, ast.Load) and not unparse(sub.value).startswith(nm + '.terminals'):
                    if n not in sites:
                        sites.append(n)
        if not sites:
            raise Unrecognised('%s: no effect inside the loop over requested indices' % f.fq, partial=obs)
        # leaving the loop drops every remaining request: only justified once the (ascending) positions are beyond the end
        for n in cfg.eval_nodes():
            if n.kind == 'stmt' and isinstance(n.ast, (ast.Break, ast.Return)) and n.loops and n.loops[0] == loops[0].id \
                    and (isinstance(n.ast, ast.Return) or n.loops[-1] == loops[0].id):
                facts = [x[0] for x in facts_at(cfg, n.id) if loops[0].id in cfg.nodes[x[1]].loops]
                beyond = False
                for fa in facts:
                    if fa[0] == 'cmp' and fa[2] in ('<', '<=') and any(fa[1] == L or fa[1].startswith(L + ' +') for L in lens) \
                            and fa[3] == X:
                        beyond = True       # len < X
                about = [fa for fa in facts if any(isinstance(t_, str) and X in t_.replace('(', ' ').replace(')', ' ')
                                                   .replace('[', ' ').replace(']', ' ').replace(',', ' ').split() for t_ in fa[1:])]
                verdict = True if beyond else (False if about and all(fa[0] in ('cmp', 'in') for fa in about) else None)
                obs.append(Ob('R-EDIT/RANGE', f.fq, 'the loop over the requested positions is left early only beyond the end of '
                              'the sentence', verdict,
                              'left under `sentence length < %s`: the remaining (larger) positions cannot fit either' % X if beyond else
                              '`%s` under %s: a position below 1 (they come first in ascending order) cancels every valid '
                              'request after it' % (unparse(n.ast), [fa for fa in about][:2]),
                              construct='range-leave:' + unparse(n.ast)[:30], line=n.lineno))
        for n in sites:
            facts = [x[0] for x in facts_at(cfg, n.id) if loops[0].id in cfg.nodes[x[1]].loops]
            lower, upper = _bounds(facts, X, lens, lo, hi_plus)
            ok = True if (lower and upper) else None
            if ok is None:
                about = [fa for fa in facts if any(isinstance(t_, str) and X in t_.replace('(', ' ').replace(')', ' ')
                                                   .replace('[', ' ').replace(']', ' ').replace(',', ' ').split() for t_ in fa[1:])]
                understood = all(fa[0] == 'cmp' or (fa[0] == 'in' and fa[2].startswith('range(')) for fa in about) \
                    and not any(':=' in t_ for fa in about for t_ in fa[1:] if isinstance(t_, str))
                if understood and not prog.opaque_calls(f, [X], before=n.id):
                    ok = False          # every condition on the position is a plain comparison, and they do not bound it
            obs.append(Ob('R-EDIT/RANGE', f.fq, 'effect `%s` happens only for a position inside the sentence (%d..n%s)'
                          % (unparse(n.ast)[:55], lo, '+1' if hi_plus else ''), ok,
                          'every path here has established %d <= %s <= len%s' % (lo, X, '+1' if hi_plus else '') if ok else
                          'not on every path: lower bound %d established: %s, upper bound: %s (a request for position 0, '
                          'a negative one or one beyond the sentence reaches this statement)' % (lo, lower, upper),
                          construct='range:' + unparse(n.ast)[:55], line=n.lineno))
    # ---- punctuation_delete removes punctuation tokens only, never all tokens
    f = prog.func('transform', 'punctuation_delete')
    cfg = f.cfg
    calls = []
    for n in cfg.eval_nodes():
        if n.kind == 'stmt':
            for sub in walk_own(n.ast):
                if isinstance(sub, ast.Call) and prog.callee(sub, f) == ('trees', 'delete_terminal'):
                    calls.append((n, sub))
    if not calls:
        raise Unrecognised('punctuation_delete deletes nothing', partial=obs)
    for (n, sub) in calls:
        vd, why = punct_verdict(prog, f, sub.args[1], n.id, ('PUNCT',)) if len(sub.args) > 1 else (None, 'no leaf argument')
        obs.append(Ob('R-EDIT/TARGET', f.fq, 'only punctuation tokens are deleted (`%s`)' % unparse(sub), vd,
                      why, construct='pd-target', line=n.lineno))
        rootarg = unparse(sub.args[0]) == f.params[0]
        obs.append(Ob('R-EDIT/TARGET', f.fq, 'deletion is done on the whole tree', rootarg, unparse(sub),
                      construct='pd-root', line=n.lineno, nontrivial=False))
        facts = [x[0] for x in facts_at(cfg, n.id)]
        allp = any(fa[0] == 'cmp' and fa[2] == '!=' and 'len(' in fa[1] and 'len(' in fa[3] for fa in facts)
        other = [a_ for a_ in cfg.assumes_at(n.id) if any(isinstance(c_, ast.Call) for c_ in ast.walk(a_.ast))]
        obs.append(Ob('R-EDIT/TARGET', f.fq, 'a sentence consisting of punctuation only is left alone',
                      True if allp else (None if other else False),
                      'guarded by len(removal) != len(terminals)' if allp else
                      ('guarded by `%s`, a test this rule does not model' % unparse(other[0].ast)[:60] if other else
                       'every token could be deleted'),
                      construct='pd-all', line=n.lineno))
    # ---- filter_by_length
    f = prog.func('transform', 'filter_by_length')
    cfg = f.cfg
    want = {'lt': '<', 'gt': '>', 'eq': '=='}
    seen = {}
    for n in cfg.eval_nodes():
        if n.kind == 'stmt' and isinstance(n.ast, ast.Return) and n.ast.value is not None \
                and isinstance(n.ast.value, ast.Constant) and n.ast.value.value is None:
            facts = [x[0] for x in facts_at(cfg, n.id)]
            op = [fa[3].strip("'") for fa in facts if fa[0] == 'cmp' and fa[2] == '==' and fa[3].strip("'") in want]
            lenv = [nm2 for nm2 in f.locals for (_, v) in name_defs(f, nm2) if isinstance(v, ast.AST)
                    and unparse(v) == 'len(trees.terminals(%s))' % f.params[0]]
            valv = [nm2 for nm2 in f.locals for (_, v) in name_defs(f, nm2) if isinstance(v, ast.AST)
                    and unparse(v) == "%s['filtervalue']" % f.kwarg]
            L = lenv[0] if lenv else 'len(trees.terminals(%s))' % f.params[0]
            V = valv[0] if valv else "%s['filtervalue']" % f.kwarg
            cmpf = [fa for fa in facts if fa[0] == 'cmp' and set((fa[1], fa[3])) == set((L, V))]
            if op and cmpf:
                c = cmpf[-1]
                rel = None
                if c[2] in ('==', '!='):
                    rel = c[2]
                elif c[2] == '<':
                    rel = '<' if c[1] == L else '>'
                elif c[2] == '<=':
                    rel = '<=' if c[1] == L else '>='
                seen[op[0]] = rel
    ok = True if seen == want else (False if set(seen) == set(want) and None not in seen.values() else None)
    obs.append(Ob('R-EDIT/FILTER', f.fq, 'lt / gt / eq drop exactly the trees shorter / longer / as long as the value', ok,
                  'operators %s' % seen if ok else 'operator table %s differs from %s' % (seen, want),
                  construct='filter-ops', line=f.node.lineno))
    return obs, {}


# ------------------------------------------------------------------------------------ R-LABELEDIT

def _label_edits(prog, f):
    """[(var, parse node, format node, {field: [(node id, guards)]})] for parse_label .. format_label pairs."""
    cfg = f.cfg
    out = []
    for n in cfg.eval_nodes():
        if n.kind != 'stmt' or not isinstance(n.ast, ast.Assign) or not isinstance(n.ast.targets[0], ast.Name):
            continue
        if not (isinstance(n.ast.value, ast.Call) and prog.callee(n.ast.value, f) == ('trees', 'parse_label')):
            continue
        var = n.ast.targets[0].id
        fmts = []
        for m in cfg.eval_nodes():
            if m.kind != 'stmt' or not cfg.dominates(n.id, m.id) or not cfg.same_loop(n.id, m.id):
                continue
            for sub in walk_own(m.ast):
                if isinstance(sub, ast.Call) and prog.callee(sub, f) == ('trees', 'format_label') \
                        and sub.args and unparse(sub.args[0]) == var:
                    fmts.append(m)
        if not fmts:
            continue
        fm = fmts[0]
        edits = {}
        for m in cfg.eval_nodes():
            if m.kind == 'stmt' and isinstance(m.ast, ast.Assign) and isinstance(m.ast.targets[0], ast.Attribute) \
                    and unparse(m.ast.targets[0].value) == var and const_str(m.ast.value) == '' \
                    and cfg.dominates(n.id, m.id) and (cfg.dominates(m.id, fm.id) or m.id in cfg.coreach(fm.id)):
                extra = [x[0] for x in facts_at(cfg, m.id) if x[0] not in [y[0] for y in facts_at(cfg, n.id)]]
                edits.setdefault(m.ast.targets[0].attr, []).append((m.id, extra))
        out.append((var, n, fm, edits))
    for n in cfg.eval_nodes():
        if n.kind != 'stmt':
            continue
        for sub in walk_own(n.ast):
            if isinstance(sub, ast.Call) and prog.callee(sub, f) == ('trees', 'format_label') and sub.args \
                    and isinstance(sub.args[0], ast.Call) and prog.callee(sub.args[0], f) == ('trees', 'parse_label'):
                out.append(('<nested>', n, n, {}))
    return out


def r_labeledit(prog, tier):
    obs = []
    # _binarize_tree: the @-label carries the parent category without co-index
    f = prog.func('transform', '_binarize_tree')
    cfg = f.cfg
    eds = _label_edits(prog, f)
    ok = False
    why = 'no parse_label ... format_label sequence that blanks the co-index'
    for (var, pn, fm, edits) in eds:
        if 'coindex' in edits and any(not extra for (_, extra) in edits['coindex']):
            # and the formatted result is what goes into the @ label
            tgt = unparse(fm.ast.targets[0]) if isinstance(fm.ast, ast.Assign) else None
            used = any(n.kind == 'stmt' and isinstance(n.ast, ast.AugAssign) and unparse(n.ast.target).endswith(".data['label']")
                       and unparse(n.ast.value) == tgt for n in cfg.eval_nodes())
            src = unparse(pn.ast.value.args[0])
            srcd = [v for (_, v) in name_defs(f, src) if isinstance(v, ast.AST)] if src.isidentifier() else []
            from_parent = any(unparse(v) == "%s.data['label']" % f.params[0] for v in srcd)
            ok = used and from_parent
            why = '`%s.coindex = ""` between parse and format of the parent label; the result is appended to "@"' % var \
                if ok else 'co-index blanked but: result used for the @ label %s, parsed from the parent label %s' \
                % (used, from_parent)
    if not ok:
        # positive evidence of the defect: the parent label is parsed and formatted but the co-index is never blanked
        blanked = any('coindex' in edits for (_, _, _, edits) in eds)
        ok = False if (eds and not blanked) else None
    obs.append(Ob('R-LABELEDIT', f.fq, 'binarization nodes are labelled "@" + the parent category without its co-index',
                  ok, why, construct='binlabel', line=f.node.lineno))
    at = [n for n in cfg.eval_nodes() if n.kind == 'stmt' and isinstance(n.ast, ast.Assign)
          and unparse(n.ast.targets[0]).endswith(".data['label']") and const_str(n.ast.value) == '@']
    bare = [n for n in cfg.eval_nodes() if n.kind == 'stmt' and isinstance(n.ast, ast.AugAssign)
            and unparse(n.ast.target).endswith(".data['label']")]
    okb = len(at) == 1 and len(bare) == 1 and ('truthy', f.params[1], False) in [x[0] for x in facts_at(cfg, bare[0].id)] \
        and cfg.dominates(at[0].id, bare[0].id)
    obs.append(Ob('R-LABELEDIT', f.fq, 'the label of an added node starts with "@" and is bare on request', True if okb else None,
                  'label = "@", category appended only when not bare_bin_labels' if okb else 'shape changed',
                  construct='binlabel-at', line=f.node.lineno))
    # ptb_delete_traces: indices are stripped from traces and from every constituent
    f = prog.func('transform', 'ptb_delete_traces')
    cfg = f.cfg
    eds = _label_edits(prog, f)
    if len(eds) < 2:
        obs.append(Ob('R-LABELEDIT', f.fq, 'index stripping in ptb_delete_traces', None,
                      '%d parse_label/format_label sequences recognised (2 expected)' % len(eds), construct='ptb-shape'))
    wrongflag = None
    for (var, pn, fm, edits) in eds:
        wrongflag = None
        g_ok = 'gapindex' in edits and any(not extra for (_, extra) in edits['gapindex'])
        if not g_ok and 'gapindex' in edits:
            g_ok = False            # removed only under some condition
        elif not g_ok:
            g_ok = False
        obs.append(Ob('R-LABELEDIT', f.fq, 'gap index of `%s` is removed unconditionally before the label is rebuilt' % var,
                      g_ok, '`%s.gapindex = ""` on every path from parse to format' % var if g_ok else
                      'some labels keep their gap index', construct='ptb-gap:' + var, line=pn.lineno))
        kcv = [nm2 for nm2 in f.locals for (_, v) in name_defs(f, nm2) if isinstance(v, ast.AST)
               and unparse(v) == "'keepcoindex' in %s" % f.kwarg]
        allowed = set([('truthy', k, False) for k in kcv] + [('haskey', f.kwarg, 'keepcoindex', False)])
        c_ok = 'coindex' in edits and any(extra and set(extra) <= allowed for (_, extra) in edits['coindex'])
        if not c_ok:
            if 'coindex' not in edits:
                c_ok = False
            elif any(not extra for (_, extra) in edits['coindex']):
                c_ok = False        # removed unconditionally: keepcoindex is ignored
            else:
                c_ok = None
                # positive evidence: the removal is switched by another option flag
                flagdefs = {}
                for nm2 in f.locals:
                    for (_, v) in name_defs(f, nm2):
                        if isinstance(v, ast.AST) and unparse(v).endswith(' in %s' % f.kwarg) and unparse(v).startswith("'"):
                            flagdefs[nm2] = unparse(v).split("'")[1]
                for (_, extra) in edits['coindex']:
                    others = [fa for fa in extra if (fa[0] == 'truthy' and fa[1] in flagdefs and flagdefs[fa[1]] != 'keepcoindex')
                              or (fa[0] == 'haskey' and fa[1] == f.kwarg and fa[2] != 'keepcoindex')]
                    if others and len(others) == len(extra):
                        c_ok = False
                        wrongflag = flagdefs.get(others[0][1], others[0][2] if others[0][0] == 'haskey' else others[0][1])
        obs.append(Ob('R-LABELEDIT', f.fq, 'co-index of `%s` is removed unless keepcoindex is given' % var, c_ok,
                      '`%s.coindex = ""` exactly under `not keepcoindex`' % var if c_ok else
                      'co-index removal is missing or depends on something else than keepcoindex' + (
                          ' (it is switched by the option %r)' % wrongflag if c_ok is False and wrongflag else ''),
                      construct='ptb-co:' + var, line=pn.lineno))
    # the constituent loop rewrites the label of every constituent
    loops = [n for n in cfg.eval_nodes() if n.kind == 'iter' and unparse(n.ast.iter) == 'trees.preorder(%s)' % f.params[0]]
    ok = None
    why = 'loop over all nodes that rewrites the labels not found in a form this rule models'
    for lp in loops:
        v = unparse(lp.ast.target)
        stores = [n for n in cfg.eval_nodes() if n.kind == 'stmt' and lp.id in n.loops and isinstance(n.ast, ast.Assign)
                  and unparse(n.ast.targets[0]) == "%s.data['label']" % v and 'format_label' in unparse(n.ast.value)]
        if not stores:
            continue
        skips = set()
        for n in cfg.eval_nodes():
            if n.kind == 'stmt' and isinstance(n.ast, ast.Continue) and n.loops and n.loops[-1] == lp.id:
                facts = [x[0] for x in facts_at(cfg, n.id) if lp.id in cfg.nodes[x[1]].loops]
                if facts == [('cmp', 'len(trees.children(%s))' % v, '==', '0')]:
                    skips.add(n.id)
        avoid = set(s.id for s in stores) | skips
        escapes = cfg.can_reach(cfg.body_entry(lp.id), lp.id, avoid=avoid) or lp.id == cfg.body_entry(lp.id)
        ok = not escapes
        why = 'every iteration either skips a token (`len(children) == 0`) or stores the re-formatted label' if ok else \
            'some constituents are skipped before their label is rewritten (indices survive on them)'
        if not ok:
            # positive evidence: a `continue` under a condition on the parsed label skips the store
            bad_skip = False
            for n in cfg.eval_nodes():
                if n.kind == 'stmt' and isinstance(n.ast, ast.Continue) and n.loops and n.loops[-1] == lp.id and n.id not in skips:
                    txt = ' '.join(unparse(a.ast) for a in cfg.assumes_at(n.id) if lp.id in a.loops)
                    if 'coindex' in txt or 'gapindex' in txt or 'label' in txt:
                        bad_skip = True
            ok = False if bad_skip else None
    obs.append(Ob('R-LABELEDIT', f.fq, 'index stripping reaches every constituent', ok, why, construct='ptb-every',
                  line=f.node.lineno))
    # ... in every sentence: no normal return comes before the constituent loop
    good = [lp for lp in loops if any(n.kind == 'stmt' and lp.id in n.loops and isinstance(n.ast, ast.Assign)
                                      and unparse(n.ast.targets[0]).endswith(".data['label']") for n in cfg.eval_nodes())]
    if good:
        heads = frozenset(lp.id for lp in good)
        rets = [p_ for p_ in cfg.pred[cfg.exit] if cfg.nodes[p_].kind == 'stmt' and isinstance(cfg.nodes[p_].ast, ast.Return)]
        reach = cfg.reach(cfg.entry, avoid=heads)
        early = [p_ for p_ in rets if p_ in reach]
        v2, w2 = True, 'every return lies behind the loop over all nodes'
        if early:
            helpers = [c for c in _helper_calls(prog, f) if c.lineno <= cfg.nodes[early[0]].lineno
                       and prog.callee(c, f) not in (('trees', 'delete_terminal'), ('trees', 'parse_label'), ('trees', 'format_label'))]
            conds = [unparse(a.ast)[:50] for a in cfg.assumes_at(early[0])]
            v2 = None if helpers else False
            w2 = '`%s` (line %d, under %s) leaves before the loop that strips the indices of the constituents: a sentence ' \
                 'taking this path keeps its co-indices and gap indices' % (unparse(cfg.nodes[early[0]].ast), cfg.nodes[early[0]].lineno, conds)
        obs.append(Ob('R-LABELEDIT', f.fq, 'index stripping happens in every sentence', v2, w2, construct='ptb-always',
                      line=f.node.lineno))
    return obs, {}


# ------------------------------------------------------------------------------------ R-LABELFIELDS / R-LABELSPLIT

LABEL_FIELDS = ['label', 'gf', 'gf_separator', 'gapindex', 'coindex', 'headmarker']


def r_labelfields(prog, tier):
    obs = []
    pf = prog.func('trees', 'parse_label')
    ff = prog.func('trees', 'format_label')
    rets = [n for n in walk_own(pf.node) if isinstance(n, ast.Return)]
    if len(rets) != 1 or not isinstance(rets[0].value, ast.Name):
        raise Unrecognised('parse_label does not return a single object name', partial=obs)
    ob = rets[0].value.id
    stored = {}
    for n in walk_own(pf.node):
        if isinstance(n, ast.Assign) and isinstance(n.targets[0], ast.Attribute) and unparse(n.targets[0].value) == ob:
            stored[n.targets[0].attr] = unparse(n.value)
    lab = ff.params[0]
    read = set(n.attr for n in walk_own(ff.node) if isinstance(n, ast.Attribute) and unparse(n.value) == lab)
    for fld in LABEL_FIELDS:
        ok = True if (fld in stored and fld in read) else None
        obs.append(Ob('R-LABELFIELDS', 'trees.format_label', 'component %r set by parse_label is the one format_label reads'
                      % fld, ok, 'parse stores %s, format reads it' % stored.get(fld) if ok else
                      'stored by parse_label: %s, read by format_label: %s' % (fld in stored, fld in read),
                      construct='field:' + fld, nontrivial=False, line=ff.node.lineno))
        if fld in stored and fld not in ('gf_separator',):
            others = [v for k, v in stored.items() if k != fld and k in LABEL_FIELDS]
            okv = True if (stored[fld].isidentifier() and stored[fld] not in others and
                           ((fld == 'label') == (stored[fld] == pf.params[0]))) else (
                False if stored[fld].isidentifier() and stored[fld] in others else None)
            obs.append(Ob('R-LABELFIELDS', 'trees.parse_label', 'component %r is filled from its own variable' % fld,
                          okv, '%s.%s = %s' % (ob, fld, stored[fld]), construct='fieldsrc:' + fld, nontrivial=False,
                          line=pf.node.lineno))
    # the function part is joined with the separator recorded at parse time
    ok = None
    for n in walk_own(ff.node):
        if isinstance(n, ast.BinOp) and isinstance(n.op, ast.Add) and unparse(n.right) == '%s.gf' % lab:
            ok = unparse(n.left) == '%s.gf_separator' % lab
    if ok is None and 'gf_separator' not in read:
        ok = False          # the recorded separator is never consulted
    obs.append(Ob('R-LABELFIELDS', 'trees.format_label', 'the grammatical function is glued back with the separator it was '
                  'split off with', ok, '%s.gf_separator + %s.gf' % (lab, lab) if ok else
                  'the separator does not come from the parsed label: a label parsed with another separator comes back '
                  'changed', construct='gfsep', line=ff.node.lineno))
    sepv = stored.get('gf_separator')
    okp = False
    if sepv and sepv.isidentifier():
        defs = [unparse(v) for (_, v) in name_defs(pf, sepv) if isinstance(v, ast.AST)]
        okp = sorted(defs) == sorted(['DEFAULT_GF_SEPARATOR', "%s['gf_separator']" % pf.kwarg])
    if not okp:
        okp = None
    obs.append(Ob('R-LABELFIELDS', 'trees.parse_label', 'the separator recorded is the one used for splitting', okp,
                  'default or the gf_separator option' if okp else 'recorded separator `%s`' % sepv,
                  construct='gfsep-rec', line=pf.node.lineno))
    # the index part is built up: gap index first, co-index added to it
    cfg = ff.cfg
    for nm2 in sorted(ff.locals):
        defs = name_defs(ff, nm2)
        inits = [d for d in defs if isinstance(d[1], ast.Constant) and d[1].value == '']
        contrib = [d for d in defs if d not in inits]
        if len(inits) != 1 or len(contrib) < 2:
            continue
        if not all(('gapindex' in unparse(d[1][1] if isinstance(d[1], tuple) else d[1]) or
                    'coindex' in unparse(d[1][1] if isinstance(d[1], tuple) else d[1])) for d in contrib):
            continue
        plain = [d for d in contrib if isinstance(d[1], ast.AST) and nm2 not in [x.id for x in ast.walk(d[1]) if isinstance(x, ast.Name)]]
        # a plain assignment that can follow another contribution throws that contribution away
        bad = [d for d in plain if any(o[0] != d[0] and d[0] in cfg.reach(o[0]) for o in contrib)]
        # ... in the order parse_label takes them off from the right: co-index last, so the gap index is added first
        gap_c = [d for d in contrib if 'gapindex' in unparse(d[1][1] if isinstance(d[1], tuple) else d[1])]
        co_c = [d for d in contrib if 'coindex' in unparse(d[1][1] if isinstance(d[1], tuple) else d[1])]
        if len(gap_c) == 1 and len(co_c) == 1 and gap_c[0][0] != co_c[0][0] and all(isinstance(d[1], tuple) and d[1][0] == 'aug'
                                                                                    for d in (gap_c[0], co_c[0])):
            g_, c_ = gap_c[0][0], co_c[0][0]
            wrong_order = g_ in cfg.reach(c_) and c_ not in cfg.reach(g_)
            obs.append(Ob('R-LABELFIELDS', 'trees.format_label', 'the gap index is written before the co-index', not wrong_order,
                          'gap index added first, co-index after it' if not wrong_order else
                          'the co-index is added to `%s` before the gap index: `NP=1-2` comes back as `NP-2=1`, which parse_label '
                          'reads differently' % nm2, construct='index-order:' + nm2, line=ff.node.lineno, nontrivial=False))
        obs.append(Ob('R-LABELFIELDS', 'trees.format_label', 'gap index and co-index are both kept in `%s`' % nm2,
                      False if bad else True,
                      '`%s = %s` replaces what was collected before it: a label with gap index and co-index loses one of them'
                      % (nm2, unparse(bad[0][1])[:40]) if bad else 'every contribution after the first is added',
                      construct='index-acc:' + nm2, line=ff.node.lineno))
    # default suppression in format_label
    for (fld, dflt, opt) in (('label', 'DEFAULT_LABEL', 'always_label'), ('gf', 'DEFAULT_EDGE', 'always_gf')):
        ok = False
        wrong = None
        for n in cfg.eval_nodes():
            if n.kind == 'test' and isinstance(n.ast, ast.BoolOp) and isinstance(n.ast.op, ast.Or) and len(n.ast.values) == 2:
                a = norm_test(n.ast.values[0], True)
                b = n.ast.values[1]
                if a in (('cmp', '%s.%s' % (lab, fld), '!=', dflt), ('cmp', dflt, '!=', '%s.%s' % (lab, fld))) \
                        and isinstance(b, ast.Name):
                    bd = [unparse(v) for (_, v) in name_defs(ff, b.id) if isinstance(v, ast.AST)]
                    ok = bd == ["'%s' in %s" % (opt, ff.kwarg)]
                    if not ok and len(bd) == 1 and bd[0].endswith(' in %s' % ff.kwarg) and bd[0].startswith("'always_"):
                        wrong = bd[0]
                elif a in (('cmp', '%s.%s' % (lab, fld), '!=', dflt), ('cmp', dflt, '!=', '%s.%s' % (lab, fld))) \
                        and isinstance(b, ast.Compare):
                    ok = unparse(b) == "'%s' in %s" % (opt, ff.kwarg)
                    if not ok and unparse(b).startswith("'always_") and unparse(b).endswith(' in %s' % ff.kwarg):
                        wrong = unparse(b)
        obs.append(Ob('R-LABELFIELDS', 'trees.format_label', 'the default literal of %r is dropped unless %s is given' % (fld, opt),
                      True if ok else (False if wrong else None), '`%s.%s != %s or <%s>`' % (lab, fld, dflt, opt) if ok else
                      ('the default of %r is kept under `%s`, the documented switch is %s' % (fld, wrong, opt) if wrong
                       else 'suppression test not recognised'),
                      construct='dflt:' + fld, line=ff.node.lineno))
    return obs, {}


def _regex_of(prog, f, e):
    """The literal pattern behind a compiled-regex expression (a module constant `re.compile('...')`), or None."""
    v = e
    if isinstance(e, ast.Name) and e.id not in f.locals:
        for st in f.module.tree.body:
            if isinstance(st, ast.Assign) and len(st.targets) == 1 and isinstance(st.targets[0], ast.Name) and st.targets[0].id == e.id:
                v = st.value
    if isinstance(v, ast.Call) and unparse(v.func) in ('re.compile', 'compile') and v.args and isinstance(v.args[0], ast.Constant) \
            and isinstance(v.args[0].value, str):
        return v.args[0].value
    return None


def _end_anchored(pattern):
    try:
        import re._parser as sp
        items = list(sp.parse(pattern))
    except Exception:
        return None
    if not items:
        return False
    op, arg = items[-1]
    return str(op) == 'AT' and str(arg) in ('AT_END', 'AT_END_STRING')


def r_labelsplit(prog, tier):
    obs = []
    f = prog.func('trees', 'parse_label')
    cfg = f.cfg
    L = f.params[0]
    # co-index and gap index have separators of their own; the separator of the grammatical function (an option) is used to
    # find the function only: `label.rfind(gf_separator)` in front of an index cut mixes the two up
    kw_ = f.kwarg
    optsep = set()
    if kw_:
        for nm_ in f.locals:
            if any(isinstance(dv_, ast.AST) and ("%s['gf_separator']" % kw_) in unparse(dv_) for (_, dv_) in name_defs(f, nm_)):
                optsep.add(nm_)
    for m_ in cfg.eval_nodes():
        if m_.kind == 'stmt' and isinstance(m_.ast, ast.Assign) and isinstance(m_.ast.value, ast.Call) \
                and isinstance(m_.ast.value.func, ast.Attribute) and m_.ast.value.func.attr == 'rfind' and m_.ast.value.args \
                and isinstance(m_.ast.value.args[0], ast.Name) and m_.ast.value.args[0].id in optsep \
                and isinstance(m_.ast.targets[0], ast.Name):
            pos_ = m_.ast.targets[0].id
            digits = [t_ for t_ in cfg.nodes if t_.kind in ('test', 'assume') and '.isdigit()' in unparse(t_.ast) and pos_ in unparse(t_.ast)]
            if digits:
                obs.append(Ob('R-LABELSPLIT', f.fq, 'an index is found with its own separator', False,
                              '`%s` looks for the LAST `%s` - the separator of the grammatical function, which an option can change - '
                              'and what follows it is then tested for digits as an index: with another function separator a real '
                              'index is not split off and an all-digit function is taken for one' % (
                                  unparse(m_.ast)[:60], m_.ast.value.args[0].id), construct='split-indexsep:' + pos_, line=m_.lineno))
    # a decoration recognised by a regular expression is recognised on the whole part, not on its beginning
    for c_ in walk_own(f.node):
        if isinstance(c_, ast.Call) and isinstance(c_.func, ast.Attribute) and c_.func.attr in ('match', 'search') and c_.args:
            pat = None
            if unparse(c_.func.value) == 're' and isinstance(c_.args[0], ast.Constant) and isinstance(c_.args[0].value, str):
                pat = c_.args[0].value
            else:
                pat = _regex_of(prog, f, c_.func.value)
            if pat is None:
                continue
            anch = _end_anchored(pat)
            whole = any(isinstance(x_, ast.Attribute) and x_.attr in ('end', 'span', 'fullmatch') for x_ in walk_own(f.node)) \
                or any(isinstance(x_, ast.Compare) and '.group(' in unparse(x_) for x_ in walk_own(f.node))
            if anch is False and not whole:
                obs.append(Ob('R-LABELSPLIT', f.fq, 'a decoration is recognised on the whole part of the label it is tested on',
                              False, '`%s` with the pattern %r accepts a part that merely %s what the pattern describes (%s is not '
                              'anchored at the end): of `NP-3SG` the index `3` is taken and the rest of the label text is lost'
                              % (unparse(c_)[:50], pat, 'begins with' if c_.func.attr == 'match' else 'contains', c_.func.attr),
                              construct='split-regex:' + pat, line=c_.lineno))
    rebinds = [n for n in cfg.eval_nodes() if n.kind == 'stmt' and isinstance(n.ast, ast.Assign)
               and len(n.ast.targets) == 1 and unparse(n.ast.targets[0]) == L]
    if len(rebinds) < 2:
        obs.append(Ob('R-LABELSPLIT', f.fq, 'stripping of the label components', None,
                      '%d rebindings of the label recognised' % len(rebinds), construct='split-shape'))
    for n in rebinds:
        v = n.ast.value
        ok = None
        why = '`%s` has a shape this rule does not recognise' % unparse(n.ast)
        if isinstance(v, ast.Call) and isinstance(v.func, ast.Attribute) and unparse(v.func.value) == L \
                and v.func.attr in ('rstrip', 'lstrip', 'strip', 'replace', 'translate'):
            ok = False
            why = '`%s` can remove more than the one recorded component (all repeated characters go)' % unparse(n.ast)
        if isinstance(v, ast.Subscript) and unparse(v.value) == L and isinstance(v.slice, ast.Slice) \
                and v.slice.lower is None and v.slice.step is None and v.slice.upper is not None:
            P = unparse(v.slice.upper)
            # the component kept is the rest after position P (one separator / marker character)
            comp = None
            for m in cfg.eval_nodes():
                if m.kind == 'stmt' and isinstance(m.ast, ast.Assign) and cfg.dominates(m.id, n.id) \
                        and cfg.same_loop(m.id, n.id) and cfg.always_with(n.id, m.id) and cfg.always_with(m.id, n.id):
                    mv = unparse(m.ast.value)
                    if mv == '%s[%s + 1:]' % (L, P) or (P == '-1' and mv == '%s[-1]' % L):
                        if no_kill_between(cfg, m.id, n.id, [L, P]):
                            comp = m
            ok = True if comp is not None else None
            why = 'cuts at `%s`; what follows (after one character) was stored by `%s`' % (P, unparse(comp.ast)) if ok else \
                'prefix slice at `%s`; the matching component assignment was not recognised' % P
        elif unparse(v) == 'DEFAULT_LABEL':
            facts = [x[0] for x in facts_at(cfg, n.id)]
            ok = True if (('cmp', 'len(%s)' % L, '==', '0') in facts or ('truthy', L, False) in facts) else None
            why = 'empty category replaced by the default literal' if ok else 'guard of the default label not recognised'
            if ok:
                later = [m for m in rebinds if m.id != n.id and m.id in cfg.reach(n.id)
                         and isinstance(m.ast.value, ast.Subscript) and unparse(m.ast.value.value) == L]
                if later:
                    ok = False
                    why = 'the default for an empty category is applied before `%s` (line %d) strips a component: a label that ' \
                          'consists only of a head marker / index / function is left with an empty category' % (
                              unparse(later[0].ast), later[0].lineno)
        obs.append(Ob('R-LABELSPLIT', f.fq, 'rebinding `%s` removes exactly one recorded component' % unparse(n.ast), ok, why,
                      construct='split:' + unparse(n.ast), line=n.lineno))
    # the position a prefix slice cuts at is the position that was tested
    posvars = set(nm for nm in f.locals for (_, v_) in name_defs(f, nm) if isinstance(v_, ast.Call)
                  and isinstance(v_.func, ast.Attribute) and v_.func.attr in ('rfind', 'find', 'index', 'rindex'))
    for n in rebinds:
        v = n.ast.value
        if isinstance(v, ast.Subscript) and unparse(v.value) == L and isinstance(v.slice, ast.Slice) and v.slice.lower is None \
                and isinstance(v.slice.upper, ast.Name) and v.slice.upper.id in posvars:
            P = v.slice.upper.id
            facts = [x[0] for x in facts_at(cfg, n.id)]
            about_p = [fa for fa in facts if fa[0] == 'cmp' and P in (fa[1], fa[3])]
            others = sorted(set(q for fa in facts if fa[0] == 'cmp' for q in (fa[1], fa[3]) if q in posvars and q != P))
            if not about_p and others:
                obs.append(Ob('R-LABELSPLIT', f.fq, 'the position `%s` the label is cut at is the position that was tested' % P, False,
                              'the cut `%s` is made at `%s`, the test on the way is about `%s`: a label that has only one of the two '
                              'separators is cut at -1 or keeps its index' % (unparse(n.ast), P, others[0]),
                              construct='split-pos:' + P, line=n.lineno))
    # the head marker is the last character of a label: it is taken off before anything is searched from the right
    marker = [n for n in rebinds if isinstance(n.ast.value, ast.Subscript) and unparse(n.ast.value) == '%s[:-1]' % L]
    index_cuts = [n for n in rebinds if isinstance(n.ast.value, ast.Subscript) and isinstance(n.ast.value.slice, ast.Slice)
                  and isinstance(n.ast.value.slice.upper, ast.Name) and n.ast.value.slice.upper.id in posvars]
    if marker and index_cuts:
        late = [c for c in index_cuts if any(m.id in cfg.reach(c.id) for m in marker)]
        searches = [nid for nm in posvars for (nid, v_) in name_defs(f, nm) if isinstance(v_, ast.Call)
                    and isinstance(v_.func, ast.Attribute) and v_.func.attr in ('rfind', 'rindex')]
        late_search = [nid for nid in searches if any(m.id in cfg.reach(nid) for m in marker)]
        bad = late or late_search
        obs.append(Ob('R-LABELSPLIT', f.fq, 'the head marker is stripped before the indices are searched from the right', not bad,
                      'marker strip first' if not bad else
                      'the head marker is taken off at line %d, after `%s` (line %d): with the marker still there the text behind the '
                      'last separator is not a number, so `NP-1\'` keeps its co-index in the category'
                      % (marker[0].lineno, unparse(cfg.nodes[(late_search or [c.id for c in late])[0]].ast)[:40],
                         cfg.nodes[(late_search or [c.id for c in late])[0]].lineno),
                      construct='split-order', line=marker[0].lineno))
    # from the right a label ends in ...=GAP-COINDEX: the co-index is searched (and cut) before the gap index
    def _search_of(sepname):
        return [nid for nm in posvars for (nid, v_) in name_defs(f, nm) if isinstance(v_, ast.Call)
                and isinstance(v_.func, ast.Attribute) and v_.func.attr in ('rfind', 'rindex') and v_.args
                and sepname in unparse(v_.args[0])]
    co_s, gap_s = _search_of('DEFAULT_COINDEX_SEPARATOR'), _search_of('DEFAULT_GAPPING_SEPARATOR')
    if co_s and gap_s:
        wrong = any(c_ in cfg.reach(g_) for g_ in gap_s for c_ in co_s) and not any(g_ in cfg.reach(c_) for g_ in gap_s for c_ in co_s)
        obs.append(Ob('R-LABELSPLIT', f.fq, 'the co-index (last) is taken off before the gap index is searched', not wrong,
                      'co-index search first' if not wrong else
                      'the gap index is searched at line %d, before the co-index (line %d): in `NP=2-1` the text behind `=` is `2-1`, '
                      'not a number, so the gap index stays in the category' % (cfg.nodes[gap_s[0]].lineno, cfg.nodes[co_s[0]].lineno),
                      construct='split-order-idx', line=cfg.nodes[gap_s[0]].lineno))
    # an index is kept as written: no round trip through int() (leading zeros)
    for m_ in cfg.eval_nodes():
        if m_.kind == 'stmt' and isinstance(m_.ast, ast.Assign) and isinstance(m_.ast.targets[0], ast.Name) \
                and m_.ast.targets[0].id in ('coindex', 'gapindex') or (
                m_.kind == 'stmt' and isinstance(m_.ast, ast.Assign) and isinstance(m_.ast.targets[0], ast.Name)
                and any(isinstance(x_, ast.Subscript) and unparse(x_.value) == L for x_ in ast.walk(m_.ast.value))):
            for x_ in ast.walk(m_.ast.value):
                if isinstance(x_, ast.Call) and isinstance(x_.func, ast.Name) and x_.func.id == 'int' and any(
                        isinstance(y_, ast.Subscript) and unparse(y_.value) == L for y_ in ast.walk(x_)):
                    obs.append(Ob('R-LABELSPLIT', f.fq, 'a component is the text that stood in the label: `%s`' % unparse(m_.ast)[:50], False,
                                  'the slice goes through int(): `01` comes back as `1`, the formatted label differs from the one parsed',
                                  construct='split-int:' + unparse(m_.ast)[:40], line=m_.lineno))
    # indices must be digits; the search for co-index / gap index uses the formatting separators
    rets = [n for n in walk_own(f.node) if isinstance(n, ast.Return)]
    ob = rets[0].value.id if len(rets) == 1 and isinstance(rets[0].value, ast.Name) else None
    attr_src = {}
    for n in walk_own(f.node):
        if isinstance(n, ast.Assign) and isinstance(n.targets[0], ast.Attribute) and ob and unparse(n.targets[0].value) == ob \
                and isinstance(n.value, ast.Name):
            attr_src[n.targets[0].attr] = n.value.id
    for (comp, sep) in (('coindex', 'DEFAULT_COINDEX_SEPARATOR'), ('gapindex', 'DEFAULT_GAPPING_SEPARATOR')):
        cvar = attr_src.get(comp, comp)
        defs = [(n, v) for (n, v) in name_defs(f, cvar) if isinstance(v, ast.AST) and const_str(v) != '']
        ok = False
        if len(defs) == 1:
            facts = [x[0] for x in facts_at(cfg, defs[0][0])]
            dig = any(fa[0] in ('opaque', 'truthy') and fa[1].endswith('.isdigit()') and fa[2] is True for fa in facts)
            posn = [fa[3] for fa in facts if fa[0] == 'cmp' and fa[1] == '-1' and fa[2] == '<']
            pd = []
            if posn:
                pd = [unparse(v) for (_, v) in name_defs(f, posn[0]) if isinstance(v, ast.AST)]
            ok = dig and pd == ['%s.rfind(%s)' % (L, sep)]
        obs.append(Ob('R-LABELSPLIT', f.fq, '%s is split off at the last %s and only if it is a number' % (comp, sep), True if ok else None,
                      'rfind(%s), isdigit()' % sep if ok else 'search or digit test changed', construct='idx:' + comp,
                      line=f.node.lineno))
    # trace test
    td = [unparse(v) for (_, v) in name_defs(f, attr_src.get('is_trace', 'is_trace')) if isinstance(v, ast.AST)]
    ok = len(td) == 1 and "%s[0] == '*'" % L in td[0] and "%s[-1] == '*'" % L in td[0] and ' and ' in td[0]
    if not ok:
        # positive evidence: the two ends are combined with `or`
        ok = False if (len(td) == 1 and ' or ' in td[0] and '*' in td[0] and ' and ' not in td[0].split(' or ')[-1]) else None
    obs.append(Ob('R-LABELSPLIT', f.fq, 'a label is a trace iff its category starts and ends with an asterisk', ok,
                  td[0] if td else 'is_trace not computed', construct='trace', line=f.node.lineno, nontrivial=False))
    return obs, {}


# ------------------------------------------------------------------------------------ R-DISCOORDER / R-EDGE

def r_discoorder(prog, tier):
    obs = []
    f = prog.func('treeanalysis', 'disco_order')
    cfg = f.cfg
    t = f.params[0]
    rets = [n for n in cfg.eval_nodes() if n.kind == 'stmt' and isinstance(n.ast, ast.Return)]
    if not rets:
        raise Unrecognised('disco_order has no return', partial=obs)
    def _is_children_list(e):
        if isinstance(e, ast.Call) and prog.callee(e, f) == ('trees', 'children'):
            return True
        if isinstance(e, ast.Subscript) and isinstance(e.slice, ast.Slice):
            return _is_children_list(e.value)
        if isinstance(e, ast.Name):
            return any(isinstance(d, ast.AST) and _is_children_list(d) for (_, d) in name_defs(f, e.id))
        return False
    for r in rets:
        v = r.ast.value
        parts = v.values if isinstance(v, ast.BoolOp) else ([v.body, v.orelse] if isinstance(v, ast.IfExp) else [])
        if any(_is_children_list(x) for x in parts) or _is_children_list(v):
            obs.append(Ob('R-DISCOORDER', f.fq, 'a node is returned as such only when it is a token: `%s`' % unparse(r.ast),
                          False, 'the list of children is handed back as it is: inner nodes appear in place of their tokens',
                          construct='do-children:' + unparse(r.ast), line=r.lineno))
            continue
        if isinstance(v, ast.List):
            facts = [x[0] for x in facts_at(cfg, r.id)]
            leaf = ('opaque', 'trees.has_children(%s)' % t, False) in facts or \
                ('cmp', 'len(trees.children(%s))' % t, '==', '0') in facts
            ok = len(v.elts) == 1 and unparse(v.elts[0]) == t and leaf
            if not ok and not (len(v.elts) == 1 and unparse(v.elts[0]) == t):
                ok = False          # a list holding some other node is handed back in place of its tokens
            elif not ok:
                ok = None
            obs.append(Ob('R-DISCOORDER', f.fq, 'a node is returned as such only when it is a token: `%s`' % unparse(r.ast),
                          ok, 'guarded by `not trees.has_children(%s)`' % t if ok else
                          'an inner node can be returned in place of its tokens', construct='do:' + unparse(r.ast),
                          line=r.lineno))
        elif isinstance(v, ast.Name):
            defs = [(n, d) for (n, d) in name_defs(f, v.id) if isinstance(d, ast.AST)]
            bad = [unparse(d) for (n, d) in defs if not (isinstance(d, ast.List) and not d.elts)
                   and not (isinstance(d, ast.Call) and prog.callee(d, f) == ('treeanalysis', 'disco_order'))]
            obs.append(Ob('R-DISCOORDER', f.fq, 'every other result is built from the recursive results of the children', True if not bad else None,
                          '%d definitions, all disco_order(child, mode)' % len(defs) if not bad else
                          'definition(s) %s are not recursive results' % bad, construct='do-rec', line=r.lineno))
        elif isinstance(v, ast.Call) and prog.callee(v, f) == ('treeanalysis', 'disco_order'):
            obs.append(Ob('R-DISCOORDER', f.fq, 'every other result is built from the recursive results of the children', True,
                          'returns the recursive result directly', construct='do-rec2:' + unparse(r.ast), line=r.lineno))
        else:
            obs.append(Ob('R-DISCOORDER', f.fq, 'return value has a recognised shape', None, unparse(r.ast),
                          construct='do?:' + unparse(r.ast), line=r.lineno))
    return obs, {}


def r_edge(prog, tier):
    """root_attach: a child moves only when both neighbour tokens exist; the comparison is exact."""
    obs = []
    f = prog.func('transform', 'root_attach')
    cfg = f.cfg
    tree = f.params[0]
    calls = []
    for n in cfg.eval_nodes():
        if n.kind == 'stmt':
            for sub in walk_own(n.ast):
                if isinstance(sub, ast.Call) and prog.callee(sub, f) == ('trees', 'lca'):
                    calls.append((n, sub))
    if len(calls) != 1:
        raise Unrecognised('root_attach: %d lca calls' % len(calls), partial=obs)
    n, call = calls[0]
    # every root child is looked at: the loop over the root children is left only by running out of children
    if n.loops:
        outer_loop = n.loops[0]
        for b in cfg.eval_nodes():
            if b.kind == 'stmt' and isinstance(b.ast, (ast.Break, ast.Return)) and b.loops and b.loops[0] == outer_loop \
                    and (isinstance(b.ast, ast.Return) or b.loops[-1] == outer_loop):
                conds = ' and '.join(('' if a.pol else 'not ') + unparse(a.ast) for a in cfg.assumes_at(b.id) if outer_loop in a.loops)
                obs.append(Ob('R-EDGE', f.fq, 'the loop over the root children looks at every child', False,
                              '`%s` under `%s` ends the loop over the root children: every child further right stays at the root, '
                              'although only this one is at the edge of the sentence' % (unparse(b.ast), conds[:80]),
                              construct='edge-leave:' + conds[:60], line=b.lineno))
    # absorbing a skipped sibling moves the right neighbour BEHIND it: max of its token numbers, plus one
    if n.loops:
        for m in cfg.eval_nodes():
            if m.kind == 'stmt' and isinstance(m.ast, ast.Assign) and isinstance(m.ast.targets[0], ast.Name) and len(m.loops) >= 2 \
                    and m.loops[0] == n.loops[0] and isinstance(m.ast.value, ast.BinOp) and isinstance(m.ast.value.op, ast.Add) \
                    and isinstance(m.ast.value.left, ast.Call) and unparse(m.ast.value.left.func) in ('min', 'max') \
                    and unparse(m.ast.value.right) == '1':
                which = unparse(m.ast.value.left.func)
                obs.append(Ob('R-EDGE', f.fq, 'the right neighbour moves behind an absorbed sibling: `%s`' % unparse(m.ast)[:50],
                              which == 'max', 'max(...) + 1' if which == 'max' else
                              '`min(...) + 1` is the second token OF the absorbed sibling, not the token behind it: a sibling of two '
                              'or more tokens leaves the neighbour inside itself', construct='edge-absorb', line=m.lineno))
    a0, a1 = call.args
    # tree_terms[t_l - 1], tree_terms[t_r - 1]
    idx = []
    for a in (a0, a1):
        if isinstance(a, ast.Subscript) and isinstance(a.slice, ast.BinOp) and isinstance(a.slice.op, ast.Sub) \
                and unparse(a.slice.right) == '1' and isinstance(a.slice.left, ast.Name):
            idx.append((unparse(a.value), a.slice.left.id))
    if len(idx) != 2:
        raise Unrecognised('root_attach: lca arguments are not <terminals>[t - 1]', partial=obs)
    terms = idx[0][0]
    td = [unparse(v) for (_, v) in name_defs(f, terms) if isinstance(v, ast.AST)]
    terms_ok = td == ['trees.terminals(%s)' % tree]
    tl, tr = idx[0][1], idx[1][1]

    def var_with_def(text):
        for nm in f.locals:
            ds = [unparse(v) for (_, v) in name_defs(f, nm) if isinstance(v, ast.AST)]
            if ds == [text]:
                return nm
        return None
    tmin = var_with_def("%s[0].data['num']" % terms)
    tmax = var_with_def("%s[-1].data['num']" % terms)
    facts = [x[0] for x in facts_at(cfg, n.id)]
    lo = tmin is not None and ('cmp', tmin, '<=', tl) in facts
    hi = tmax is not None and ('cmp', tr, '<=', tmax) in facts
    tld = [unparse(v) for (_, v) in name_defs(f, tl) if isinstance(v, ast.AST)]
    trd = [unparse(v) for (_, v) in name_defs(f, tr) if isinstance(v, ast.AST)]
    bad_neighbour = None
    for (_, v) in name_defs(f, tr):
        if isinstance(v, ast.BinOp) and isinstance(v.op, ast.Add) and unparse(v.right) != '1' and unparse(v.left) != '1':
            bad_neighbour = '`%s = %s` is not (last token of the span) + 1: it assumes the child covers a continuous span' \
                            % (tr, unparse(v))
    for (_, v) in name_defs(f, tl):
        if isinstance(v, ast.BinOp) and isinstance(v.op, ast.Sub) and unparse(v.right) != '1':
            bad_neighbour = '`%s = %s` is not (first token of the span) - 1' % (tl, unparse(v))
    # min / max the wrong way round: the right neighbour follows the LAST token of the span, the left one precedes the FIRST
    for (which_, nm_, want_, wrong_) in (('right', tr, 'max', 'min'), ('left', tl, 'min', 'max')):
        for (_, v) in name_defs(f, nm_):
            if isinstance(v, ast.BinOp) and isinstance(v.left, ast.Call) and isinstance(v.left.func, ast.Name) \
                    and v.left.func.id == wrong_ and unparse(v.right) == '1':
                bad_neighbour = '`%s = %s`: the %s neighbour is taken next to the %s token of the span (`%s`), it belongs next to the %s ' \
                                'one (`%s`): for a span of more than one token it lies inside the span or its gap' % (
                                    nm_, unparse(v), which_, 'first' if wrong_ == 'min' else 'last', wrong_,
                                    'last' if want_ == 'max' else 'first', want_)
    shape = len(tld) == 1 and tld[0].startswith('min(') and tld[0].endswith(') - 1') and \
        all(d.startswith('max(') and d.endswith(') + 1') for d in trd) and len(trd) >= 1
    ok = True if (terms_ok and lo and hi and shape) else None
    if ok is None and terms_ok and tmin and tmax:
        # positive evidence: the neighbours are compared with the sentence boundaries, but not with the exact relation
        rel_l = [fa for fa in facts if fa[0] == 'cmp' and set((fa[1], fa[3])) == set((tmin, tl))]
        rel_r = [fa for fa in facts if fa[0] == 'cmp' and set((fa[1], fa[3])) == set((tmax, tr))]
        if (rel_l and not lo) or (rel_r and not hi):
            ok = False
    const_note = None
    if ok is None and terms_ok:
        # positive evidence: a neighbour is compared with an integer constant where the first / last token number belongs
        for (v_, bound_, which) in ((tl, tmin, 'first'), (tr, tmax, 'last')):
            rel = [fa for fa in facts if fa[0] == 'cmp' and v_ in (fa[1], fa[3])]
            withc = [fa for fa in rel if (fa[1] if fa[3] == v_ else fa[3]).lstrip('-').isdigit()]
            withb = [fa for fa in rel if bound_ is not None and bound_ in (fa[1], fa[3])]
            if withc and not withb:
                ok = False
                const_note = 'the %s neighbour `%s` is compared with the constant %s, not with the number of the %s token of ' \
                             'the sentence' % ('left' if which == 'first' else 'right', v_,
                                               withc[0][1] if withc[0][3] == v_ else withc[0][3], which)
    if bad_neighbour:
        ok = False
    if const_note and not bad_neighbour:
        bad_neighbour = const_note
    obs.append(Ob('R-EDGE', f.fq, 'a root child is re-attached exactly when both its left and right neighbour tokens exist',
                  ok, bad_neighbour if bad_neighbour else 'the move is dominated by `%s <= %s` and `%s <= %s` (left neighbour = min - 1, right = max + 1)'
                  % (tmin, tl, tr, tmax) if ok else
                  'neighbour test is not the exact pair  first <= left  and  right <= last: left %s, right %s, '
                  'neighbour definitions ok %s' % (lo, hi, shape), construct='edge', line=n.lineno))
    # skipping loop: the comparison values are recomputed from the current focus and sibling
    wl = [x for x in cfg.eval_nodes() if x.kind == 'test' and x.owner is not None and isinstance(x.owner, ast.While)]
    okl = None
    why = 'sibling-skipping loop not found in a form this rule models'
    for w in wl:
        inside = [x for x in cfg.eval_nodes() if w.id in x.loops and x.kind == 'stmt' and isinstance(x.ast, ast.Assign)]
        tn = norm_test(w.ast, True)
        if tn[0] != 'none' or tn[2] is not False:
            continue
        sib = tn[1]
        upd = [x for x in inside if isinstance(x.ast.targets[0], ast.Name) and unparse(x.ast.value) == sib]
        if not upd:
            continue
        foc = unparse(upd[0].ast.targets[0])
        # every local that holds the token span of the focus / the sibling
        verdicts = []
        for who in (foc, sib):
            origins = set([who])
            for x in cfg.eval_nodes():
                if x.kind == 'stmt' and isinstance(x.ast, ast.Assign) and unparse(x.ast.targets[0]) == who \
                        and isinstance(x.ast.value, ast.Name):
                    origins.add(x.ast.value.id)
            spans = set()
            for x in cfg.eval_nodes():
                if x.kind == 'stmt' and isinstance(x.ast, ast.Assign) and isinstance(x.ast.targets[0], ast.Name) \
                        and any('trees.terminals(%s)' % o in unparse(x.ast.value) for o in origins):
                    spans.add(x.ast.targets[0].id)
            grown = True
            while grown:
                grown = False
                for x in cfg.eval_nodes():
                    if x.kind == 'stmt' and isinstance(x.ast, ast.Assign) and isinstance(x.ast.targets[0], ast.Name) \
                            and isinstance(x.ast.value, ast.Name) and x.ast.value.id in spans \
                            and x.ast.targets[0].id not in spans and w.id not in x.loops:
                        spans.add(x.ast.targets[0].id)
                        grown = True
            if not spans:
                verdicts.append(None)
                continue
            rebinds = [x for x in inside if unparse(x.ast.targets[0]) == who]
            for sp in spans:
                used = any(w.id in y.loops and y.kind in ('test', 'assume') and sp in [z.id for z in ast.walk(y.ast) if isinstance(z, ast.Name)]
                           for y in cfg.nodes if y.ast is not None)
                if not used:
                    continue
                defs_in = [x for x in inside if unparse(x.ast.targets[0]) == sp]
                every = any(cfg.in_every_iteration(w.id, x.id) for x in defs_in)
                follows = rebinds and all(any(cfg.always_with(r.id, x.id) and cfg.same_loop(r.id, x.id) for x in defs_in) for r in rebinds)
                if every or follows:
                    verdicts.append(True)
                elif not defs_in and rebinds:
                    verdicts.append(False)      # computed before the loop, the loop rebinds the node, the span stays
                    why = '`%s` is computed before the skipping loop from `%s`; the loop moves `%s` on but never recomputes ' \
                          'the span: later iterations compare with the first focus' % (sp, who, who)
                elif not defs_in and who == sib:
                    verdicts.append(False)
                    why = '`%s` is computed before the skipping loop although `%s` changes in every iteration' % (sp, who)
                else:
                    verdicts.append(None)
        if verdicts and all(v is True for v in verdicts):
            okl = True
            why = 'the token spans of focus and sibling are up to date whenever they are compared in the skipping loop'
        elif any(v is False for v in verdicts):
            okl = False
    obs.append(Ob('R-EDGE', f.fq, 'skipping over adjacent unattached siblings compares the current focus with the current '
                  'sibling', okl, why, construct='edge-skip', line=f.node.lineno))
    # the two tests of the skipping loop, as integer-linear normal forms over min/max of the two spans
    from ..linear import norm_compare, difference_bound
    for w in wl:
        tn = norm_test(w.ast, True)
        if tn[0] != 'none' or tn[2] is not False:
            continue
        sib = tn[1]
        inside = [x for x in cfg.eval_nodes() if w.id in x.loops and x.kind == 'stmt' and isinstance(x.ast, ast.Assign)]
        upd = [x for x in inside if isinstance(x.ast.targets[0], ast.Name) and unparse(x.ast.value) == sib]
        if not upd:
            continue
        foc = unparse(upd[0].ast.targets[0])

        def spans_of(who):
            out = set()
            origins = set([who]) | set(x.ast.value.id for x in cfg.eval_nodes() if x.kind == 'stmt' and isinstance(x.ast, ast.Assign)
                                       and unparse(x.ast.targets[0]) == who and isinstance(x.ast.value, ast.Name))
            for x in cfg.eval_nodes():
                if x.kind == 'stmt' and isinstance(x.ast, ast.Assign) and isinstance(x.ast.targets[0], ast.Name) \
                        and any('trees.terminals(%s)' % o in unparse(x.ast.value) for o in origins):
                    out.add(x.ast.targets[0].id)
            return out
        ss = spans_of(sib)
        fs = spans_of(foc) - ss
        for n_ in cfg.nodes:
            if n_.kind != 'test' or w.id not in n_.loops or not isinstance(n_.ast, ast.Compare):
                continue
            db = difference_bound(norm_compare(f, n_.ast))
            if db is None:
                continue
            x_, y_, c_ = db
            def kind(a):
                for (fn, lst, tag) in (('min', ss, 'smin'), ('max', ss, 'smax'), ('min', fs, 'fmin'), ('max', fs, 'fmax')):
                    if any(a == '%s(%s)' % (fn, sp) for sp in lst):
                        return tag
                return None
            kx, ky = kind(x_), kind(y_)
            if kx is None or ky is None:
                continue
            okt = None
            whyt = 'test between %s and %s not one this rule knows' % (x_, y_)
            # role of the test: does its true branch end the scan (break) or move on to the next sibling?
            owner = n_.owner
            role = None
            if isinstance(owner, ast.If):
                if any(isinstance(b_, ast.Break) for b_ in owner.body):
                    role = 'gap'
                elif any(isinstance(b_, ast.Break) for b_ in owner.orelse):
                    role = 'nogap'
                elif any(isinstance(b_, ast.Continue) for b_ in owner.body):
                    role = 'skip'
            # bring to the form  smin - fmax <= c   (tokens of different nodes are never equal: <= -1 and <= 0 coincide)
            d = None
            if (kx, ky) == ('smin', 'fmax'):
                d = ('le', c_)               # smin - fmax <= c
            elif (kx, ky) == ('fmax', 'smin'):
                d = ('ge', -c_)              # smin - fmax >= -c
            if d is not None and role == 'skip':
                if d in (('le', -1), ('le', 0)):
                    okt, whyt = True, 'skip when the sibling starts before the end of the focus'
                elif d[0] == 'le':
                    okt, whyt = False, 'the sibling is skipped when  start(sibling) - end(focus) <= %d ; documented: when it ' \
                                       'starts before the end of the focus (<= -1)' % d[1]
            elif d is not None and role == 'gap':
                if d == ('ge', 2):
                    okt, whyt = True, 'the scan ends when the sibling starts at least two positions after the end of the focus'
                elif d[0] == 'ge':
                    okt, whyt = False, 'the scan ends when  start(sibling) - end(focus) >= %d ; documented: >= 2 (a directly ' \
                                       'adjacent sibling is not a gap)' % d[1]
            elif d is not None and role == 'nogap':
                if d == ('le', 1):
                    okt, whyt = True, 'the scan goes on while the sibling is adjacent'
                elif d[0] == 'le':
                    okt, whyt = False, 'the scan goes on while  start(sibling) - end(focus) <= %d ; documented: <= 1' % d[1]
            elif 'smax' in (kx, ky) and ('fmax' in (kx, ky) or 'fmin' in (kx, ky)) and role in ('skip', 'gap', 'nogap'):
                okt, whyt = False, 'the test looks at the END of the sibling (`%s`): whether it is skipped or ends the scan ' \
                                   'depends on where it STARTS' % (x_ if kx == 'smax' else y_)
            obs.append(Ob('R-EDGE', f.fq, 'skipping-loop test `%s` is one of the two documented comparisons' % unparse(n_.ast),
                          okt, whyt, construct='edge-test:' + unparse(n_.ast), line=n_.lineno))
    return obs, {}
