"""Rules added after the second seeding round.  Each reports VIOLATED only on positive evidence.

R-MEMO      a lookup-or-compute cache is keyed by the very arguments of the computation
R-LOOPSTRIP label_strip_fanout strips all trailing digits (a loop, not a single step)
R-OPENMODE  output files are opened for writing, never for appending
R-LITERALS  inventory and head-rule tables contain no accidentally fused string literals
R-RECURSE   a recursive call hands on every parameter
R-REPORT    GapDegree.done prints one row per degree that occurred
R-DIRMODE   directory mode converts every member of the directory
R-SYMTARGET punctuation_symetrify moves the partner into the constituent of the paired token
R-ROOTSCAN  the TIGER-XML root is searched among all nodes of the sentence
"""
import ast
import io
import tokenize

from ..core import (AnalysisError, Unrecognised, path, unparse, norm_test, facts_at, walk_own, split_assumes,
                    const_str, root_name, _unique_assign)
from ..events import name_defs, single_def, link_events, resolve
from ..report import Ob


def _all_funcs_incl_nested(prog):
    for f in prog.all_funcs():
        yield f, f.node
        for n in ast.walk(f.node):
            if isinstance(n, ast.FunctionDef) and n is not f.node:
                yield f, n


def r_memo(prog, tier):
    obs = []
    for f, fn in _all_funcs_incl_nested(prog):
        for n in ast.walk(fn):
            if not isinstance(n, ast.If):
                continue
            t = n.test
            neg = isinstance(t, ast.UnaryOp) and isinstance(t.op, ast.Not)
            c = t.operand if neg else t
            if not (isinstance(c, ast.Compare) and len(c.ops) == 1 and isinstance(c.ops[0], (ast.In, ast.NotIn))):
                continue
            absent = (isinstance(c.ops[0], ast.NotIn) and not neg) or (isinstance(c.ops[0], ast.In) and neg)
            if not absent:
                continue
            K, D = c.left, c.comparators[0]
            for st in n.body:
                if isinstance(st, ast.Assign) and isinstance(st.targets[0], ast.Subscript) \
                        and unparse(st.targets[0].value) == unparse(D) and unparse(st.targets[0].slice) == unparse(K) \
                        and isinstance(st.value, ast.Call) and st.value.args:
                    call = st.value
                    if isinstance(call.func, ast.Name) and call.func.id in ('Counter', 'dict', 'list', 'set', 'defaultdict'):
                        continue
                    # the key: a name bound to a tuple, or the tuple itself
                    key = K
                    if isinstance(K, ast.Name):
                        for x in ast.walk(fn):
                            if isinstance(x, ast.Assign) and isinstance(x.targets[0], ast.Name) and x.targets[0].id == K.id:
                                key = x.value
                    comps = [unparse(e) for e in key.elts] if isinstance(key, ast.Tuple) else [unparse(key)]
                    comps += ['tuple(%s)' % a for a in comps] + [a[6:-1] for a in comps if a.startswith('tuple(')]
                    args = [unparse(a) for a in call.args] + [unparse(k.value) for k in call.keywords]
                    missing = [a for a in args if a not in comps and not a.startswith(("'", '"')) and not a.isdigit()]
                    # an argument computed from components of the key alone (and module-level names) is covered by the key
                    kcomps = list(key.elts) if isinstance(key, ast.Tuple) else [key]
                    ktexts = set(unparse(e_) for e_ in kcomps)

                    def _uncovered_locals(e_, depth=0):
                        out_, bound_ = set(), set()
                        for x in ast.walk(e_):
                            if isinstance(x, ast.comprehension):
                                bound_ |= set(y.id for y in ast.walk(x.target) if isinstance(y, ast.Name))
                            if isinstance(x, ast.Lambda):
                                bound_ |= set(y.arg for y in x.args.args)
                        todo_ = [e_]
                        while todo_:
                            x = todo_.pop()
                            if isinstance(x, ast.expr) and unparse(x) in ktexts:
                                continue            # a component of the key, as a whole
                            if isinstance(x, ast.Name):
                                if x.id in bound_ or not (x.id in f.locals or x.id in f.params):
                                    continue
                                dv = [v_ for (_, v_) in name_defs(f, x.id)] if x.id in f.locals else []
                                if depth < 2 and len(dv) == 1 and isinstance(dv[0], ast.AST) and not _uncovered_locals(dv[0], depth + 1):
                                    continue        # a local that is itself a function of key components
                                out_.add(x.id)
                                continue
                            todo_.extend(ast.iter_child_nodes(x))
                        return out_
                    still = []
                    for a_node in list(call.args) + [k.value for k in call.keywords]:
                        if unparse(a_node) in missing and _uncovered_locals(a_node):
                            still.append(unparse(a_node))
                    missing = still
                    obs.append(Ob('R-MEMO', f.fq, 'cache `%s` is keyed by every argument of `%s(...)`' % (unparse(D), unparse(call.func)[:40]),
                                  not missing, 'key %s covers the arguments' % unparse(key) if not missing else
                                  'argument(s) %s of the cached computation are not part of the key `%s`: results for different '
                                  'inputs are confused' % (missing, unparse(key)), construct='memo:%s:%s' % (unparse(D), unparse(key)),
                                  line=n.lineno))
    obs.append(Ob('R-MEMO', 'trees', 'scan for lookup-or-compute caches covered every function', True,
                  'pattern `if K not in D: D[K] = f(args)`', construct='memo-scan', nontrivial=False))
    return obs, {}


def r_loopstrip(prog, tier):
    obs = []
    f = prog.func('grammarconst', 'label_strip_fanout')
    cfg = f.cfg
    tests = [n for n in cfg.eval_nodes() if n.kind == 'test' and '.isdigit()' in unparse(n.ast)]
    ok, why = None, 'digit stripping not recognised'
    for t in tests:
        if isinstance(t.owner, ast.While):
            ok, why = True, 'strips while the last character is a digit'
        elif isinstance(t.owner, ast.If) and not t.loops and any(
                isinstance(c, ast.Call) and unparse(c.func).split('.')[-1] == f.node.name for c in walk_own(f.node)):
            ok, why = True, 'strips one digit and calls itself for the rest'
        elif isinstance(t.owner, ast.If) and not t.loops:
            ok, why = False, 'only one trailing digit is removed: fan-outs of 10 and more leave a digit on the label'
    if ok is None and any(isinstance(n, ast.Call) and isinstance(n.func, ast.Attribute) and n.func.attr == 'rstrip'
                          for n in walk_own(f.node)):
        ok, why = True, 'rstrip of digits'
    obs.append(Ob('R-LOOPSTRIP', f.fq, 'the arity suffix of an RCG predicate is stripped completely', ok, why,
                  construct='loopstrip', line=f.node.lineno))
    return obs, {}


def r_openmode(prog, tier):
    obs = []
    for mod in ('transform', 'grammar', 'transitions', 'grammaroutput', 'transitionoutput', 'treeoutput'):
        for f in sorted(prog.modules[mod].funcs.values(), key=lambda x: x.fq):
            for n in walk_own(f.node):
                if not (isinstance(n, ast.Call) and unparse(n.func) in ('io.open', 'open')):
                    continue
                m = n.args[1] if len(n.args) >= 2 else next((k.value for k in n.keywords if k.arg == 'mode'), None)
                if m is None:
                    continue            # default 'r'
                vals = []
                if isinstance(m, ast.Constant):
                    vals = [m.value]
                elif isinstance(m, ast.Name):
                    for (_, v) in name_defs(f, m.id):
                        for c in ast.walk(v) if isinstance(v, ast.AST) else ():
                            if isinstance(c, ast.Constant) and isinstance(c.value, str):
                                vals.append(c.value)
                elif isinstance(m, ast.IfExp):
                    vals = [c.value for c in ast.walk(m) if isinstance(c, ast.Constant) and isinstance(c.value, str)]
                if not vals:
                    obs.append(Ob('R-OPENMODE', f.fq, 'output file `%s` is opened for writing' % unparse(n)[:50], None,
                                  'mode not recognised', construct='mode?:' + unparse(n)[:50], line=n.lineno))
                    continue
                if all('r' in v and 'w' not in v and 'a' not in v for v in vals):
                    continue
                bad = [v for v in vals if 'a' in v or '+' in v and 'w' not in v]
                obs.append(Ob('R-OPENMODE', f.fq, 'output file `%s` is opened for writing' % unparse(n)[:50], not bad,
                              'mode %s' % vals if not bad else 'mode %s: what an earlier run left in the file stays in front of '
                              'the new output' % bad, construct='mode:' + unparse(n)[:50], line=n.lineno, nontrivial=False))
    # a grammar writer writes each of its files whenever it runs: whether a file is (re)written depends on the options only,
    # never on the content (an empty lexicon still gets its - empty - file; otherwise a reader finds none, or an old one)
    for f in sorted(prog.modules['grammaroutput'].funcs.values(), key=lambda x: x.fq):
        cfg = f.cfg
        for m_ in cfg.eval_nodes():
            if m_.kind != 'with':
                continue
            for it in m_.ast.items:
                c = it.context_expr
                if not (isinstance(c, ast.Call) and unparse(c.func) in ('io.open', 'open') and c.args):
                    continue
                conds = [a for a in cfg.assumes_at(m_.id)]
                def _refuses(a):
                    # the other outcome of the condition ends in a raise: the writer refuses the input as a whole
                    for r_ in cfg.eval_nodes():
                        if r_.kind == 'stmt' and isinstance(r_.ast, ast.Raise):
                            if any(b.ast is a.ast and b.pol != a.pol for b in cfg.assumes_at(r_.id)):
                                return True
                    return False
                content = [a for a in conds if f.kwarg not in [x.id for x in ast.walk(a.ast) if isinstance(x, ast.Name)]
                           and any(isinstance(x, ast.Name) and x.id in f.params for x in ast.walk(a.ast)) and not _refuses(a)]
                if content:
                    obs.append(Ob('R-OPENMODE', f.fq, 'output file `%s` is written whenever the writer runs' % unparse(c)[:50], False,
                                  'the file is opened only under `%s`, a condition on the data: for the other case no file is '
                                  'written and a reader finds none, or what an earlier run left there' % unparse(content[0].ast)[:50],
                                  construct='mode-cond:' + unparse(c)[:50], line=m_.lineno))
    return obs, {}


def _adjacent_strings(src):
    """[(line, left text, right text)] for string literals that follow each other without an operator."""
    out = []
    toks = [t for t in tokenize.generate_tokens(io.StringIO(src).readline)
            if t.type not in (tokenize.NL, tokenize.COMMENT, tokenize.NEWLINE, tokenize.INDENT, tokenize.DEDENT)]
    for a, b in zip(toks, toks[1:]):
        if a.type == tokenize.STRING and b.type == tokenize.STRING:
            out.append((b.start[0], a.string, b.string))
    return out


def _table_spans(mod, names):
    spans = {}
    for st in mod.tree.body:
        if isinstance(st, ast.Assign) and isinstance(st.targets[0], ast.Name) and st.targets[0].id in names:
            spans[st.targets[0].id] = (st.lineno, st.end_lineno)
    return spans


def r_literals(prog, tier):
    obs = []
    specs = [('trees', ['QUOTES', 'COMMA', 'OPENING_BRACKETS', 'CLOSING_BRACKETS', 'PHRASE_BRACKETS'], 'inventory'),
             ('transformconst', ['HEAD_RULES_PTB', 'HEAD_RULES_NEGRA'], 'rules')]
    for (mname, names, kind) in specs:
        mod = prog.modules[mname]
        spans = _table_spans(mod, names)
        adj = _adjacent_strings(mod.src)
        for nm in names:
            if nm not in spans:
                obs.append(Ob('R-LITERALS', mname + '.' + nm, 'table %s found' % nm, None, 'not a module-level assignment',
                              construct='lit-missing:' + nm))
                continue
            lo, hi = spans[nm]
            hits = [(ln, a, b) for (ln, a, b) in adj if lo <= ln <= hi]
            bad = []
            for (ln, a, b) in hits:
                try:
                    av, bv = ast.literal_eval(a), ast.literal_eval(b)
                except Exception:
                    continue
                if kind == 'inventory':
                    bad.append('line %d: %s %s are one entry %r (a comma is missing)' % (ln, a, b, av + bv))
                elif not (av.endswith(' ') or bv.startswith(' ') or av == '' or bv == ''):
                    bad.append('line %d: %s %s fuse the categories %r and %r into one' %
                               (ln, a, b, av.split()[-1] if av.split() else '', bv.split()[0] if bv.split() else ''))
            obs.append(Ob('R-LITERALS', mname + '.' + nm, 'no two string literals of table %s run together' % nm, not bad,
                          '%d entries, %d line-wrapped literals checked' % (hi - lo + 1, len(hits)) if not bad else '; '.join(bad),
                          construct='lit:' + nm, line=lo, nontrivial=bool(hits)))
    # the inventories nest: quotes and brackets are paired punctuation, paired punctuation is punctuation
    try:
        vals = dict((nm, prog.const_value('trees', nm)) for nm in ('QUOTES', 'COMMA', 'BRACKETS', 'PAIRPUNCT', 'PUNCT'))
    except (Unrecognised, AnalysisError, Exception) as e:
        vals = None
        obs.append(Ob('R-LITERALS', 'trees.PUNCT', 'the punctuation inventories nest', None,
                      'inventories are not built from literals this rule can evaluate (%s)' % type(e).__name__,
                      construct='lit-nest'))
    if vals is not None:
        sets_ = dict((k, set(v.keys()) if isinstance(v, dict) else set(v)) for k, v in vals.items())
        for small, big in (('QUOTES', 'PAIRPUNCT'), ('BRACKETS', 'PAIRPUNCT'), ('PAIRPUNCT', 'PUNCT'), ('COMMA', 'PUNCT')):
            missing = sorted(sets_[small] - sets_[big])
            obs.append(Ob('R-LITERALS', 'trees.' + big, 'every token of trees.%s is in trees.%s' % (small, big), not missing,
                          '%d of %d' % (len(sets_[small]), len(sets_[small])) if not missing else
                          '%s are in %s but not in %s: punctuation_symetrify still treats them as paired punctuation while '
                          'punctuation_verylow / punctuation_root / punctuation_delete no longer see punctuation in them'
                          % (missing[:6], small, big), construct='lit-nest:%s:%s' % (small, big)))
    # parents are looked up by their lower-cased category: a key that is not lower-case can never be found
    for tn in ('HEAD_RULES_PTB', 'HEAD_RULES_NEGRA'):
        try:
            tv = prog.const_value('transformconst', tn)
        except (Unrecognised, AnalysisError, Exception):
            tv = None
        if isinstance(tv, dict):
            badk = sorted(str(k) for k in tv if not (isinstance(k, str) and k == k.lower()))
            obs.append(Ob('R-LITERALS', 'transformconst.' + tn, 'every key of %s is a lower-case category' % tn, not badk,
                          '%d keys' % len(tv) if not badk else 'key(s) %s are not lower-case: get_headpos_by_rule looks the parent up by '
                          '`parent_label.lower()` and never finds them - such constituents get the default head' % badk[:4],
                          construct='lit-lowerkeys:' + tn))
        else:
            obs.append(Ob('R-LITERALS', 'transformconst.' + tn, 'every key of %s is a lower-case category' % tn, None,
                          'the table is not built from literals this rule can evaluate', construct='lit-lowerkeys:' + tn))
    # the bracket names tell the brackets apart: `-NAME-` stands for NAME, and two different characters never share a name
    try:
        br = dict((nm, prog.const_value('trees', nm)) for nm in ('OPENING_BRACKETS', 'CLOSING_BRACKETS'))
    except (Unrecognised, AnalysisError, Exception):
        br = None
    if br is not None and all(isinstance(v, dict) for v in br.values()):
        bad = []
        seen = {}
        for tn in ('OPENING_BRACKETS', 'CLOSING_BRACKETS'):
            for k, v in br[tn].items():
                if isinstance(k, str) and len(k) > 2 and k.startswith('-') and k.endswith('-'):
                    if k[1:-1] != v:
                        bad.append('%s maps %r to %r' % (tn, k, v))
                elif isinstance(k, str) and len(k) == 1:
                    if v in seen and seen[v] != k:
                        bad.append('%r and %r are both written as %r: a reader of the output cannot tell them apart' % (seen[v], k, v))
                    seen.setdefault(v, k)
        obs.append(Ob('R-LITERALS', 'trees.BRACKETNAMES', 'every bracket character has a name of its own', not bad,
                      '%d characters, %d names' % (len(seen), len(set(seen))) if not bad else '; '.join(bad[:3]),
                      construct='lit-brnames'))
    else:
        obs.append(Ob('R-LITERALS', 'trees.BRACKETNAMES', 'every bracket character has a name of its own', None,
                      'the bracket tables are not literals this rule can evaluate', construct='lit-brnames'))
    return obs, {}


def r_recurse(prog, tier):
    obs = []
    for f in prog.all_funcs():
        if f.module.name == '__main__':
            continue
        for n in walk_own(f.node):
            if isinstance(n, ast.Call) and prog.callee(n, f) == (f.module.name, f.qual) and not f.cls:
                passed = len(n.args) + len([k for k in n.keywords if k.arg is not None])
                star = any(k.arg is None for k in n.keywords) or any(isinstance(a, ast.Starred) for a in n.args)
                total = len(f.params)
                ok = passed >= total or star
                missing = f.params[len(n.args):]
                missing = [p_ for p_ in missing if p_ not in [k.arg for k in n.keywords]]
                obs.append(Ob('R-RECURSE', f.fq, 'recursive call `%s` hands on every parameter' % unparse(n)[:50], ok,
                              'all %d parameters passed' % total if ok else 'parameter(s) %s fall back to their default below '
                              'the top level: what the caller asked for applies to the first node only' % missing,
                              construct='recurse:' + unparse(n)[:50], line=n.lineno, nontrivial=not ok))
    return obs, {}


def r_report(prog, tier):
    obs = []
    f = prog.func('treeanalysis', 'GapDegree.done')
    tables = set()
    g = prog.func('treeanalysis', 'GapDegree.__init__')
    for n in walk_own(g.node):
        if isinstance(n, ast.Assign) and isinstance(n.value, ast.Dict) and isinstance(n.targets[0], ast.Attribute):
            tables.add(unparse(n.targets[0]))
    for n in walk_own(f.node):
        if not isinstance(n, ast.For):
            continue
        it = unparse(n.iter)
        tb = [t for t in tables if t in it]
        if not tb:
            continue
        t = tb[0]
        good = it in ('sorted(%s.keys())' % t, 'sorted(%s)' % t, '%s' % t, '%s.keys()' % t, '%s.items()' % t,
                      'sorted(%s.items())' % t)
        bad = it.startswith('range(') and 'len(%s)' % t in it
        obs.append(Ob('R-REPORT', f.fq, 'one row is printed for every gap degree recorded in %s' % t,
                      True if good else (False if bad else None),
                      'iterates the recorded degrees (`%s`)' % it if good else
                      ('`%s` enumerates 0..k-1: a degree beyond the number of distinct degrees is never printed, the rows do '
                       'not add up to the total' % it if bad else 'iteration `%s` not recognised' % it),
                      construct='report:' + t, line=n.lineno))
        # the rows come from the table whose degrees are listed
        if good and isinstance(n.target, ast.Name):
            k = n.target.id
            used = set(unparse(x.value) for b in n.body for x in ast.walk(b) if isinstance(x, ast.Subscript)
                       and unparse(x.value) in tables and unparse(x.slice) == k)
            if used:
                other = sorted(used - {t})
                obs.append(Ob('R-REPORT', f.fq, 'the rows printed for the degrees of %s are read from that table' % t,
                              False if other else True,
                              'the loop lists the degrees recorded in `%s` but prints `%s[%s]`: a degree that occurs only in `%s` is '
                              'never printed (and one that occurs only in `%s` is a missing key)' % (t, other[0], k, other[0], t)
                              if other else 'same table', construct='report-same:' + t + ':' + ','.join(sorted(used)), line=n.lineno))
    return obs, {}


def r_dirmode(prog, tier):
    obs = []
    f = prog.func('transform', 'run')
    cfg = f.cfg
    loops = [n for n in cfg.eval_nodes() if n.kind == 'iter' and 'os.listdir(' in unparse(n.ast.iter)]
    comps = [n for n in walk_own(f.node) if isinstance(n, (ast.ListComp, ast.GeneratorExp))
             and any('os.listdir(' in unparse(g.iter) for g in n.generators)]
    if not loops and not comps:
        obs.append(Ob('R-DIRMODE', f.fq, 'directory mode lists the members of the source directory', None,
                      'no iteration over os.listdir found', construct='dirmode-shape'))
    for lp in loops:
        skips = [n for n in cfg.eval_nodes() if n.kind == 'stmt' and isinstance(n.ast, (ast.Continue, ast.Break))
                 and n.loops and n.loops[-1] == lp.id]
        apps = [n for n in cfg.eval_nodes() if n.kind == 'stmt' and '.append(' in unparse(n.ast) and lp.id in n.loops]
        cond = [n for n in apps if not cfg.in_every_iteration(lp.id, n.id)]
        bad = skips or cond
        obs.append(Ob('R-DIRMODE', f.fq, 'every member of the source directory is converted', not bad,
                      'unconditional append per member' if not bad else 'some members are skipped (`%s`): a second '
                      'conversion step over the first step\'s outputs converts nothing' %
                      unparse(cfg.nodes[[a.id for a in cfg.assumes_at((skips or cond)[0].id) if lp.id in a.loops][-1]].ast
                              if [a.id for a in cfg.assumes_at((skips or cond)[0].id) if lp.id in a.loops] else (skips or cond)[0].ast)[:50],
                      construct='dirmode', line=lp.lineno))
    for c in comps:
        bad = any(g.ifs for g in c.generators if 'os.listdir(' in unparse(g.iter))
        obs.append(Ob('R-DIRMODE', f.fq, 'every member of the source directory is converted', not bad,
                      'comprehension over all members' if not bad else 'members are filtered', construct='dirmode-comp',
                      line=c.lineno))
    return obs, {}


def root_name_(e):
    while isinstance(e, (ast.Attribute, ast.Subscript)):
        e = e.value
    return e.id if isinstance(e, ast.Name) else None


def r_symtarget(prog, tier):
    obs = []
    f = prog.func('transform', 'punctuation_symetrify')
    cfg = f.cfg
    evs = [e for e in link_events(prog, f) if e.kind == 'ATT']
    if not evs:
        raise Unrecognised('punctuation_symetrify attaches nothing', partial=obs)
    for e in evs:
        loops = cfg.nodes[e.node].loops
        tok = None
        if loops and cfg.nodes[loops[0]].kind == 'iter':
            t = cfg.nodes[loops[0]].ast.target
            tok = unparse(t.elts[-1]) if isinstance(t, ast.Tuple) else unparse(t)
        q = resolve(f, e.q, e.node)
        ok = None
        why = 'target `%s` not recognised' % q
        # the paired token may be a component of the loop variable (a field of a record, an element of a pair)
        toks = set([tok]) if tok else set()
        if tok:
            for nm_ in f.locals:
                dv_ = [v_ for (_, v_) in name_defs(f, nm_) if isinstance(v_, ast.AST)]
                if len(dv_) == 1 and isinstance(dv_[0], (ast.Attribute, ast.Subscript)) and root_name_(dv_[0]) == tok:
                    toks.add(nm_)
                    toks.add(unparse(dv_[0]))
        if tok and q in [t_ + '.parent' for t_ in toks]:
            ok, why = True, 'the partner goes into `%s`, the constituent of the paired token under consideration' % q
        elif tok and q and q.endswith('.parent') and root_name_(ast.parse(q, mode='eval').body) == tok:
            ok, why = None, 'target `%s` is reached through the loop variable in a way this rule does not follow' % q
        elif tok and q and q.endswith('.parent') and q != tok + '.parent':
            ok, why = False, 'the partner is attached to `%s`, not to the constituent that directly contains the paired ' \
                             'token `%s`' % (q, tok)
        obs.append(Ob('R-SYMTARGET', f.fq, 'a moved paired-punctuation token lands in the constituent of its partner (`%s`)'
                      % unparse(e.ast)[:50], ok, why, construct='symtarget:' + unparse(e.ast)[:50], line=cfg.nodes[e.node].lineno))
    # what is pulled into the phrase is a paired-punctuation token, nothing else
    from .tree_rules import punct_filtered
    for d_ in [e for e in link_events(prog, f) if e.kind == 'DET']:
        okp = punct_filtered(f, d_.x, d_.node, ('PAIRPUNCT',))
        wide = None if okp else punct_filtered(f, d_.x, d_.node, ('PUNCT',))
        obs.append(Ob('R-SYMTARGET', f.fq, 'only paired punctuation is pulled into a phrase (`%s`)' % unparse(d_.ast)[:50],
                      True if okp else (False if wide else None),
                      okp or ('the moved token is only known to be in trees.PUNCT (%s): a comma, period or dash next to the phrase '
                              'is pulled in as well' % wide if wide else 'no membership test of the moved token recognised'),
                      construct='symsel:' + unparse(d_.ast)[:50], line=cfg.nodes[d_.node].lineno))
    # the anchors: with the relc option the selection is the plain selection plus the tokens before a relative pronoun
    from ..core import split_assumes
    for e in evs[:1]:
        loops = cfg.nodes[e.node].loops
        if not (loops and cfg.nodes[loops[0]].kind == 'iter' and isinstance(cfg.nodes[loops[0]].ast.iter, ast.Name)):
            continue
        lst = cfg.nodes[loops[0]].ast.iter.id
        comps = [(nid, v) for (nid, v) in name_defs(f, lst) if isinstance(v, ast.ListComp) and len(v.generators) == 1]
        if len(comps) != 2 or any(len(v.generators[0].ifs) != 1 for (_, v) in comps):
            continue
        (n1, c1), (n2, c2) = comps

        def disj(c):
            t = c.generators[0].ifs[0]
            return [unparse(x) for x in (t.values if isinstance(t, ast.BoolOp) and isinstance(t.op, ast.Or) else [t])]
        d1, d2 = disj(c1), disj(c2)
        plain, wide = (d1, d2) if len(d1) <= len(d2) else (d2, d1)
        if len(plain) != 1 or unparse(c1.generators[0].target) != unparse(c2.generators[0].target):
            continue
        ok = True if plain[0] in wide else None
        why = 'both selections contain `%s`' % plain[0]
        if ok is None:
            inv = [w for w in wide if ' in trees.' in w and w.split(' in trees.')[0] == plain[0].split(' in trees.')[0]]
            if ' in trees.' in plain[0] and inv:
                ok = False
                why = 'without the option the anchors are the tokens with `%s`, with the option those with `%s`: the option ' \
                      'is documented to ADD the tokens before a relative pronoun, not to change the inventory' % (plain[0], inv[0])
            else:
                why = 'the two selections of `%s` could not be compared' % lst
        obs.append(Ob('R-SYMTARGET', f.fq, 'both selections of anchor tokens use the same inventory', ok, why,
                      construct='symanchor', line=cfg.nodes[n2].lineno))
    return obs, {}


def r_rootscan(prog, tier):
    obs = []
    f = prog.func('treeinput', 'tigerxml_build_tree')
    cfg = f.cfg
    # the table that receives the terminals
    table = None
    for n in cfg.eval_nodes():
        if n.kind == 'stmt' and isinstance(n.ast, ast.Assign) and isinstance(n.ast.targets[0], ast.Subscript) \
                and isinstance(n.ast.targets[0].value, ast.Name) and n.loops:
            lp = cfg.nodes[n.loops[-1]]
            if lp.kind == 'iter' and "findall('t')" in unparse(lp.ast.iter):
                table = n.ast.targets[0].value.id
    roots = [n for n in cfg.eval_nodes() if n.kind == 'stmt' and isinstance(n.ast, ast.Expr) and isinstance(n.ast.value, ast.Call)
             and isinstance(n.ast.value.func, ast.Attribute) and n.ast.value.func.attr == 'append'
             and isinstance(n.ast.value.func.value, ast.Name) and n.loops
             and any(fa[0] == 'none' and fa[1].endswith('.parent') and fa[2] is True for (fa, _) in facts_at(cfg, n.id))]
    comps = [x for x in walk_own(f.node) if isinstance(x, ast.ListComp) and any('.parent is None' in unparse(i) or '.parent == None' in unparse(i)
                                                                               for g in x.generators for i in g.ifs)]
    ok, why = None, 'root search not recognised'
    if table and roots:
        it = unparse(cfg.nodes[roots[0].loops[-1]].ast.iter)
        if it in ('%s.values()' % table, 'list(%s.values())' % table):
            ok, why = True, 'parentless nodes are searched in `%s`, which holds terminals and non-terminals' % it
        elif 'findall(' in it:
            ok, why = False, 'the root is searched only among `%s`: a sentence without non-terminals has no root and is dropped' % it
    elif table and comps:
        it = unparse(comps[0].generators[0].iter)
        if it == '%s.values()' % table:
            ok, why = True, 'parentless nodes are searched in `%s`' % it
        elif 'findall(' in it:
            ok, why = False, 'the root is searched only among `%s`' % it
    obs.append(Ob('R-ROOTSCAN', f.fq, 'the root of a TIGER-XML sentence is the parentless node among all its nodes', ok, why,
                  construct='rootscan', line=f.node.lineno))
    # edges are linked after every node of the sentence exists (an <nt> may refer to an <nt> that comes later in the file),
    # and only <edge> elements are edges (<secedge> elements sit next to them)
    links = [n for n in cfg.eval_nodes() if n.kind == 'stmt' and isinstance(n.ast, ast.Assign)
             and isinstance(n.ast.targets[0], ast.Attribute) and n.ast.targets[0].attr == 'parent' and n.loops]
    for ln in links[:1]:
        inner = cfg.nodes[ln.loops[-1]]
        it = unparse(inner.ast.iter) if inner.kind == 'iter' else ''
        sel_ok = "findall('edge')" in it or "iter('edge')" in it or "iterfind('edge')" in it
        plain_children = inner.kind == 'iter' and isinstance(inner.ast.iter, ast.Name) and len(ln.loops) >= 2 \
            and unparse(cfg.nodes[ln.loops[-2]].ast.target) == inner.ast.iter.id
        obs.append(Ob('R-ROOTSCAN', f.fq, 'only <edge> elements are followed as edges', True if sel_ok else (False if plain_children else None),
                      'edges selected by name (`%s`)' % it[:40] if sel_ok else
                      '`for ... in %s` follows every child element of the <nt>: a <secedge> is taken for a primary edge and the sentence '
                      'is rejected with "more than one incoming edge"' % it if plain_children else 'edge selection `%s` not recognised' % it[:40],
                      construct='edge-select', line=inner.lineno))
        # creation of the non-terminals and linking: not in one and the same loop over the <nt> elements
        outer = ln.loops[0]
        creates = [n for n in cfg.eval_nodes() if n.kind == 'stmt' and outer in n.loops and isinstance(n.ast, ast.Assign)
                   and isinstance(n.ast.value, ast.Call) and prog.callee(n.ast.value, f) == ('trees', 'Tree.__init__')]
        lookups = [n for n in cfg.eval_nodes() if outer in n.loops and inner.id in n.loops and n.kind == 'stmt'
                   and table and any(isinstance(x, ast.Subscript) and isinstance(x.value, ast.Name) and x.value.id == table
                                     and isinstance(x.ctx, ast.Load) for x in ast.walk(n.ast))]
        if creates and lookups and "findall('nt')" in unparse(cfg.nodes[outer].ast.iter):
            obs.append(Ob('R-ROOTSCAN', f.fq, 'edges are resolved when all nodes of the sentence exist', False,
                          'the loop over the <nt> elements creates a node (line %d) and resolves its edges in `%s` (line %d) in the same '
                          'pass: an edge to a non-terminal that is listed later is a KeyError' % (
                              creates[0].lineno, table, lookups[0].lineno), construct='edge-after-nodes', line=lookups[0].lineno))
        elif lookups:
            obs.append(Ob('R-ROOTSCAN', f.fq, 'edges are resolved when all nodes of the sentence exist', True,
                          'linking runs in a loop of its own, after the loops that create the nodes', construct='edge-after-nodes',
                          line=lookups[0].lineno))
    return obs, {}


# ------------------------------------------------------------------------------------ R-LEAFGUARD

LEAF_SHORTCUTS = {'treeanalysis.gap_degree_node': 'a node without children has no gap',
                  'treeanalysis.gap_type': 'a token has no gap type'}


def _children_count_bound(prog, f, p, at):
    """What do the facts at cfg node `at` say about the number of children of node parameter `p`?
    ('le', k): at most k children;  None: nothing recognised."""
    from ..core import facts_at
    from ..linear import linear
    cfg = f.cfg
    lists = set(['trees.children(%s)' % p, '%s.children' % p, 'children(%s)' % p])
    for nm in f.locals:
        v = _unique_assign(f, nm)
        if isinstance(v, ast.AST) and unparse(v) in lists:
            lists.add(nm)
    best = None
    from ..core import no_kill_between
    from ..events import link_events
    changes = [e.node for e in link_events(prog, f) if e.kind in ('ATT', 'DET', 'CLR', 'OTHER', 'PERM')
               and unparse(getattr(e, 'q', None) or getattr(e, 'p', None) or ast.Constant(0)) == p]
    for (fa, nid_) in facts_at(cfg, at):
        # a fact about the child list is stale once the list has been changed on the way
        if any(c_ in cfg.between(nid_, at) or c_ == nid_ for c_ in changes) or not no_kill_between(cfg, nid_, at, [p + '.children']):
            continue
        k = None
        if fa[0] == 'opaque' and fa[2] is False and fa[1] in ('trees.has_children(%s)' % p, 'has_children(%s)' % p):
            k = 0
        elif fa[0] == 'truthy' and fa[2] is False and fa[1] in lists:
            k = 0
        elif fa[0] == 'cmp':
            for L in lists:
                LL = 'len(%s)' % L
                if fa[1] == LL and fa[3].lstrip('-').isdigit():
                    c = int(fa[3])
                    if fa[2] == '==':
                        k = c if k is None else min(k, c)
                        if c == 1:
                            return ('eq', 1)
                    elif fa[2] == '<=':
                        k = c
                    elif fa[2] == '<':
                        k = c - 1
        if k is not None:
            best = k if best is None else min(best, k)
    return None if best is None else ('le', best)


def r_leafguard(prog, tier):
    """A recursive tree walker may return before recursing only for nodes without children; the two leaf shortcuts of
    the gap functions likewise.  A guard that also covers unary nodes (at most one child / exactly one child) cuts the
    walk short above every node that has a single child."""
    obs = []
    n = 0
    for modname in ('trees', 'transform', 'treeanalysis', 'transitions', 'grammar'):
        for f in sorted(prog.modules[modname].funcs.values(), key=lambda x: x.fq):
            if not f.params or f.cls:
                continue
            p = f.params[0]
            cfg = f.cfg
            rec = [m for m in cfg.eval_nodes() for r_ in cfg.exprs(m.id) for x in ast.walk(r_)
                   if isinstance(x, ast.Call) and prog.callee(x, f) == (f.module.name, f.qual)]
            shortcut = f.fq in LEAF_SHORTCUTS
            if not rec and not shortcut:
                continue
            rec_ids = frozenset(m.id for m in rec)
            for r in [m for m in cfg.eval_nodes() if m.kind == 'stmt' and isinstance(m.ast, ast.Return)]:
                # a return that can be reached without any recursive call, while other paths do recurse
                if rec and not (r.id in cfg.reach(cfg.entry, avoid=rec_ids)):
                    continue
                if rec and any(r.id in cfg.reach(m) for m in rec_ids):
                    continue        # also the way out after recursing: not an early return
                if shortcut and not (isinstance(r.ast.value, ast.Constant)):
                    continue
                kids = set(nm_ for nm_ in f.locals for (_, dv_) in name_defs(f, nm_) if isinstance(dv_, ast.AST) and (
                    unparse(dv_) == '%s.children' % p or (isinstance(dv_, ast.Call) and unparse(dv_.func).split('.')[-1] == 'children'
                                                           and dv_.args and unparse(dv_.args[0]) == p)))

                def _child_of_p(a_):
                    return any((isinstance(y_, ast.Attribute) and y_.attr == 'children' and unparse(y_.value) == p) or
                               (isinstance(y_, ast.Name) and y_.id in kids) or
                               (isinstance(y_, ast.Call) and unparse(y_.func).split('.')[-1] == 'children' and y_.args
                                and unparse(y_.args[0]) == p) for y_ in ast.walk(a_))
                if r.ast.value is not None and any(isinstance(c_, ast.Call) and prog.callee(c_, f) is not None
                                                   and any(_child_of_p(a_) for a_ in c_.args) for c_ in ast.walk(r.ast.value)):
                    continue        # the children are handed on to another function of the package: the walk goes on there
                b = _children_count_bound(prog, f, p, r.id)
                if b is None:
                    continue
                n += 1
                if b == ('le', 0):
                    ok, why = True, 'only for a node without children'
                elif b == ('eq', 1) or (b[0] == 'le' and b[1] >= 1):
                    ok = False
                    why = 'the early return also covers nodes with %s: %s' % (
                        'exactly one child' if b == ('eq', 1) else 'up to %d child(ren)' % b[1],
                        'the walk stops above a unary node and never sees what is below it' if rec else
                        'a unary node above a discontinuous child is treated like a token')
                else:
                    ok, why = None, 'guard on the number of children not recognised'
                obs.append(Ob('R-LEAFGUARD', f.fq, 'early `%s` happens only for a node without children' % unparse(r.ast)[:50],
                              ok, why, construct='leaf:' + unparse(r.ast)[:50], line=r.lineno))
            # the recursion itself is not made to depend on the number of TOKENS below the node: a node above a single token
            # may still be a unary node (or a chain of them)
            from ..core import facts_at as _fa
            for m in rec:
                for r_ in cfg.exprs(m.id):
                    for x in ast.walk(r_):
                        if not (isinstance(x, ast.Call) and prog.callee(x, f) == (f.module.name, f.qual) and x.args):
                            continue
                        X = unparse(x.args[0])
                        forms = ('len(trees.terminals(%s))' % X, 'len(terminals(%s))' % X, 'len(trees.unordered_terminals(%s))' % X)
                        for (fa, _) in _fa(cfg, m.id):
                            if fa[0] != 'cmp':
                                continue
                            excl = None
                            if fa[1] in forms and fa[3].isdigit():
                                c = int(fa[3])
                                excl = (fa[2] == '!=' and c == 1) or (fa[2] == '>' and c == 1) or (fa[2] == '>=' and c == 2)
                            elif fa[3] in forms and fa[1].isdigit():
                                c = int(fa[1])
                                excl = (fa[2] == '!=' and c == 1) or (fa[2] == '<' and c == 1) or (fa[2] == '<=' and c == 2)
                            if excl:
                                n += 1
                                obs.append(Ob('R-LEAFGUARD', f.fq, 'the walk descends into every node that has children: `%s`'
                                              % unparse(x)[:50], False,
                                              'the recursive call is made only when more than one token lies below `%s`: a unary '
                                              'node (or chain) above a single token is treated like the token itself' % X,
                                              construct='leaf-tokens:' + unparse(x)[:50], line=m.lineno))
    # uncollapsing: the label of a token can hold a collapsed chain as well (NP+NN), so the `+` loop is passed on every way
    # out - an early return for nodes without children is NOT harmless here
    try:
        f = prog.func('transform', '_uncollapse_unary_chains')
    except Unrecognised:
        f = None
    if f is not None:
        cfg = f.cfg
        plus = [t.id for t in cfg.nodes if t.kind in ('test', 'assume') and "'+'" in unparse(t.ast).replace('"', "'")
                and 'label' in unparse(t.ast)]
        plus += [m.id for m in cfg.eval_nodes() if m.kind == 'stmt' and isinstance(m.ast, ast.Assign) and "'+'" in
                 unparse(m.ast.value).replace('"', "'") and 'label' in unparse(m.ast.value)]
        if plus:
            exits = [p_ for p_ in cfg.pred[cfg.exit] if cfg.nodes[p_].kind == 'stmt' and isinstance(cfg.nodes[p_].ast, ast.Return)]
            reach = cfg.reach(cfg.entry, avoid=frozenset(plus))
            early = [p_ for p_ in exits if p_ in reach]
            if early:
                nd = cfg.nodes[early[0]]
                conds = [('' if a.pol else 'not ') + unparse(a.ast)[:40] for a in cfg.assumes_at(nd.id)]
                n += 1
                obs.append(Ob('R-LEAFGUARD', f.fq, 'every node, tokens included, has its label examined for a collapsed chain', False,
                              '`%s` (line %d, under %s) comes before the label is searched for `+`: a chain that was collapsed into '
                              'a token (NP+NN) is never restored' % (unparse(nd.ast), nd.lineno, conds),
                              construct='leaf-uncollapse', line=nd.lineno))
            else:
                obs.append(Ob('R-LEAFGUARD', f.fq, 'every node, tokens included, has its label examined for a collapsed chain', True,
                              'no return comes before the search for `+`', construct='leaf-uncollapse', line=f.node.lineno))
    # a chain A+B+C comes apart label by label: the part that stays on the node the loop looks at again must be the part
    # that can still hold a `+` (first `+` and the rest to the right, or last `+` and the rest to the left)
    if f is not None:
        cfg = f.cfg
        for lp in [t for t in cfg.nodes if t.kind == 'test' and isinstance(t.owner, ast.While) and "'+'" in unparse(t.ast).replace('"', "'")]:
            again = None
            for x in ast.walk(lp.ast):
                if isinstance(x, ast.Subscript) and unparse(x).endswith(".data['label']"):
                    again = unparse(x)
            if again is None:
                continue
            for m in cfg.eval_nodes():
                if not (m.kind == 'stmt' and isinstance(m.ast, ast.Assign) and unparse(m.ast.targets[0]) == again and lp.id in m.loops
                        and isinstance(m.ast.value, ast.Subscript) and isinstance(m.ast.value.slice, ast.Slice)):
                    continue
                sl = m.ast.value.slice
                side = 'right' if (sl.lower is not None and sl.upper is None) else ('left' if (sl.lower is None and sl.upper is not None) else None)
                pos = sl.lower if side == 'right' else sl.upper
                names = [y.id for y in ast.walk(pos) if isinstance(y, ast.Name)] if pos is not None else []
                how = None
                for nm_ in names:
                    for (_, dv_) in name_defs(f, nm_):
                        if isinstance(dv_, ast.Call) and isinstance(dv_.func, ast.Attribute) and dv_.func.attr in ('find', 'index', 'rfind', 'rindex') \
                                and dv_.args and isinstance(dv_.args[0], ast.Constant) and dv_.args[0].value == '+':
                            how = 'last' if dv_.func.attr.startswith('r') else 'first'
                if side is None or how is None:
                    continue
                good = (how, side) in (('first', 'right'), ('last', 'left'))
                n += 1
                obs.append(Ob('R-LEAFGUARD', f.fq, 'a collapsed chain of any length is taken apart completely', good,
                              'cut at the %s `+`, the loop goes on with the %s part' % (how, side) if good else
                              'the label is cut at the %s `+` and the loop goes on with the %s part (`%s`), which holds no `+` any more: '
                              'of A+B+C the new node keeps `A+B` for good - only the lowest label of a longer chain is restored'
                              % (how, side, unparse(m.ast)[:50]), construct='uncollapse-side', line=m.lineno))
    # the public wrappers hand EVERY tree to their worker: a return that can be reached around the call leaves such trees as
    # they came (a one-token sentence is a chain like any other)
    for (pub_, worker_) in (('collapse_unary_chains', '_collapse_unary_chains'), ('uncollapse_unary_chains', '_uncollapse_unary_chains'),
                            ('binarize', '_binarize_tree')):
        g_ = prog.func('transform', pub_, required=False)
        try:
            w_ = prog.func('transform', worker_)
        except Unrecognised:
            w_ = None
        if g_ is None or w_ is None:
            continue
        gc_ = g_.cfg
        calls_ = frozenset(m_.id for m_ in gc_.eval_nodes() for r_ in gc_.exprs(m_.id) for x_ in ast.walk(r_)
                           if isinstance(x_, ast.Call) and prog.callee(x_, g_) == ('transform', w_.qual))
        if not calls_:
            continue
        rets_ = [p_ for p_ in gc_.pred[gc_.exit] if gc_.nodes[p_].kind == 'stmt' and isinstance(gc_.nodes[p_].ast, ast.Return)]
        around = [p_ for p_ in rets_ if p_ in gc_.reach(gc_.entry, avoid=calls_)]
        # only a return of its own, inside an `if`: the way "around" a call that sits in a loop (`agenda = [tree]; while
        # agenda: ...`) is the loop that does not run even once, which cannot happen there
        around = [p_ for p_ in around if gc_.nodes[p_].ast not in g_.node.body and not any(
            isinstance(getattr(a_, 'owner', None), (ast.While, ast.For)) for a_ in gc_.assumes_at(p_))]
        n += 1
        if around and not prog.opaque_calls(g_, [g_.params[0]], before=around[0]):
            nd_ = gc_.nodes[around[0]]
            obs.append(Ob('R-LEAFGUARD', g_.fq, 'every tree is handed to %s' % w_.qual, False,
                          '`%s` (line %d, under %s) is reached without %s ever being called: such a tree comes back as it was'
                          % (unparse(nd_.ast), nd_.lineno, [('' if a_.pol else 'not ') + unparse(a_.ast)[:40] for a_ in gc_.assumes_at(nd_.id)],
                             w_.qual), construct='wrapper-always:' + pub_, line=nd_.lineno))
        else:
            obs.append(Ob('R-LEAFGUARD', g_.fq, 'every tree is handed to %s' % w_.qual, True if not around else None,
                          'no return comes before the call' if not around else 'a helper sees the tree first',
                          construct='wrapper-always:' + pub_, line=g_.node.lineno, nontrivial=False))
    # the in-order oracle closes every node exactly once: PJ-<label> and REDUCE are emitted outside every loop
    try:
        f = prog.func('transitions', '_inorder')
    except Unrecognised:
        f = None
    if f is not None:
        cfg = f.cfg
        for m in cfg.eval_nodes():
            if m.kind == 'stmt' and isinstance(m.ast, ast.Expr) and isinstance(m.ast.value, ast.Call) \
                    and unparse(m.ast.value.func).endswith('.append') and m.ast.value.args:
                txt = unparse(m.ast.value.args[0])
                for tag in ('REDUCE', 'PJ-'):
                    if tag in txt:
                        n += 1
                        once = not m.loops and cfg.postdominates(m.id, cfg.entry)
                        # positive evidence only in the recursive form (one call per node) with the emission in a loop over
                        # the children; an agenda loop visits many nodes and is not modelled
                        recursive = any(isinstance(c_, ast.Call) and unparse(c_.func).split('.')[-1] == f.node.name
                                        for c_ in walk_own(f.node))
                        per_child = bool(m.loops) and recursive and all(cfg.nodes[l_].kind == 'iter' for l_ in m.loops)
                        obs.append(Ob('R-LEAFGUARD', f.fq, 'the in-order oracle emits %s once per node' % tag.rstrip('-'),
                                      True if once else (False if per_child else None),
                                      'outside every loop, on every path' if once else
                                      '`%s` sits inside `%s`: it is emitted once per further child - never for a unary node, too often '
                                      'for a node with three or more children' % (unparse(m.ast)[:50],
                                                                                  unparse(cfg.nodes[m.loops[-1]].ast).split('\n')[0][:40])
                                      if m.loops else 'conditional', construct='inorder-once:' + tag, line=m.lineno))
    # collapsing: the data of the only child are taken over only when that child is a token (no children at all)
    try:
        f = prog.func('transform', '_collapse_unary_chains')
    except Unrecognised:
        f = None
    if f is not None:
        cfg = f.cfg
        for m in cfg.eval_nodes():
            if m.kind == 'stmt' and isinstance(m.ast, ast.Assign) and unparse(m.ast.targets[0]) == "%s.data['num']" % f.params[0]:
                from ..linear import norm_compare
                bound = None
                P_ = f.params[0]
                own = ('trees.children(%s)' % P_, 'children(%s)' % P_, '%s.children' % P_)
                gnames = set()
                for nm_ in f.locals:
                    dv_ = [v_ for (_, v_) in name_defs(f, nm_)]
                    if dv_ and all(isinstance(v_, ast.Call) and unparse(v_.func).split('.')[-1] == 'children' and unparse(v_) not in own
                                   for v_ in dv_):
                        gnames.add(nm_)

                def _about_grandchildren(nf_):
                    at_ = nf_[1][0][0]
                    inner_ = at_[4:-1]
                    return inner_ in gnames or ('children(' in inner_ and inner_ not in own)
                for a in cfg.assumes_at(m.id):
                    if isinstance(getattr(a, 'owner', None), ast.While):
                        continue            # the loop condition is about the node itself
                    nf = norm_compare(f, a.ast, a.pol) if isinstance(a.ast, ast.Compare) else None
                    if nf and len(nf[1]) == 1 and nf[1][0][0].startswith('len(') and not _about_grandchildren(nf):
                        continue
                    # sum(coef * atom) <= c over one atom len(<grandchildren>)
                    if nf and nf[0] == 'le' and len(nf[1]) == 1 and nf[1][0][1] == 1 and nf[1][0][0].startswith('len('):
                        bound = nf[2] if bound is None else min(bound, nf[2])
                    if nf and nf[0] == 'eq' and len(nf[1]) == 1 and nf[1][0][0].startswith('len('):
                        bound = nf[2] if bound is None else min(bound, nf[2])
                if bound is not None:
                    n += 1
                    obs.append(Ob('R-LEAFGUARD', f.fq, 'the token data are taken over only from a child without children', bound <= 0,
                                  'under `len(...) == 0`' if bound <= 0 else
                                  'the block runs for an only child with up to %d child(ren) of its own: in a chain of three nodes '
                                  'the num / word of an inner node are copied (KeyError on trees whose inner nodes have no number)' % bound,
                                  construct='collapse-token', line=m.lineno))
    # the top-down oracle walks every node: a sentence of one token can still have unary nodes above the token
    f = prog.func('transitions', 'topdown')
    cfg = f.cfg
    walks = [t.id for t in cfg.eval_nodes() if t.kind == 'iter' and 'preorder(%s)' % f.params[0] in unparse(t.ast.iter)]
    if walks:
        exits = [p_ for p_ in cfg.pred[cfg.exit] if cfg.nodes[p_].kind == 'stmt' and isinstance(cfg.nodes[p_].ast, ast.Return)]
        reach = cfg.reach(cfg.entry, avoid=frozenset(walks))
        early = [p_ for p_ in exits if p_ in reach]
        verdict, why = True, 'every return lies behind the walk over all nodes'
        if early:
            nd = cfg.nodes[early[0]]
            conds = [('' if a.pol else 'not ') + unparse(a.ast)[:40] for a in cfg.assumes_at(nd.id)]
            tokenish = any('terminals' in c_ or 'len(' in c_ for c_ in conds)
            verdict = False if (tokenish and not prog.opaque_calls(f, [f.params[0]])) else None
            why = '`%s` (line %d, under %s) leaves before the walk over the nodes: the unary nodes above a single token ' \
                  '(at least the root) get no transition and the replay ends with the bare token' % (
                      unparse(nd.ast)[:40], nd.lineno, conds)
        n += 1
        obs.append(Ob('R-LEAFGUARD', f.fq, 'the top-down oracle visits every node of every sentence', verdict, why,
                      construct='leaf-topdown', line=f.node.lineno))
    return obs, {'guarded_early_returns': n}


# ------------------------------------------------------------------------------------ R-NODELINE

def r_nodeline(prog, tier):
    """The export reader takes a line for a constituent exactly when its first field is `#` followed by three digits
    (four characters in all): tokens like `#1` or `#12345` are words."""
    obs = []
    f = prog.func('treeinput', 'export')
    cfg = f.cfg
    found = 0
    for n in cfg.nodes:
        if n.kind != 'test':
            continue
        atoms = [norm_test(e, p) for (e, p) in split_assumes(n.ast, True)]
        hashes = [a for a in atoms if a[0] == 'cmp' and a[2] == '==' and a[3].lstrip('u').strip('\'"') == '#' and a[1].endswith('[0]')]
        digits = [a for a in atoms if a[0] in ('opaque', 'truthy') and a[1].endswith('.isdigit()') and a[2] is True]
        if not hashes or not digits:
            continue
        found += 1
        w = hashes[0][1][:-3]
        lens = [a for a in atoms if a[0] == 'cmp' and 'len(%s)' % w in (a[1], a[3])]
        ok, why = None, 'length condition of the node-line test not recognised'
        if not lens:
            ok, why = False, 'the test has no length condition: any word `#` + digits (e.g. `#1`, `#77777`) is taken for a node number'
        elif len(lens) == 1:
            a = lens[0]
            if a[2] == '==' and '4' in (a[1], a[3]):
                ok, why = True, '`len(%s) == 4`, `#`, three digits' % w
            elif a[2] in ('<', '<=', '!='):
                ok, why = False, 'the length condition `%s %s %s` admits other lengths than 4: words like `#1` are taken for node ' \
                                 'numbers' % (a[1], a[2], a[3])
            elif a[2] == '==':
                ok, why = False, 'the length must be 4 (`#` and three digits), the test says `%s == %s`' % (a[1], a[3])
        obs.append(Ob('R-NODELINE', f.fq, 'a line is a constituent line iff its word field is `#NNN`', ok, why,
                      construct='nodeline:' + unparse(n.ast)[:60], line=n.lineno))
    if not found:
        raise Unrecognised('export reader: node-line test (`#` + digits) not found', partial=obs)
    # export 3 or 4: decided by what stands in the fifth column (a parent number = export 3, no lemma column), not by the
    # number of columns - lines may carry secondary edges and comments after the parent number
    g = prog.func('treeinput', 'export_parse_line')
    gc = g.cfg
    ins = [m for m in gc.eval_nodes() if m.kind == 'stmt' and isinstance(m.ast, (ast.Assign, ast.Expr))
           and 'DEFAULT_LEMMA' in unparse(m.ast) and ('[1:1]' in unparse(m.ast) or '.insert(1' in unparse(m.ast))]
    for m in ins:
        conds = [a for a in gc.assumes_at(m.id)]
        txt = ' and '.join(unparse(a.ast) for a in conds)
        by_digit = any('.isdigit()' in unparse(a.ast) and '[4]' in unparse(a.ast) for a in conds)
        by_len = any('len(' in unparse(a.ast) for a in conds)
        obs.append(Ob('R-NODELINE', g.fq, 'an export-3 line is recognised by the parent number in its fifth column', 
                      True if (by_digit and not by_len) else (False if (by_len and not by_digit) else None),
                      'dummy lemma inserted under `%s`' % txt[:60] if by_digit and not by_len else
                      'the lemma column is inserted under `%s`: a line with secondary edges or a comment after the parent number has '
                      'more columns and is taken for export 4' % txt[:60] if by_len and not by_digit else 'test `%s` not recognised' % txt[:60],
                      construct='export-v3', line=m.lineno))
    # replace_chars maps every bracket of the table in every field: the loop over the table is never left early
    h = prog.func('trees', 'replace_chars')
    hc = h.cfg
    for lp in [t for t in hc.eval_nodes() if t.kind == 'iter' and len(h.params) > 1 and h.params[1] in unparse(t.ast.iter)]:
        leaves = [b for b in hc.eval_nodes() if b.kind == 'stmt' and isinstance(b.ast, (ast.Break, ast.Return)) and lp.id in b.loops
                  and (isinstance(b.ast, ast.Return) or b.loops[-1] == lp.id)]
        obs.append(Ob('R-NODELINE', h.fq, 'replace_chars applies every entry of the table to a field', not leaves,
                      'the loop over the table runs to its end' if not leaves else
                      '`%s` (line %d) leaves the loop over the table after the first bracket that occurs: a token like `(1]` or '
                      '`f(x)=[y]` keeps its other brackets' % (unparse(leaves[0].ast), leaves[0].lineno),
                      construct='replace-all', line=lp.lineno))
    return obs, {}
