"""R-HEADS (head rules and markers) and R-FLAGS (producer / consumer protocol of per-node flags)."""
import ast

from ..core import (AnalysisError, Unrecognised, path, unparse, norm_test, facts_at, walk_own, split_assumes,
                    const_str, root_name)
from ..events import name_defs, single_def, fresh_paths
from ..report import Ob


def r_heads(prog, tier):
    obs = []
    f = prog.func('transformconst', 'get_headpos_by_rule')
    # the rule interpreter may have been moved into a helper: follow the one call that passes the arguments on
    hops = 0
    while hops < 3 and not any(isinstance(n, ast.For) for n in walk_own(f.node)):
        nxt = None
        for n in walk_own(f.node):
            if isinstance(n, ast.Call):
                c = prog.callee(n, f)
                if c and c[0] == 'transformconst' and len(n.args) >= 3 \
                        and [unparse(a) for a in n.args[:3]] == f.params[:3]:
                    nxt = prog.func(c[0], c[1])
        if nxt is None:
            break
        f = nxt
        hops += 1
    cfg = f.cfg
    if len(f.params) < 3:
        raise Unrecognised('get_headpos_by_rule: parameters (parent, children, rules) not found', partial=obs)
    plab, clab, rules = f.params[0], f.params[1], f.params[2]
    # ---- representation of the tables: Dict[str, List[Tuple[Dir, space separated list]]]
    for tbl in ('HEAD_RULES_PTB', 'HEAD_RULES_NEGRA'):
        v = prog.const_value('transformconst', tbl)
        ok = isinstance(v, dict) and all(isinstance(k, str) and k == k.lower() and isinstance(l, list) and l and all(
            isinstance(t, tuple) and len(t) == 2 and t[0] in ('left-to-right', 'right-to-left') and isinstance(t[1], str)
            for t in l) for k, l in v.items())
        obs.append(Ob('R-HEADS/TABLE', 'transformconst.' + tbl, 'rule table is category -> [(direction, space separated '
                      'category list)] with lower-case keys', ok, '%d categories' % len(v) if ok else 'shape changed',
                      construct='tbl:' + tbl, nontrivial=False))
    # ---- the priority string is only tested for emptiness or split
    hloops = [n for n in cfg.eval_nodes() if n.kind == 'iter' and unparse(n.ast.iter).startswith(rules + '[')]
    if len(hloops) != 1:
        raise Unrecognised('get_headpos_by_rule: loop over the rules of the parent category not found', partial=obs)
    H = hloops[0]
    hv = unparse(H.ast.target)
    ssl = '%s[1]' % hv
    parents = {}
    for n in ast.walk(f.node):
        for c in ast.iter_child_nodes(n):
            parents[c] = n
    nuse = 0
    for n in walk_own(f.node):
        if isinstance(n, ast.Subscript) and unparse(n) == ssl:
            nuse += 1
            p = parents.get(n)
            ok = None
            how = 'used as `%s`' % unparse(p)[:50]
            if isinstance(p, ast.Call) and isinstance(p.func, ast.Name) and p.func.id == 'len':
                ok = True
                how = 'length test'
            elif isinstance(p, ast.Attribute) and p.attr == 'split' and isinstance(parents.get(p), ast.Call):
                ok = True
                how = '.split() into categories'
            elif isinstance(p, (ast.For, ast.comprehension)) and p.iter is n:
                ok = False
                how = 'iterated directly: the loop runs over the *characters* of the list, no category ever matches'
            elif isinstance(p, ast.Compare) and isinstance(p.ops[0], (ast.In, ast.NotIn)) and n in p.comparators:
                ok = False
                how = 'substring test on the string instead of membership in the list of categories'
            obs.append(Ob('R-HEADS/SSL', f.fq, 'the category list of a rule (`%s`) is only measured or split' % ssl, ok, how,
                          construct='ssl:' + unparse(p)[:50], line=n.lineno))
    if nuse < 2:
        raise Unrecognised('get_headpos_by_rule: uses of the category list not found', partial=obs)
    # ---- every loop can reach its next iteration; sibling branches have the same exits
    for n in cfg.eval_nodes():
        if n.kind != 'iter':
            continue
        be = cfg.body_entry(n.id)
        again = n.id in cfg.reach(be) or be == n.id or n.id in cfg.succ[be]
        obs.append(Ob('R-HEADS/LOOP', f.fq, 'loop `for %s in %s` can run more than once' % (unparse(n.ast.target), unparse(n.ast.iter)[:40]),
                      again, 'a path leads from its body back to the loop header' if again else
                      'every path through the body leaves the function: only the first element is ever tried',
                      construct='loop:' + unparse(n.ast.target), line=n.lineno))
    dirs = {}
    for n in cfg.nodes:
        if n.kind == 'assume' and n.pol:
            fa = norm_test(n.ast, True)
            if fa[0] == 'cmp' and fa[1] == '%s[0]' % hv and fa[2] == '==' and const_str(ast.parse(fa[3], mode='eval').body):
                dirs.setdefault((const_str(ast.parse(fa[3], mode='eval').body), tuple(n.loops)), []).append(n)
    # inside the category loop: both directions must have the same return structure
    lab_loops = [n for n in cfg.eval_nodes() if n.kind == 'iter' and H.id in n.loops and '.split(' in unparse(n.ast.iter)] or \
        [n for n in cfg.eval_nodes() if n.kind == 'iter' and H.id in n.loops and ssl in unparse(n.ast.iter)]
    if lab_loops:
        LL = lab_loops[0]
        shape = {}
        for (d, loops), nodes in dirs.items():
            if LL.id not in loops:
                continue
            a = nodes[0]
            rets = [r for r in cfg.eval_nodes() if r.kind == 'stmt' and isinstance(r.ast, ast.Return)
                    and cfg.dominates(a.id, r.id)]
            direct = [r for r in rets if r.loops == a.loops]
            nested = [r for r in rets if len(r.loops) > len(a.loops)]
            shape[d] = (len(direct), len(nested))
        ok = len(shape) == 2 and len(set(shape.values())) == 1 and list(shape.values())[0][0] == 0
        if not ok:
            ok = False if (len(shape) == 2 and len(set(shape.values())) == 2) else None
        obs.append(Ob('R-HEADS/SIBLING', f.fq, 'left-to-right and right-to-left differ only in the scanning order', ok,
                      'both: a conditional return inside the scan, none after it' if ok else
                      '(returns directly in the branch, returns inside the scan) per direction: %s - one direction gives '
                      'up after the first category' % shape, construct='sibling-dirs', line=LL.lineno))
    # ---- returned positions are positions of children
    for r in [n for n in cfg.eval_nodes() if n.kind == 'stmt' and isinstance(n.ast, ast.Return)]:
        v = r.ast.value
        s = unparse(v) if v is not None else 'None'
        ok = None
        why = 'not recognised as a child position'
        if s == 'len(%s)' % clab or s == 'len(%s) + 1' % clab:
            ok, why = False, 'one past the last child: no child gets the head mark'
        elif isinstance(v, ast.UnaryOp) and isinstance(v.op, ast.USub) and isinstance(v.operand, ast.Constant):
            ok, why = False, 'a negative position: the marker compares positions with `==`, so no child gets the head mark'
        elif s == '0':
            ok, why = True, 'first child'
        elif s == 'len(%s) - 1' % clab:
            ok, why = True, 'last child'
        elif len(f.params) > 3 and s == f.params[3]:
            ok, why = True, 'the caller\'s default'
        elif isinstance(v, ast.Name):
            d = [x for x in name_defs(f, v.id)]
            if d and all(isinstance(x[1], tuple) and x[1][0] == 'iter' and clab in unparse(x[1][1]) for x in d):
                ok, why = True, 'index bound by the scan over the children'
        obs.append(Ob('R-HEADS/RANGE', f.fq, 'returned head position `%s` is the index of a child' % s, ok, why,
                      construct='ret:' + s, line=r.lineno))
    # direction compared with the two literals, else raise
    lits = sorted(set(k[0] for k in dirs))
    rz = [n for n in cfg.eval_nodes() if n.kind == 'stmt' and isinstance(n.ast, ast.Raise)]
    obs.append(Ob('R-HEADS/DIR', f.fq, 'a direction other than the two documented ones is refused', True if (lits == ['left-to-right',
                  'right-to-left'] and len(rz) >= 1) else None, 'compared with %s, else raise' % lits, construct='dirs', nontrivial=False,
                  line=f.node.lineno))
    # the candidate categories of a rule are tried in their order: a position returned inside the loop over the candidates
    # is returned because the child has THE candidate the loop is at, not just any of them
    cfg_ = f.cfg
    for lp_ in cfg_.eval_nodes():
        if not (lp_.kind == 'iter' and isinstance(lp_.ast.iter, ast.Call) and isinstance(lp_.ast.iter.func, ast.Attribute)
                and lp_.ast.iter.func.attr == 'split' and isinstance(lp_.ast.target, ast.Name)):
            continue
        cand = lp_.ast.target.id
        whole = unparse(lp_.ast.iter)
        for r_ in cfg_.eval_nodes():
            if r_.kind == 'stmt' and isinstance(r_.ast, ast.Return) and lp_.id in r_.loops and len(r_.loops) > 1:
                conds = [a_ for a_ in cfg_.assumes_at(r_.id) if lp_.id in a_.loops and set(a_.loops) > {lp_.id}]
                names_ = set(y_.id for a_ in conds for y_ in ast.walk(a_.ast) if isinstance(y_, ast.Name))
                texts_ = ' '.join(unparse(a_.ast) for a_ in conds)
                if conds and cand not in names_ and whole in texts_:
                    obs.append(Ob('R-HEADS/CMP', f.fq, 'a child is chosen because it has the candidate category the loop is at', False,
                                  '`%s` is under `%s`, a test against ALL candidates (`%s`), inside the loop over them: the first '
                                  'pass already takes a child with any candidate, the order of the candidates is ignored'
                                  % (unparse(r_.ast), texts_[:60], whole[:40]), construct='cmp-priority:' + unparse(r_.ast),
                                  line=r_.lineno))
    # categories compared lower-case and undecorated
    cmpn = [n for n in walk_own(f.node) if isinstance(n, ast.Compare) and 'parse_label' in ''.join(
        unparse(v) for (_, v) in [x for nm in [y.id for y in ast.walk(n) if isinstance(y, ast.Name)]
                                   for x in name_defs(f, nm)] if isinstance(v, ast.AST))]
    okc = bool(cmpn) and all('.label.lower()' in unparse(c) for c in cmpn)
    lowkey = any(isinstance(n, ast.Subscript) and unparse(n) == '%s[%s.lower()]' % (rules, plab) for n in walk_own(f.node))
    obs.append(Ob('R-HEADS/CMP', f.fq, 'categories are compared lower-case and without decorations', True if (okc and lowkey) else None,
                  'children: parse_label(...).label.lower(); parent key lower()' if okc and lowkey else
                  'comparison does not go through parse_label(...).label.lower() / parent.lower()', construct='cmp',
                  line=f.node.lineno))
    # ---- the two markers
    for nm in ('negra_mark_heads', 'mark_heads_by_rules'):
        g = prog.func('transform', nm)
        gc = g.cfg
        tree = g.params[0]
        rootf = [n for n in gc.eval_nodes() if n.kind == 'stmt' and unparse(n.ast) == "%s.data['head'] = False" % tree
                 and not n.loops and gc.postdominates(n.id, gc.entry)]
        loops = [n for n in gc.eval_nodes() if n.kind == 'iter' and unparse(n.ast.iter) == 'trees.preorder(%s)' % tree]
        hidden = any(isinstance(x_, (ast.FunctionDef, ast.Lambda)) and x_ is not g.node for x_ in ast.walk(g.node)) \
            or bool(prog.opaque_calls(g, [tree]))
        v_root = True if (rootf and loops and gc.dominates(rootf[0].id, loops[0].id)) else (False if not hidden and not any(
            unparse(n.ast).startswith("%s.data['head']" % tree) for n in gc.eval_nodes() if n.kind == 'stmt') else None)
        w_root = '`%s.data[\'head\'] = False` before the traversal' % tree if rootf else 'root not unmarked'
        if v_root is None:
            # positive evidence: a normal return is reachable from the entry without passing any store to the root's flag
            sets = frozenset(n.id for n in gc.eval_nodes() if n.kind == 'stmt' and unparse(n.ast).startswith("%s.data['head'] =" % tree))
            rets = [p_ for p_ in gc.pred[gc.exit] if gc.nodes[p_].kind == 'stmt' and isinstance(gc.nodes[p_].ast, ast.Return)]
            reach = gc.reach(gc.entry, avoid=sets)
            skipping = [p_ for p_ in rets if p_ in reach]
            if sets and skipping and not prog.opaque_calls(g, [tree]):
                v_root = False
                w_root = '`%s` (line %d) is reached without the root\'s head flag ever being written: a one-token tree keeps a ' \
                         'stale flag, or has none and cannot be written with head marks' % (
                             unparse(gc.nodes[skipping[0]].ast), gc.nodes[skipping[0]].lineno)
        obs.append(Ob('R-HEADS/MARK', g.fq, 'the root is marked as non-head', v_root, w_root,
                      construct='mark-root', line=g.node.lineno, nontrivial=False))
        if not loops:
            raise Unrecognised('%s: traversal not found' % g.fq, partial=obs)
        L = loops[0]
        sv = unparse(L.ast.target)
        # children list
        cl = None
        for n in gc.eval_nodes():
            if n.kind == 'stmt' and isinstance(n.ast, ast.Assign) and L.id in n.loops \
                    and unparse(n.ast.value) == 'trees.children(%s)' % sv:
                cl = unparse(n.ast.targets[0])
        ok = False
        why = 'marking loop not recognised'
        if cl:
            # form A: C[idx].head = True; for i, c in enumerate(C): if i != idx: c.head = False
            trues = [n for n in gc.eval_nodes() if n.kind == 'stmt' and isinstance(n.ast, ast.Assign)
                     and unparse(n.ast.targets[0]).startswith(cl + '[') and unparse(n.ast.targets[0]).endswith("].data['head']")
                     and L.id in n.loops]
            for t in trues:
                tgt = t.ast.targets[0]
                idx = unparse(tgt.value.value.slice)
                val = unparse(t.ast.value)
                enum = [n for n in gc.eval_nodes() if n.kind == 'iter' and unparse(n.ast.iter) == 'enumerate(%s)' % cl]
                if val == 'True':
                    for e in enum:
                        i, c = [unparse(x) for x in e.ast.target.elts]
                        fl = [n for n in gc.eval_nodes() if n.kind == 'stmt' and e.id in n.loops
                              and unparse(n.ast) == "%s.data['head'] = False" % c]
                        for x in fl:
                            facts = [y[0] for y in facts_at(gc, x.id) if e.id in gc.nodes[y[1]].loops]
                            if facts in ([('cmp', i, '!=', idx)], [('cmp', idx, '!=', i)]) and gc.same_loop(t.id, e.id):
                                ok = True
                                why = '`%s[%s]` gets True, every other index of enumerate(%s) gets False' % (cl, idx, cl)
                else:
                    # form B: inside enumerate: C[i].head = (i == pos)
                    for e in enum:
                        i, c = [unparse(x) for x in e.ast.target.elts]
                        nt = norm_test(t.ast.value, True)
                        if e.id in t.loops and idx == i and nt[0] == 'cmp' and nt[2] == '==' and i in (nt[1], nt[3]) \
                                and gc.in_every_iteration(e.id, t.id):
                            ok = True
                            why = 'every child i of enumerate(%s) gets `i == %s`' % (cl, nt[3] if nt[1] == i else nt[1])
            # form B': for i, c in enumerate(C): c.data['head'] = (i == pos)
            for e in [n for n in gc.eval_nodes() if n.kind == 'iter' and unparse(n.ast.iter) == 'enumerate(%s)' % cl
                      and isinstance(n.ast.target, ast.Tuple) and len(n.ast.target.elts) == 2]:
                i, c = [unparse(x) for x in e.ast.target.elts]
                for m in gc.eval_nodes():
                    if m.kind == 'stmt' and isinstance(m.ast, ast.Assign) and e.id in m.loops \
                            and unparse(m.ast.targets[0]) == "%s.data['head']" % c:
                        nt = norm_test(m.ast.value, True)
                        if nt[0] == 'cmp' and nt[2] == '==' and i in (nt[1], nt[3]) and gc.in_every_iteration(e.id, m.id):
                            ok = True
                            why = 'every child i of enumerate(%s) gets `i == %s`' % (cl, nt[3] if nt[1] == i else nt[1])
        verdict = True if ok else None
        if not ok:
            # positive evidence of a defect: head flags are set to True somewhere but nothing ever stores False /
            # a comparison on the children of the same constituent
            heads = [m for m in gc.eval_nodes() if m.kind == 'stmt' and isinstance(m.ast, ast.Assign)
                     and unparse(m.ast.targets[0]).endswith(".data['head']") and L.id in m.loops]
            sets_true = [m for m in heads if unparse(m.ast.value) == 'True']
            clears = [m for m in heads if unparse(m.ast.value) == 'False' or isinstance(m.ast.value, ast.Compare)]
            if sets_true and not clears:
                verdict, why = False, 'a child is marked head but the other children are never marked non-head (stale marks survive)'
            elif any(isinstance(m.ast.value, ast.Compare) and any(isinstance(c_, ast.Constant) and isinstance(c_.value, str)
                                                                 for c_ in [m.ast.value.left] + m.ast.value.comparators)
                     for m in heads):
                verdict, why = False, 'the head flag is decided per child from its own edge label: several children (or none) ' \
                                      'can be marked'
        if not ok and verdict is None:
            # the flag compares a property of the child with the same property of the chosen head (`label == labels[headpos]`):
            # every sibling that shares the property is marked, too
            hp = set(nm_ for nm_ in g.locals for (_, v_) in name_defs(g, nm_) if isinstance(v_, ast.Call)
                     and prog.callee(v_, g) == ('transformconst', 'get_headpos_by_rule'))
            idxs = set()
            for e_ in gc.eval_nodes():
                if e_.kind == 'iter' and isinstance(e_.ast.iter, ast.Call) and unparse(e_.ast.iter.func) == 'enumerate' \
                        and isinstance(e_.ast.target, ast.Tuple) and isinstance(e_.ast.target.elts[0], ast.Name):
                    idxs.add(e_.ast.target.elts[0].id)
            for m in [m_ for m_ in gc.eval_nodes() if m_.kind == 'stmt' and isinstance(m_.ast, ast.Assign)
                      and unparse(m_.ast.targets[0]).endswith(".data['head']") and L.id in m_.loops]:
                v_ = m.ast.value
                if not (isinstance(v_, ast.Compare) and len(v_.ops) == 1 and isinstance(v_.ops[0], ast.Eq)):
                    continue
                sides = [v_.left, v_.comparators[0]]
                if any(isinstance(x_, ast.Name) and (x_.id in idxs or x_.id in hp) for x_ in sides):
                    continue
                for x_ in sides:
                    src_ = x_
                    if isinstance(x_, ast.Name):
                        dd_ = [d_ for (_, d_) in name_defs(g, x_.id) if isinstance(d_, ast.AST)]
                        src_ = dd_[0] if len(dd_) == 1 else x_
                    if isinstance(src_, ast.Subscript) and isinstance(src_.slice, ast.Name) and src_.slice.id in hp:
                        verdict = False
                        why = '`%s` marks a child when it equals `%s`, a value taken from the chosen head, instead of when its ' \
                              'position is the chosen one: every sibling with the same value is marked head as well' % (
                                  unparse(m.ast)[:60], unparse(src_))
        if verdict is True and cl:
            # the marking must reach every constituent: a lower bound on the number of children above 1 skips unary nodes
            marks = [m for m in gc.eval_nodes() if m.kind == 'stmt' and isinstance(m.ast, ast.Assign)
                     and unparse(m.ast.targets[0]).endswith(".data['head']") and L.id in m.loops]
            for m in marks:
                for fa in [x[0] for x in facts_at(gc, m.id)]:
                    if fa[0] == 'cmp' and fa[3] in ('len(%s)' % cl, 'len(trees.children(%s))' % sv) and fa[1].isdigit():
                        low = int(fa[1]) + (1 if fa[2] == '<' else 0)
                        if fa[2] in ('<', '<=') and low >= 2:
                            verdict = False
                            why = 'head flags are written only for constituents with at least %d children: an only child ' \
                                  'gets no head flag at all' % low
        obs.append(Ob('R-HEADS/MARK', g.fq, 'exactly one child of every constituent is marked head, all others non-head', verdict,
                      why, construct='mark-one', line=g.node.lineno))
    # negra heuristic: leftmost HD, else rightmost NK, else leftmost
    g = prog.func('transform', 'negra_mark_heads')
    gc = g.cfg
    idxv = None
    for n in gc.eval_nodes():
        if n.kind == 'stmt' and isinstance(n.ast, ast.Assign) and unparse(n.ast.value) == 'True' \
                and unparse(n.ast.targets[0]).endswith("].data['head']"):
            idxv = unparse(n.ast.targets[0].value.value.slice)
    E = None
    for n in gc.nodes:
        if n.kind == 'assume':
            fa = norm_test(n.ast, n.pol)
            if fa[0] == 'haskey' and fa[2] == 'HD':
                E = fa[1]
    from ..values import expr_cases
    use = None
    for n in gc.eval_nodes():
        if n.kind == 'stmt' and isinstance(n.ast, ast.Assign) and unparse(n.ast.value) == 'True' \
                and unparse(n.ast.targets[0]).endswith("].data['head']"):
            use = n
    idxdefs = {}
    recognised = True
    if use is not None and E:
        idx_expr = use.ast.targets[0].value.value.slice
        for c in expr_cases(g, idx_expr, use.id):
            if c.kind != 'value':
                recognised = False
                continue
            facts = frozenset((fa[2], fa[3]) for fa in c.facts if fa[0] == 'haskey' and fa[1] == E)
            idxdefs.setdefault(unparse(c.value), set()).add(facts)
            for x in ast.walk(c.value):
                if isinstance(x, ast.Name) and x.id not in (E, 'len'):
                    recognised = False
                if isinstance(x, ast.Call) and not (unparse(x.func) in ('len',) or unparse(x.func) == '%s.index' % E
                                                    or unparse(x.func) == '%s[::-1].index' % E or unparse(x.func) == '%s.count' % E):
                    recognised = False
    want = {
        '0': {frozenset([('HD', False), ('NK', False)])},
        "%s.index('HD')" % E: {frozenset([('HD', True)])},
        "len(%s) - 1 - %s[::-1].index('NK')" % (E, E): {frozenset([('HD', False), ('NK', True)])},
    }
    ed = [v for (_, v) in name_defs(g, E) if isinstance(v, ast.AST)] if E else []
    ed_ok = len(ed) == 1 and isinstance(ed[0], ast.ListComp) and not ed[0].generators[0].ifs \
        and unparse(ed[0].elt) == "%s.data['edge']" % unparse(ed[0].generators[0].target)
    ok = True if (idxdefs == want and ed_ok) else None
    if ok is None and E and idxdefs and ed_ok:
        # as a function of (HD present, NK present): the cases of deterministic code exclude each other, so where the
        # visible conditions of several cases fit an assignment, the most specific one is the one the code takes
        wanted = {(True, True): "%s.index('HD')" % E, (True, False): "%s.index('HD')" % E,
                  (False, True): "len(%s) - 1 - %s[::-1].index('NK')" % (E, E), (False, False): '0'}
        got = {}
        for hd_ in (True, False):
            for nk_ in (True, False):
                env_ = {'HD': hd_, 'NK': nk_}
                fits = [(len(fs_), ex_) for ex_, sets_ in idxdefs.items() for fs_ in sets_
                        if all(env_.get(k_) == v_ for (k_, v_) in fs_ if k_ in env_) and all(k_ in env_ for (k_, _v) in fs_)]
                best = max([n_ for (n_, _e) in fits], default=None)
                top = set(e_ for (n_, e_) in fits if n_ == best)
                got[(hd_, nk_)] = top.pop() if len(top) == 1 else None
        if all(got[k_] == wanted[k_] for k_ in wanted):
            ok = True
        elif recognised and len(idxdefs) >= 2 and all(v_ is not None for v_ in got.values()):
            ok = False      # every case is an expression over the edge list this rule understands, but they are not the heuristic
    shown = dict((k, sorted(sorted(x) for x in v)) for k, v in idxdefs.items())
    if use is not None and isinstance(use.ast.targets[0].value.value.slice, ast.Name):
        from ..values import carried_over
        iv = use.ast.targets[0].value.value.slice.id
        co = carried_over(g, iv, use.id)
        if co:
            ok = False
            shown = 'the index chosen for one constituent (`%s`, line %d) can still be in `%s` when the next constituent ' \
                    'is marked: the default is not set per constituent' % (unparse(gc.nodes[co[0]].ast)[:50], gc.nodes[co[0]].lineno, iv)
    obs.append(Ob('R-HEADS/NEGRA', g.fq, 'NeGra heuristic: leftmost HD, else rightmost NK, else leftmost child', ok,
                  'index cases and their guards match' if ok else ('index cases %s' % shown if isinstance(shown, dict) else shown),
                  construct='negra-idx', line=g.node.lineno))
    # rule based: presets and rejection
    g = prog.func('transform', 'mark_heads_by_rules')
    gc = g.cfg
    kw = g.kwarg
    pres = {}
    for n in gc.eval_nodes():
        if n.kind == 'stmt' and isinstance(n.ast, ast.Assign) and isinstance(n.ast.targets[0], ast.Name) \
                and unparse(n.ast.value).startswith('transformconst.HEAD_RULES'):
            for (fa, _) in facts_at(gc, n.id):
                if fa[0] == 'cmp' and fa[1] == "%s['mark_heads_preset']" % kw and fa[2] == '==':
                    pres[fa[3].strip("'")] = unparse(n.ast.value)
    rz = [n for n in gc.eval_nodes() if n.kind == 'stmt' and isinstance(n.ast, ast.Raise)]
    unknown = any(('haskey', kw, 'mark_heads_preset', True) in [x[0] for x in facts_at(gc, r.id)]
                  and len([x for x in facts_at(gc, r.id) if x[0][0] == 'cmp' and x[0][2] == '!=']) >= 2 for r in rz)
    nosrc = any(('haskey', kw, 'mark_heads_preset', False) in [x[0] for x in facts_at(gc, r.id)]
                and ('haskey', kw, 'mark_heads_rulefile', False) in [x[0] for x in facts_at(gc, r.id)] for r in rz)
    ok = True if (pres == {'negra': 'transformconst.HEAD_RULES_NEGRA', 'ptb': 'transformconst.HEAD_RULES_PTB'} and unknown and nosrc) else None
    if ok is None and pres and any(('negra' in k) != ('NEGRA' in v) for k, v in pres.items()):
        ok = False          # a preset selects the other table
    obs.append(Ob('R-HEADS/PRESET', g.fq, 'presets negra/ptb select their tables; an unknown preset or no rule source is '
                  'refused', ok, 'presets %s, unknown -> raise, none -> raise' % sorted(pres) if ok else
                  'presets %s, unknown preset raises %s, missing source raises %s' % (pres, unknown, nosrc),
                  construct='preset', line=g.node.lineno))
    call_ok = any(isinstance(n, ast.Call) and prog.callee(n, g) == ('transformconst', 'get_headpos_by_rule')
                  and len(n.args) == 3 and isinstance(n.args[2], ast.Name) and any(
                      isinstance(v, ast.AST) and unparse(v).startswith('transformconst.HEAD_RULES')
                      for (_, v) in name_defs(g, n.args[2].id)) for n in walk_own(g.node))
    lab_ok = sum(1 for n in walk_own(g.node) if isinstance(n, ast.Attribute) and n.attr == 'label'
                 and isinstance(n.value, ast.Call) and prog.callee(n.value, g) == ('trees', 'parse_label')) >= 2
    raw_label = None
    for n in walk_own(g.node):
        if isinstance(n, ast.Call) and prog.callee(n, g) == ('transformconst', 'get_headpos_by_rule') and n.args:
            a0 = n.args[0]
            src = a0
            if isinstance(a0, ast.Name):
                dd = [v for (_, v) in name_defs(g, a0.id) if isinstance(v, ast.AST)]
                src = dd[0] if len(dd) == 1 else a0
            if isinstance(src, ast.Subscript) and unparse(src).endswith(".data['label']"):
                raw_label = unparse(src)
    obs.append(Ob('R-HEADS/PRESET', g.fq, 'parent and child categories are handed to the rules without decorations',
                  False if raw_label else (True if (call_ok and lab_ok) else None),
                  ('the parent category is handed over as the raw node label `%s`: a function tag, index or head mark on it '
                   'makes the rule lookup fail' % raw_label) if raw_label else
                  'parse_label(...).label for parent and children' if call_ok and lab_ok else 'labels not undecorated',
                  construct='preset-labels', line=g.node.lineno, nontrivial=False))
    return obs, {}


# ------------------------------------------------------------------------------------ R-FLAGS

def _bool_dnf_terms(e):
    """Disjuncts of a boolean expression (top-level `or`), each as the set of conjunct texts."""
    if isinstance(e, ast.BoolOp) and isinstance(e.op, ast.Or):
        out = []
        for v in e.values:
            out.extend(_bool_dnf_terms(v))
        return out
    if isinstance(e, ast.BoolOp) and isinstance(e.op, ast.And):
        return [set(unparse(v) for v in e.values)]
    return [{unparse(e)}]


def r_flags(prog, tier):
    obs = []
    f = prog.func('transform', 'boyd_split')
    cfg = f.cfg
    tree = f.params[0]
    loops = [n for n in cfg.eval_nodes() if n.kind == 'iter' and unparse(n.ast.iter) == 'trees.postorder(%s)' % tree]
    if len(loops) != 1:
        raise Unrecognised('boyd_split: postorder traversal not found', partial=obs)
    L = loops[0]
    sv = unparse(L.ast.target)
    hb = None
    for nm2 in sorted(f.locals):
        for (n, v) in name_defs(f, nm2):
            if isinstance(v, ast.Constant) and v.value == 'head_block':
                hb = v.value
    from ..events import data_events
    devs = [d for d in data_events(prog, f) if d.kind == 'DATA']
    # the traversal that sets the defaults is not skipped for "trivial" trees: raising and the writers read the flags of
    # every node of every tree
    exits_ = [p_ for p_ in cfg.pred[cfg.exit] if cfg.nodes[p_].kind == 'stmt' and isinstance(cfg.nodes[p_].ast, ast.Return)]
    early_ = [p_ for p_ in exits_ if p_ in cfg.reach(cfg.entry, avoid=frozenset([L.id]))]
    if early_ and not prog.opaque_calls(f, [tree]):
        nd_ = cfg.nodes[early_[0]]
        obs.append(Ob('R-FLAGS/DEFAULT', f.fq, 'every tree is traversed (the default flags are set on all its nodes)', False,
                      '`%s` (line %d, under %s) leaves before the traversal: the nodes of such a tree have no split / head_block '
                      'flag, raising and the split output options fail on them' % (
                          unparse(nd_.ast), nd_.lineno, [unparse(a_.ast)[:40] for a_ in cfg.assumes_at(nd_.id)]),
                      construct='default-always', line=nd_.lineno))
    # defaults on every visited node
    for key, val in (('split', 'False'), (hb or 'head_block', 'True')):
        hit = [d for d in devs if unparse(d.x) == sv and d.keys == [key] and isinstance(d.value, ast.AST)
               and unparse(d.value) == val and cfg.in_every_iteration(L.id, d.node)]
        anyk = [d for d in devs if unparse(d.x) == sv and d.keys and key in d.keys]
        vd = True if hit else None
        if not hit:
            if not anyk and not prog.opaque_calls(f, [sv]):
                vd = False       # the key is never stored on the visited node
            elif anyk and all(isinstance(d.value, ast.AST) and unparse(d.value) == val for d in anyk) \
                    and not any(cfg.in_every_iteration(L.id, d.node) for d in anyk):
                vd = False       # the default exists but only on some paths
            elif anyk and all(isinstance(d.value, ast.Constant) and unparse(d.value) != val for d in anyk):
                vd = False       # another constant
        obs.append(Ob('R-FLAGS/DEFAULT', f.fq, 'every node visited gets %s = %s' % (key, val), vd,
                      'unconditional store at the top of the traversal' if hit else 'the default is missing or '
                      'conditional: raising / get_label read a flag that was never set', construct='flag-dflt:' + key,
                      line=f.node.lineno))
    # block numbers count the blocks of ONE constituent: a counter that feeds them starts again for every split node
    for d in devs:
        if d.keys == ['block_number'] and isinstance(d.value, ast.Name) and L.id in cfg.nodes[d.node].loops:
            cdefs = name_defs(f, d.value.id)
            inits = [(nid_, v_) for (nid_, v_) in cdefs if isinstance(v_, ast.Constant) and isinstance(v_.value, int)]
            incs = [(nid_, v_) for (nid_, v_) in cdefs if isinstance(v_, tuple) and v_[0] == 'aug']
            if inits and incs and len(inits) + len(incs) == len(cdefs) and all(L.id not in cfg.nodes[nid_].loops for (nid_, _) in inits) \
                    and all(L.id in cfg.nodes[nid_].loops for (nid_, _) in incs):
                obs.append(Ob('R-FLAGS/SPLIT', f.fq, 'block numbers start again with every constituent that is split', False,
                              'the counter `%s` is set to %s once, before the traversal (line %d), and only ever counted up inside it: '
                              'the blocks of the second constituent that is split continue the numbers of the first' % (
                                  d.value.id, unparse(inits[0][1]), cfg.nodes[inits[0][0]].lineno),
                              construct='split-counter:' + d.value.id, line=cfg.nodes[d.node].lineno))
    # the split nodes: one per block, all four flags set
    bl = [n for n in cfg.eval_nodes() if n.kind == 'iter' and L.id in n.loops and unparse(n.ast.iter).startswith('enumerate(')]
    if len(bl) != 1:
        raise Unrecognised('boyd_split: loop over the blocks not found', partial=obs)
    B = bl[0]
    iv = unparse(B.ast.target.elts[0])
    fresh = fresh_paths(prog, f)
    fx = [p for p in fresh if p.endswith('[-1]')]
    if not fx:
        raise Unrecognised('boyd_split: created nodes not found', partial=obs)
    fp = fx[0]
    creates = [n for n in cfg.eval_nodes() if n.kind == 'stmt' and unparse(n.ast).startswith(fp[:-4] + '.append(')
               and B.id in n.loops]
    one = len(creates) == 1 and cfg.in_every_iteration(B.id, creates[0].id) and creates[0].loops[-1] == B.id
    copy = one and unparse(creates[0].ast.value.args[0]) == 'trees.Tree(%s.data)' % sv
    vsp = True if (one and copy) else None
    if len(creates) == 1 and creates[0].loops[-1] == B.id and not cfg.in_every_iteration(B.id, creates[0].id):
        vsp = False              # a block node is created only on some paths
    obs.append(Ob('R-FLAGS/SPLIT', f.fq, 'exactly one node per block is created, as a copy of the split node', vsp,
                  'one unconditional `%s` per block' % unparse(creates[0].ast) if one and copy else
                  'creation is not once per block / not a copy of the original node data', construct='split-one',
                  line=B.lineno))
    estart = 0
    es_ = B.ast.iter.args[1] if len(B.ast.iter.args) > 1 else next((k.value for k in B.ast.iter.keywords if k.arg == 'start'), None)
    if es_ is not None:
        estart = es_.value if isinstance(es_, ast.Constant) and isinstance(es_.value, int) else None
    bn = '%s + %d' % (iv, 1 - estart) if (estart is not None and estart != 1) else iv
    want = {'split': 'True', 'head': "%s.data['head']" % sv, (hb or 'head_block'): 'False', 'block_number': bn}
    for key, val in sorted(want.items()):
        hit = [d for d in devs if unparse(d.x) == fp and d.keys == [key] and isinstance(d.value, ast.AST)
               and unparse(d.value) == val and cfg.in_every_iteration(B.id, d.node) and cfg.nodes[d.node].loops[-1] == B.id
               and one and cfg.dominates(creates[0].id, d.node)]
        anyk = [d for d in devs if unparse(d.x) == fp and d.keys == [key]]
        vf = True if hit else None
        if key == 'block_number' and estart is None:
            hit = []
            vf = None
        unres = [d for d in data_events(prog, f) if d.kind in ('DATA', 'DATAALL') and unparse(d.x) == fp and not getattr(d, 'keys', None)]
        if not hit and unres:
            vf = None                # a store on the new node whose key this rule cannot resolve (a class attribute, a computed key)
        elif not hit:
            if not anyk and not copy:
                vf = None                # the node is not made as a plain copy of the split node: the flag may come with its data
            elif not anyk and not prog.opaque_calls(f, [fp.split('[')[0]]):
                vf = False
            elif anyk and one and all(isinstance(d.value, ast.AST) and unparse(d.value) == val for d in anyk):
                vf = False       # right value, but not with every creation
            elif anyk and all(isinstance(d.value, (ast.Constant, ast.Name)) and unparse(d.value) != val for d in anyk) \
                    and isinstance(ast.parse(val, mode='eval').body, (ast.Constant, ast.BinOp)):
                vf = False       # another constant / the bare loop index
        obs.append(Ob('R-FLAGS/SPLIT', f.fq, 'a created block node gets %s = %s' % (key, val), vf,
                      'unconditional store right after the creation' if hit else 'missing, conditional or different value',
                      construct='split-flag:' + key, line=B.lineno))
    # head block propagation: compared as a boolean function of (old flag, child.head, child.split, child.head_block)
    from ..values import truth_table
    props = [d for d in devs if unparse(d.x) == fp and d.keys == [hb or 'head_block'] and isinstance(d.value, ast.AST)
             and not (isinstance(d.value, ast.Constant))]
    ok = None
    why = 'propagation of the head block flag not found in a form this rule models'
    if len(props) == 1:
        d = props[0]
        slot = unparse(d.ast.targets[0])
        inner = cfg.nodes[cfg.nodes[d.node].loops[-1]] if cfg.nodes[d.node].loops else None
        cv = unparse(inner.ast.target) if inner is not None and inner.kind == 'iter' else None
        if cv:
            hbkey = unparse(d.ast.targets[0].slice)
            atoms = [slot, "%s.data['head']" % cv, "%s.data['split']" % cv, "%s.data[%s]" % (cv, hbkey)]
            try:
                got = truth_table(f, d.value, d.node, atoms)
                want = []
                for k in range(16):
                    s_, h_, sp_, hb_ = [bool((k >> i) & 1) for i in range(4)]
                    want.append(s_ or (h_ and ((not sp_) or hb_)))
                if got == tuple(want):
                    ok = True
                    why = 'a block becomes head block only through a child that is the head child and (is not split or is ' \
                          'itself a head block) - checked on all 16 combinations of the four flags'
                else:
                    k = [i for i in range(16) if got[i] != want[i]][0]
                    env = dict((a, bool((k >> i) & 1)) for i, a in enumerate(atoms))
                    ok = False
                    why = 'with %s the block %s head block, the documented rule says it %s' % (
                        ', '.join('%s=%s' % (a.split('.data')[-1] if i else 'old flag', v) for i, (a, v) in enumerate(env.items())),
                        'becomes' if got[k] else 'does not become', 'does' if want[k] else 'does not')
            except Unrecognised as ex:
                why = 'head block condition not a boolean combination of the four flags: %s' % ex
                # positive evidence: the head-block flag is read from another node than the child under consideration
                slot_owner = unparse(d.ast.targets[0].value.value) if isinstance(d.ast.targets[0], ast.Subscript) else None
                for x in ast.walk(d.value):
                    if isinstance(x, ast.Subscript) and isinstance(x.value, ast.Attribute) and x.value.attr == 'data' \
                            and unparse(x.slice) == hbkey and unparse(x.value.value) not in (cv, slot_owner) \
                            and isinstance(x.value.value, ast.Name):
                        other = x.value.value.id
                        outer_vars = [unparse(cfg.nodes[l].ast.target) for l in cfg.nodes[d.node].loops if cfg.nodes[l].kind == 'iter']
                        if other in outer_vars or other in f.params:
                            ok = False
                            why = 'the head-block flag is read from `%s` (the node being split, whose own flag is the default) ' \
                                  'instead of from the child `%s`: every block that holds a piece of a split head child becomes a ' \
                                  'head block' % (other, cv)
    obs.append(Ob('R-FLAGS/HEADBLOCK', f.fq, 'the head block is the block holding the head child (recursively its head block)',
                  ok, why, construct='headblock', line=f.node.lineno))
    # consumers read the flags the producer wrote
    f = prog.func('transform', 'raising')
    reads = set()
    indirect = []
    todo, seen_f = [f], set()
    while todo:
        g_ = todo.pop()
        if g_.fq in seen_f or len(seen_f) > 6:
            continue
        seen_f.add(g_.fq)
        for n in walk_own(g_.node):
            if isinstance(n, ast.Subscript) and isinstance(n.value, ast.Attribute) and n.value.attr == 'data' and const_str(n.slice):
                reads.add(const_str(n.slice))
            if isinstance(n, ast.Call):
                c_ = prog.callee(n, g_)
                if c_ is not None and c_[0] == 'transform' and c_[1].startswith('_') and c_[1] in prog.modules['transform'].funcs:
                    todo.append(prog.modules['transform'].funcs[c_[1]])      # a private worker of raising reads for it
            # a private function handed on by name (filter(_is_non_head_block, ...)), a method of a private class
            if isinstance(n, ast.Name) and isinstance(n.ctx, ast.Load) and n.id.startswith('_') and n.id not in g_.locals:
                tf = prog.modules['transform'].funcs
                if n.id in tf:
                    todo.append(tf[n.id])
                for q_, fn_ in tf.items():
                    if q_.startswith(n.id + '.'):
                        todo.append(fn_)
                        indirect.append(q_)
    if indirect and not ({'split', hb or 'head_block'} <= reads):
        # the keys are class attributes or computed in the class: what the methods read is not visible as literals
        for q_ in indirect:
            for n in walk_own(prog.modules['transform'].funcs[q_].node):
                if isinstance(n, ast.Subscript) and isinstance(n.value, ast.Attribute) and n.value.attr == 'data':
                    reads.add('<computed>')
    if '<computed>' in reads:
        ok = None
    else:
        ok = True if reads == {'split', hb or 'head_block'} else (
            False if not ({'split', hb or 'head_block'} <= reads) and not prog.opaque_calls(f, [f.params[0]]) else None)
    obs.append(Ob('R-FLAGS/CONSUMER', f.fq, 'raising reads exactly the flags boyd_split sets on every node', ok,
                  'reads %s' % sorted(reads), construct='consumer-raising', line=f.node.lineno, nontrivial=False))
    # binarization nodes are heads
    f = prog.func('transform', '_binarize_tree')
    cfg = f.cfg
    devs = [d for d in data_events(prog, f) if d.kind == 'DATA']
    fresh = fresh_paths(prog, f)
    for p in sorted(fresh):
        hit = [d for d in devs if unparse(d.x) == p and d.keys == ['head'] and isinstance(d.value, ast.AST)
               and unparse(d.value) == 'True']
        cre = [n for n in cfg.eval_nodes() if n.kind == 'stmt' and isinstance(n.ast, ast.Assign) and unparse(n.ast.targets[0]) == p
               and 'trees.Tree(' in unparse(n.ast.value)]
        ok = True if (bool(hit) and bool(cre) and cfg.always_with(cre[0].id, hit[0].node)
                      and cfg.same_loop(cre[0].id, hit[0].node)) else None
        ctor_args = [x.args[0] for n_ in cre for x in ast.walk(n_.ast.value) if isinstance(x, ast.Call) and x.args
                     and 'Tree' in unparse(x.func)]
        from_dict = any(not (isinstance(a_, ast.Attribute) and a_.attr == 'data') for a_ in ctor_args)
        if ok is None and from_dict:
            ok = None           # the node is built from a prepared data dictionary: its head entry is set there, if at all
        elif ok is None and not [d for d in devs if unparse(d.x) == p and d.keys and 'head' in d.keys] \
                and not prog.opaque_calls(f, [p.split('[')[0].split('.')[0]]):
            ok = False
        elif ok is None and hit and cre and not cfg.always_with(cre[0].id, hit[0].node):
            ok = False
        obs.append(Ob('R-FLAGS/BIN', f.fq, 'an added binarization node is marked head (the head spine runs through it)', ok,
                      '`%s.data[\'head\'] = True` with every creation' % p if ok else 'created without head mark',
                      construct='bin-head:' + p, line=f.node.lineno))
    return obs, {}
