"""Loader, name resolution, statement CFG with assume nodes, dominators.

Everything here works on the *text* of /repo's current working tree (ast.parse).
Nothing from the analysed package is imported or executed.
"""
import ast
import hashlib
import os

REPO = os.environ.get('TTSA_REPO', '/repo')
PKG = 'trees'
MODULES = ['trees', 'treeinput', 'treeoutput', 'transform', 'transformconst',
           'treeanalysis', 'grammar', 'grammaranalysis', 'grammarconst',
           'grammarinput', 'grammaroutput', 'transitions', 'transitionoutput',
           'misc']


class AnalysisError(Exception):
    """An anchor the analysis needs is gone (module, function, registry): the run cannot give a verdict."""


class Unrecognised(AnalysisError):
    """A construct inside an existing anchor has a shape the rule does not model: the rule gives no verdict
    for it (reported as undecided), it is neither a pass nor an alarm.  `partial`: the obligations the rule had
    decided before it met the construct - they stand (a violation found earlier is still a violation)."""

    def __init__(self, *args, partial=()):
        AnalysisError.__init__(self, *args)
        self.partial = list(partial)


# --------------------------------------------------------------------------- program model

class Func(object):
    def __init__(self, module, node, cls=None):
        self.module = module            # Module
        self.node = node                # ast.FunctionDef
        self.cls = cls                  # class name or None
        self.name = node.name
        self.qual = (cls + '.' + node.name) if cls else node.name
        self.params = [a.arg for a in node.args.posonlyargs + node.args.args]
        self.kwarg = node.args.kwarg.arg if node.args.kwarg else None
        self.vararg = node.args.vararg.arg if node.args.vararg else None
        self._cfg = None
        self._locals = None

    @property
    def fq(self):
        return '%s.%s' % (self.module.name, self.qual)

    @property
    def cfg(self):
        if self._cfg is None:
            self._cfg = CFG(self)
        return self._cfg

    @property
    def locals(self):
        """Names bound anywhere in the function body (params, assignments, loop targets ...)."""
        if self._locals is None:
            names = set(self.params)
            if self.kwarg:
                names.add(self.kwarg)
            if self.vararg:
                names.add(self.vararg)
            for n in walk_own(self.node):
                if isinstance(n, ast.Name) and isinstance(n.ctx, (ast.Store, ast.Del)):
                    names.add(n.id)
                elif isinstance(n, ast.ExceptHandler) and n.name:
                    names.add(n.name)
                elif isinstance(n, (ast.FunctionDef, ast.ClassDef)):
                    names.add(n.name)           # nested definitions are locals too
                elif isinstance(n, (ast.Import, ast.ImportFrom)):
                    for a_ in n.names:
                        names.add((a_.asname or a_.name).split('.')[0])
            self._locals = names
        return self._locals

    def __repr__(self):
        return '<Func %s>' % self.fq


_HOMES = [None]


def _homes():
    """{top-level name: [modules defining it]} on the tree the checker was built for (ttsa/homes.json)."""
    if _HOMES[0] is None:
        import json
        fp = os.path.join(os.path.dirname(os.path.abspath(__file__)), 'homes.json')
        try:
            with open(fp) as fh:
                _HOMES[0] = json.load(fh)
        except Exception:
            _HOMES[0] = {}
    return _HOMES[0]


class AliasFunc(Func):
    """A function that was moved to another module of the package and is still reachable under its old name
    (`old = new_home.name` or `from .new_home import name` at module level of the old home).  Names inside the body are
    resolved where the body stands; the function is reported, and found by the rules, under the old name."""
    def __init__(self, target, home, name):
        Func.__init__(self, target.module, target.node, target.cls)
        self.home = home
        self.alias_name = name
        self.target = target

    @property
    def fq(self):
        return '%s.%s' % (self.home.name, self.alias_name)

    @property
    def cfg(self):
        return self.target.cfg

    @property
    def locals(self):
        return self.target.locals


class Module(object):
    def __init__(self, name, path, src=None):
        self.name = name
        self.path = path
        if src is not None:
            self.src = src
        else:
            with open(path, encoding='utf-8') as f:
                self.src = f.read()
        import warnings
        with warnings.catch_warnings():
            warnings.simplefilter('ignore')
            self.tree = ast.parse(self.src, filename=path)
        self.normalised = {}
        if not os.environ.get('TTSA_NO_NORMALISE'):
            # u'...' is '...'
            for c_ in ast.walk(self.tree):
                if isinstance(c_, ast.Constant) and getattr(c_, 'kind', None) == 'u':
                    c_.kind = None
            # N13 at module level: `NAME: Final = v` / `TABLE: List[str] = v` is `NAME = v` (a bare `NAME: T` says nothing)
            body = []
            for st in self.tree.body:
                if isinstance(st, ast.AnnAssign) and isinstance(st.target, ast.Name) and st.simple:
                    self.normalised['N13'] = self.normalised.get('N13', 0) + 1
                    if st.value is not None:
                        body.append(ast.copy_location(ast.Assign(targets=[st.target], value=st.value), st))
                    continue
                body.append(st)
            self.tree.body = body
            ast.fix_missing_locations(self.tree)
            # a table built in two steps while the module is loaded: `T = dict(A)` / `T = {...}` followed (directly) by
            # `T.update(B)`  is  `T = dict(list(A.items()) + list(B.items()))`
            body = []
            for st in self.tree.body:
                prev = body[-1] if body else None
                if isinstance(st, ast.Expr) and isinstance(st.value, ast.Call) and isinstance(st.value.func, ast.Attribute) \
                        and st.value.func.attr == 'update' and isinstance(st.value.func.value, ast.Name) and len(st.value.args) == 1 \
                        and not st.value.keywords and isinstance(st.value.args[0], ast.Name) \
                        and isinstance(prev, ast.Assign) and len(prev.targets) == 1 and isinstance(prev.targets[0], ast.Name) \
                        and prev.targets[0].id == st.value.func.value.id:
                    a = prev.value
                    first = None
                    if isinstance(a, ast.Call) and isinstance(a.func, ast.Name) and a.func.id == 'dict' and len(a.args) == 1 \
                            and not a.keywords and isinstance(a.args[0], ast.Name):
                        first = a.args[0]
                    elif isinstance(a, ast.Dict):
                        first = a
                    if first is not None:
                        items = lambda e: ast.Call(func=ast.Name(id='list', ctx=ast.Load()), args=[ast.Call(
                            func=ast.Attribute(value=e, attr='items', ctx=ast.Load()), args=[], keywords=[])], keywords=[])
                        prev.value = ast.Call(func=ast.Name(id='dict', ctx=ast.Load()),
                                              args=[ast.BinOp(left=items(first), op=ast.Add(), right=items(st.value.args[0]))], keywords=[])
                        ast.copy_location(prev.value, a)
                        self.normalised['N13'] = self.normalised.get('N13', 0) + 1
                        continue
                body.append(st)
            self.tree.body = body
            ast.fix_missing_locations(self.tree)
            # N18: one way of naming the other modules of the package and what they define
            import copy
            from . import normalise
            pristine = copy.deepcopy(self.tree)
            try:
                k = normalise.canonicalise_imports(self.tree, PKG, MODULES, name, _homes())
                if k:
                    compile(self.tree, self.path, 'exec')
                    self.normalised['N18'] = k
            except Exception:
                self.tree = pristine
        self.aliases = {}      # local alias -> package module name
        for st in self.tree.body:
            if isinstance(st, ast.ImportFrom):
                if (st.level >= 1 and not st.module) or (st.level == 0 and st.module == PKG):
                    for a in st.names:
                        self.aliases[a.asname or a.name] = a.name

    def finish(self, ctx=None):
        """Canonicalise the tree (ttsa.normalise) and index functions, classes, imports, constants."""
        if ctx is not None and not os.environ.get('TTSA_NO_NORMALISE'):
            from . import normalise
            import copy
            pristine = copy.deepcopy(self.tree)
            try:
                nc = normalise.substitute_constants(self.tree, self.name, dict(self.aliases), ctx.get('consts', {}),
                                                    ctx.get('keep', set()))
                pre = dict(self.normalised)
                self.tree, self.normalised = normalise.normalise(self.tree, ctx, self.name, dict(self.aliases))
                for k_, v_ in pre.items():
                    self.normalised[k_] = self.normalised.get(k_, 0) + v_
                # helpers inlined from other modules bring their constants with them
                nc += normalise.substitute_constants(self.tree, self.name, dict(self.aliases), ctx.get('consts', {}),
                                                     ctx.get('keep', set()))
                if nc:
                    self.normalised['N11'] = nc
                compile(self.tree, self.path, 'exec')        # the rewritten tree must still be a valid program
            except Exception as e:                            # a rewrite went wrong: analyse the source as written
                self.tree, self.normalised = pristine, {'failed: %s' % type(e).__name__: 1}
        self.funcs = {}        # qualname -> Func
        self.classes = {}      # name -> ast.ClassDef
        self.aliases = {}      # local alias -> package module name
        self.imports = {}      # local name -> 'stdlib.module.name'
        self.consts = {}       # module-level NAME -> ast expr (last assignment)
        for st in self.tree.body:
            if isinstance(st, ast.FunctionDef):
                self.funcs[st.name] = Func(self, st)
            elif isinstance(st, ast.ClassDef):
                self.classes[st.name] = st
                for sub in st.body:
                    if isinstance(sub, ast.FunctionDef):
                        f = Func(self, sub, st.name)
                        self.funcs[f.qual] = f
            elif isinstance(st, ast.ImportFrom):
                if st.level >= 1 and not st.module:
                    for a in st.names:
                        self.aliases[a.asname or a.name] = a.name
                elif st.level == 0 and st.module == PKG:
                    for a in st.names:
                        self.aliases[a.asname or a.name] = a.name
                else:
                    for a in st.names:
                        self.imports[a.asname or a.name] = '%s.%s' % (st.module, a.name)
            elif isinstance(st, ast.Import):
                for a in st.names:
                    self.imports[a.asname or a.name.split('.')[0]] = a.name
            elif isinstance(st, ast.Assign):
                for t in st.targets:
                    if isinstance(t, ast.Name):
                        self.consts[t.id] = st.value


class Program(object):
    def __init__(self, repo=None, sources=None):
        """sources: {module name: source text} builds a program from texts (fixtures of zero-instance rules);
        modules not given are empty."""
        self.repo = repo or REPO
        self.modules = {}
        h = hashlib.sha256()
        for name in MODULES:
            path = os.path.join(self.repo, PKG, name + '.py')
            if sources is not None:
                self.modules[name] = Module(name, '<fixture %s>' % name, sources.get(name, ''))
                h.update(self.modules[name].src.encode('utf-8'))
                continue
            if not os.path.exists(path):
                raise AnalysisError('module %s.py is missing' % name)
            self.modules[name] = Module(name, path)
            h.update(self.modules[name].src.encode('utf-8'))
        script = os.path.join(self.repo, 'treetools')
        if sources is None and not os.path.exists(script):
            raise AnalysisError('entry script treetools is missing')
        self.modules['__main__'] = Module('__main__', script, sources.get('__main__', '') if sources is not None else None)
        h.update(self.modules['__main__'].src.encode('utf-8'))
        self.digest = h.hexdigest()[:16]
        from . import normalise
        # a constant table that moved to another module and is still known under its old name at its old home
        # (`X = other.X` there): the old home gets the literal back
        if not os.environ.get('TTSA_NO_NORMALISE'):
            import copy
            homes = _homes()
            for n, m in self.modules.items():
                for st in m.tree.body:
                    if not (isinstance(st, ast.Assign) and len(st.targets) == 1 and isinstance(st.targets[0], ast.Name)
                            and isinstance(st.value, ast.Attribute) and isinstance(st.value.value, ast.Name)):
                        continue
                    x, y = st.targets[0].id, st.value.attr
                    tn = m.aliases.get(st.value.value.id)
                    t = self.modules.get(tn)
                    if t is None or t is m or n not in homes.get(x, ()):
                        continue
                    defs = [d for d in t.tree.body if isinstance(d, ast.Assign) and len(d.targets) == 1
                            and isinstance(d.targets[0], ast.Name) and d.targets[0].id == y]
                    if len(defs) != 1:
                        continue
                    try:
                        ast.literal_eval(defs[0].value)
                    except Exception:
                        continue
                    st.value = copy.deepcopy(defs[0].value)
                    m.normalised['N18'] = m.normalised.get('N18', 0) + 1
        ctx = normalise.package_context(dict((n, (m.tree, dict(m.aliases), set())) for n, m in self.modules.items()))
        ctx['consts'] = dict((n, normalise.module_constants(m.tree)) for n, m in self.modules.items())
        ctx['keep'] = set(_names_known_to_rules()) | set(ctx.get('rebound', ()))      # (a name assigned through `module.NAME = ...` is no constant)
        ctx['keep_funcs'] = _idents_known_to_rules()
        ctx['xhelpers'] = dict((k, v) for k, v in ctx.get('xhelpers', {}).items() if k[1] not in ctx['keep_funcs'])
        self.normalised = {}
        self.ctx = ctx
        for n, m in self.modules.items():
            m.finish(ctx)
            for k, v in m.normalised.items():
                self.normalised[k] = self.normalised.get(k, 0) + v

        # definitions that moved to another module and left their old name behind as an alias
        self.canon = {}
        for n, m in self.modules.items():
            for st in m.tree.body:
                pairs = []
                if isinstance(st, ast.Assign) and len(st.targets) == 1 and isinstance(st.targets[0], ast.Name) \
                        and isinstance(st.value, ast.Attribute) and isinstance(st.value.value, ast.Name) \
                        and st.value.value.id in m.aliases:
                    pairs.append((st.targets[0].id, m.aliases[st.value.value.id], st.value.attr))
                for (x, tn, y) in pairs:
                    t = self.modules.get(tn)
                    if n not in _homes().get(x, ()):
                        continue            # an ordinary import / alias, not a definition that moved away from here
                    if t is not None and t is not m and x not in m.funcs and y in t.funcs and not isinstance(t.funcs[y], AliasFunc):
                        m.funcs[x] = AliasFunc(t.funcs[y], m, x)
                        self.canon.setdefault((tn, y), []).append((n, x))
        self.canon = dict((k, v[0]) for k, v in self.canon.items() if len(v) == 1)

    # private helpers are found through the public function that calls them, whatever they are called
    PRIVATE_VIA = {'_binarize_tree': 'binarize', '_inorder': 'inorder',
                   '_collapse_unary_chains': 'collapse_unary_chains',
                   '_uncollapse_unary_chains': 'uncollapse_unary_chains'}

    def func(self, module, qual, required=True):
        m = self.modules.get(module)
        f = m.funcs.get(qual) if m else None
        if f is None and m is not None and qual in self.PRIVATE_VIA:
            pub = m.funcs.get(self.PRIVATE_VIA[qual])
            if pub is not None:
                cands = []
                for n in walk_own(pub.node):
                    if isinstance(n, ast.Call):
                        c = self.callee(n, pub)
                        if c and c[0] == module and c[1].startswith('_') and c[1] in m.funcs and c[1] not in cands:
                            cands.append(c[1])
                rec = [c for c in cands if any(isinstance(x, ast.Call) and self.callee(x, m.funcs[c]) == (module, c)
                                               for x in walk_own(m.funcs[c].node))]
                pick = rec if len(rec) == 1 else (cands if len(cands) == 1 else [])
                if pick:
                    return m.funcs[pick[0]]
            if required:
                raise Unrecognised('private helper %s.%s not found (renamed, inlined or split up)' % (module, qual))
        if f is None and required:
            raise AnalysisError('function %s.%s not found' % (module, qual))
        return f

    def all_funcs(self):
        for m in self.modules.values():
            for f in m.funcs.values():
                yield f

    def registry(self, module, name):
        """Names listed in a module-level list/dict registry, from the AST literal."""
        m = self.modules[module]
        v = m.consts.get(name)
        if v is None:
            raise AnalysisError('registry %s.%s not found' % (module, name))
        if isinstance(v, (ast.List, ast.Tuple, ast.Set)):
            out = []
            for e in v.elts:
                if not isinstance(e, ast.Name):
                    raise Unrecognised('registry %s.%s has a non-name entry' % (module, name))
                out.append(e.id)
            return out
        if isinstance(v, ast.Dict):
            out = []
            for k in v.keys:
                if not (isinstance(k, ast.Constant) and isinstance(k.value, str)):
                    raise Unrecognised('registry %s.%s has a non-literal key' % (module, name))
                out.append(k.value)
            return out
        raise Unrecognised('registry %s.%s is not a list or dict literal' % (module, name))

    def const_value(self, module, name, _depth=0):
        """Evaluate a module-level constant built from literals, +, list(), dict.keys() ..."""
        m = self.modules[module]
        if name not in m.consts:
            raise AnalysisError('constant %s.%s not found' % (module, name))
        return self._eval(m, m.consts[name], _depth)

    def _eval(self, m, e, depth):
        if depth > 20:
            raise Unrecognised('constant evaluation too deep')
        if isinstance(e, ast.Constant):
            return e.value
        if isinstance(e, ast.List):
            return [self._eval(m, x, depth + 1) for x in e.elts]
        if isinstance(e, ast.Tuple):
            return tuple(self._eval(m, x, depth + 1) for x in e.elts)
        if isinstance(e, ast.Dict):
            return dict((self._eval(m, k, depth + 1), self._eval(m, v, depth + 1))
                        for k, v in zip(e.keys, e.values))
        if isinstance(e, ast.Name):
            return self.const_value(m.name, e.id, depth + 1)
        if isinstance(e, ast.Attribute) and isinstance(e.value, ast.Name) and e.value.id in m.aliases:
            return self.const_value(m.aliases[e.value.id], e.attr, depth + 1)
        if isinstance(e, ast.BinOp) and isinstance(e.op, ast.Add):
            return self._eval(m, e.left, depth + 1) + self._eval(m, e.right, depth + 1)
        if isinstance(e, ast.Call) and isinstance(e.func, ast.Name) and e.func.id in ('list', 'dict') \
                and len(e.args) == 1:
            v = self._eval(m, e.args[0], depth + 1)
            return list(v) if e.func.id == 'list' else dict(v)
        if isinstance(e, ast.Call) and isinstance(e.func, ast.Attribute) \
                and e.func.attr in ('keys', 'items', 'values') and not e.args:
            v = self._eval(m, e.func.value, depth + 1)
            return list(getattr(v, e.func.attr)())
        raise Unrecognised('cannot evaluate constant expression %s' % ast.unparse(e)[:60])

    def raising_calls(self, func):
        """Calls inside `func` of package functions (or local functions) whose own body contains a `raise`: a function that
        seems never to raise may raise through them."""
        out = []
        local_raisers = set(d.name for d in ast.walk(func.node) if isinstance(d, ast.FunctionDef) and d is not func.node
                            and any(isinstance(x, ast.Raise) for x in ast.walk(d)))
        for c in walk_own(func.node):
            if not isinstance(c, ast.Call):
                continue
            if isinstance(c.func, ast.Name) and c.func.id in local_raisers:
                out.append(c)
                continue
            t = self.callee(c, func)
            g = self.func(t[0], t[1], required=False) if t else None
            if g is not None and g.node is not func.node and any(isinstance(x, ast.Raise) for x in walk_own(g.node)):
                out.append(c)
        return out

    def raises_kind(self, exc, func, base='ValueError', _depth=0):
        """Is the exception expression `exc` (of a raise in `func`) an instance of builtin `base` - the builtin itself or
        a class of the package derived from it?  True / False / None (not resolvable)."""
        e = exc.func if isinstance(exc, ast.Call) else exc
        if isinstance(e, ast.Name):
            if e.id == base:
                return True
            mod, cname = func.module, e.id
        elif isinstance(e, ast.Attribute) and isinstance(e.value, ast.Name) and e.value.id in func.module.aliases:
            mod, cname = self.modules.get(func.module.aliases[e.value.id]), e.attr
        else:
            return None
        for _ in range(6):
            cls = mod.classes.get(cname) if mod is not None else None
            if cls is None:
                import builtins
                b = getattr(builtins, cname, None)
                want = getattr(builtins, base, None)
                if isinstance(b, type) and isinstance(want, type):
                    return issubclass(b, want)
                return None
            if len(cls.bases) != 1 or not isinstance(cls.bases[0], ast.Name):
                return None
            cname = cls.bases[0].id
            if cname == base:
                return True
        return None

    # ----------------------------------------------------------------- callee resolution
    def callee(self, call, func):
        """(module, qualname) of a package function called by `call` inside `func`, else None.  A function that moved
        and left an alias at its old home is named by the old home, whichever of the two names the call uses."""
        r = self._callee(call, func)
        return self.canon.get(r, r) if r is not None else None

    def _callee(self, call, func):
        f = call.func
        mod = func.module
        if isinstance(f, ast.Attribute) and isinstance(f.value, ast.Name):
            base = f.value.id
            if base in mod.aliases and base not in func.locals:
                target = mod.aliases[base]
                if target in self.modules and f.attr in self.modules[target].funcs:
                    return (target, f.attr)
                if target in self.modules and f.attr in self.modules[target].classes:
                    return (target, f.attr + '.__init__')
                return None
            if base in mod.classes and base not in func.locals:
                q = base + '.' + f.attr
                if q in mod.funcs:
                    return (mod.name, q)
        elif isinstance(f, ast.Name):
            if f.id in func.locals:
                return None
            if f.id in mod.funcs:
                return (mod.name, f.id)
            if f.id in mod.classes:
                q = f.id + '.__init__'
                return (mod.name, q) if q in mod.funcs else None
        return None

    def pure_call(self, call, func):
        """The call is known to have no effect on program state: a pure builtin / method, or a package function
        whose body (transitively) writes nothing but its own fresh locals."""
        from . import normalise as N
        fn = call.func
        if isinstance(fn, ast.Name):
            if fn.id in func.locals:
                return False
            if fn.id in N.PURE_BUILTINS or fn.id in N.EXTRA_PURE:
                return True
            return (func.module.name, fn.id) in self.ctx['pure']
        if isinstance(fn, ast.Attribute):
            c = self.callee(call, func)
            if c is not None:
                return c in self.ctx['pure']
            if isinstance(fn.value, ast.Name) and fn.value.id in func.module.aliases and fn.value.id not in func.locals:
                return False
            return fn.attr in N.PURE_METHODS
        return False

    def _ctor_self_only(self, callee):
        """The constructor (module, 'Class.__init__') writes nothing but attributes of the new object and hands its
        arguments to nothing but builtins and the standard library."""
        if not hasattr(self, '_cso'):
            self._cso = {}
        if callee in self._cso:
            return self._cso[callee]
        ok = False
        f = self.modules[callee[0]].funcs.get(callee[1]) if callee[0] in self.modules else None
        if f is not None and f.params:
            me = f.params[0]
            ok = True
            for n in walk_own(f.node):
                tg = []
                if isinstance(n, ast.Assign):
                    tg = list(n.targets)
                elif isinstance(n, (ast.AugAssign, ast.AnnAssign)):
                    tg = [n.target]
                elif isinstance(n, (ast.Delete, ast.Global, ast.Nonlocal, ast.Yield, ast.YieldFrom)):
                    ok = False
                for t in tg:
                    if isinstance(t, ast.Name):
                        continue
                    if not (isinstance(t, ast.Attribute) and isinstance(t.value, ast.Name) and t.value.id == me):
                        ok = False
                if isinstance(n, ast.Call):
                    if self.callee(n, f) is not None:
                        ok = False          # package code
                    elif isinstance(n.func, ast.Attribute) and root_name(n.func.value) in f.params \
                            and root_name(n.func.value) != me:
                        ok = False          # a method of an argument
                    elif isinstance(n.func, ast.Name) and n.func.id in f.locals:
                        ok = False
        self._cso[callee] = ok
        return ok

    def _package_methods(self):
        if not hasattr(self, '_pm'):
            pm = set()
            for m in self.modules.values():
                for c in m.classes.values():
                    for sub in c.body:
                        if isinstance(sub, ast.FunctionDef):
                            pm.add(sub.name)
            self._pm = pm
        return self._pm

    def opaque_calls(self, func, names, before=None):
        """Calls in `func` that hand one of the local `names` (or something reached through it) to code that is
        not known to be pure - a helper that may do, elsewhere, what a rule looks for here.  `before`: only calls
        from which cfg node `before` can be reached."""
        out = []
        cfg = func.cfg
        names = set(names)
        for n in cfg.eval_nodes():
            if before is not None and n.id != before and not cfg.can_reach(n.id, before):
                continue
            for root in cfg.exprs(n.id):
                for sub in ast.walk(root):
                    if not isinstance(sub, ast.Call):
                        continue
                    # a local function sees the variables of the function around it: calling it hands them all over
                    if isinstance(sub.func, ast.Name) and sub.func.id in func.locals:
                        nested = [d for d in ast.walk(func.node) if isinstance(d, ast.FunctionDef) and d is not func.node
                                  and d.name == sub.func.id]
                        if nested and any(isinstance(y, ast.Name) and y.id in names for d in nested for y in ast.walk(d)):
                            out.append((n.id, sub))
                            continue
                    if self.pure_call(sub, func):
                        continue
                    c_ = self.callee(sub, func)
                    if c_ is not None and c_[1].endswith('.__init__') and self._ctor_self_only(c_):
                        continue        # a constructor that only fills in the new object
                    if isinstance(sub.func, ast.Name) and sub.func.id not in func.locals \
                            and self.callee(sub, func) is None:
                        continue        # a builtin or a standard-library function: it does not know about node fields
                    if isinstance(sub.func, ast.Attribute) and isinstance(sub.func.value, ast.Name) \
                            and sub.func.value.id in func.module.imports and sub.func.value.id not in func.locals:
                        continue        # module.function of the standard library
                    args = list(sub.args) + [k.value for k in sub.keywords]
                    if isinstance(sub.func, ast.Attribute) and self.callee(sub, func) is None:
                        # a method of a builtin container / stream cannot reach into the nodes it is handed; only
                        # methods defined by classes of the package can
                        if sub.func.attr not in self._package_methods():
                            continue
                        args.append(sub.func.value)
                    for a in args:
                        if root_name(a.value if isinstance(a, ast.Starred) else a) in names:
                            out.append((n.id, sub))
                            break
        return out

    def is_call_to(self, node, func, module, name):
        return isinstance(node, ast.Call) and self.callee(node, func) == (module, name)

    def is_ext_call(self, node, func, dotted):
        """True if `node` calls the stdlib object `dotted` (e.g. 'io.open', 'sys.exit')."""
        if not isinstance(node, ast.Call):
            return False
        f = node.func
        mod = func.module
        if isinstance(f, ast.Name):
            if f.id in func.locals:
                return False
            tgt = mod.imports.get(f.id)
            if tgt == dotted:
                return True
            return tgt is None and f.id == dotted and f.id not in mod.funcs
        if isinstance(f, ast.Attribute) and isinstance(f.value, ast.Name):
            base = mod.imports.get(f.value.id)
            if base and f.value.id not in func.locals:
                return '%s.%s' % (base, f.attr) == dotted
        return False


_KNOWN = [None]


def _names_known_to_rules():
    """Upper-case identifiers that occur in the rule sources: constants the rules refer to by name keep their name."""
    if _KNOWN[0] is None:
        import re
        names = set()
        here = os.path.dirname(os.path.abspath(__file__))
        for d in (here, os.path.join(here, 'rules')):
            for fn in os.listdir(d):
                if fn.endswith('.py') and fn != 'normalise.py':
                    with open(os.path.join(d, fn), encoding='utf-8') as f:
                        names |= set(re.findall(r'\b[A-Z][A-Z0-9_]{2,}\b', f.read()))
        _KNOWN[0] = names
    return _KNOWN[0]


_KNOWN_IDENTS = [None]


def _idents_known_to_rules():
    """Every identifier that occurs in the rule sources (in code or inside strings): functions the rules refer to
    by name are never inlined away."""
    if _KNOWN_IDENTS[0] is None:
        import re
        names = set()
        here = os.path.dirname(os.path.abspath(__file__))
        for d in (here, os.path.join(here, 'rules')):
            for fn in os.listdir(d):
                if fn.endswith('.py') and fn != 'normalise.py':
                    with open(os.path.join(d, fn), encoding='utf-8') as f:
                        names |= set(re.findall(r'[A-Za-z_][A-Za-z0-9_]*', f.read()))
        _KNOWN_IDENTS[0] = names
    return _KNOWN_IDENTS[0]


def walk_own(node):
    """ast.walk that does not descend into nested function/class definitions or lambdas'
    *definitions* (lambda bodies are expressions of the enclosing function and are visited)."""
    todo = list(ast.iter_child_nodes(node))
    while todo:
        n = todo.pop()
        yield n
        if isinstance(n, (ast.FunctionDef, ast.AsyncFunctionDef, ast.ClassDef)):
            continue
        todo.extend(ast.iter_child_nodes(n))


# --------------------------------------------------------------------------- CFG

class Node(object):
    __slots__ = ('id', 'kind', 'ast', 'pol', 'loops', 'lineno', 'owner')

    def __init__(self, id, kind, astnode=None, pol=None, loops=(), owner=None):
        self.id = id
        self.kind = kind      # entry exit rexit stmt test iter assume with except
        self.ast = astnode
        self.pol = pol
        self.loops = loops    # tuple of ids of enclosing loop header nodes, outermost first
        self.owner = owner    # compound statement (If/While/For) the test/iter/assume belongs to
        self.lineno = getattr(astnode, 'lineno', 0)

    def __repr__(self):
        txt = ''
        if self.ast is not None:
            try:
                txt = ast.unparse(self.ast).split('\n')[0][:60]
            except Exception:
                txt = '?'
        return '<%d %s%s %s>' % (self.id, self.kind,
                                 '' if self.pol is None else ('+' if self.pol else '-'), txt)


def split_assumes(expr, pol):
    """Decompose a branch condition into the atomic facts that certainly hold on that branch."""
    if isinstance(expr, ast.UnaryOp) and isinstance(expr.op, ast.Not):
        return split_assumes(expr.operand, not pol)
    if isinstance(expr, ast.BoolOp):
        if isinstance(expr.op, ast.And) and pol:
            out = []
            for v in expr.values:
                out.extend(split_assumes(v, True))
            return out
        if isinstance(expr.op, ast.Or) and not pol:
            out = []
            for v in expr.values:
                out.extend(split_assumes(v, False))
            return out
    return [(expr, pol)]


class CFG(object):
    def __init__(self, func):
        self.func = func
        self.nodes = []
        self.succ = {}
        self.pred = {}
        self.stmt_node = {}      # ast stmt -> node id (simple stmt node, or test/iter node of compound)
        self.branch = {}         # test node id -> {True: first node of the true branch, False: ...}
        self.entry = self._new('entry')
        self.exit = self._new('exit')
        self.rexit = self._new('rexit')
        self._loops = []         # stack of (header id, break collector, continue target)
        self._handlers = []      # stack of lists of handler entry node ids
        out = self._block(func.node.body, {self.entry})
        for p in out:
            self._edge(p, self.exit)
        self._dom = None
        self._pdom = None
        self._reach_cache = {}

    # ---- construction
    def _new(self, kind, astnode=None, pol=None, owner=None):
        n = Node(len(self.nodes), kind, astnode, pol, tuple(l[0] for l in self._loops) if hasattr(self, '_loops') else (), owner)
        self.nodes.append(n)
        self.succ[n.id] = []
        self.pred[n.id] = []
        if getattr(self, '_handlers', None) and kind not in ('entry', 'exit', 'rexit'):
            for h in self._handlers[-1]:
                self._edge(n.id, h)
        return n.id

    def _edge(self, a, b):
        if b not in self.succ[a]:
            self.succ[a].append(b)
            self.pred[b].append(a)

    def _link(self, preds, n):
        for p in preds:
            self._edge(p, n)

    def _assume_chain(self, preds, expr, pol, owner):
        cur = set(preds)
        first = None
        for (e, p) in split_assumes(expr, pol):
            n = self._new('assume', e, p, owner)
            if first is None:
                first = n
            self._link(cur, n)
            cur = {n}
        # remember where each branch of a test starts: branch[test node] = {True: node, False: node}
        if len(preds) == 1:
            self.branch.setdefault(next(iter(preds)), {})[pol] = first
        return cur

    def _block(self, stmts, preds):
        cur = set(preds)
        for st in stmts:
            cur = self._stmt(st, cur)
        return cur

    def _stmt(self, st, preds):
        if isinstance(st, ast.If):
            t = self._new('test', st.test, owner=st)
            self.stmt_node[st] = t
            self._link(preds, t)
            tb = self._assume_chain({t}, st.test, True, st)
            out = self._block(st.body, tb)
            fb = self._assume_chain({t}, st.test, False, st)
            out |= self._block(st.orelse, fb)
            return out
        if isinstance(st, ast.While):
            t = self._new('test', st.test, owner=st)
            self.stmt_node[st] = t
            self._link(preds, t)
            breaks = set()
            self._loops.append((t, breaks, t))
            # nodes created from here on are inside the loop
            tb = self._assume_chain({t}, st.test, True, st)
            out = self._block(st.body, tb)
            self._link(out, t)
            self._loops.pop()
            after = set(breaks)
            const_true = isinstance(st.test, ast.Constant) and bool(st.test.value)
            if not const_true:
                fb = self._assume_chain({t}, st.test, False, st)
                after |= self._block(st.orelse, fb)
            return after
        if isinstance(st, ast.For):
            it = self._new('iter', st, owner=st)
            self.stmt_node[st] = it
            self._link(preds, it)
            breaks = set()
            self._loops.append((it, breaks, it))
            out = self._block(st.body, {it})
            self._link(out, it)
            self._loops.pop()
            after = set(breaks)
            after |= self._block(st.orelse, {it})
            return after
        if isinstance(st, ast.With):
            w = self._new('with', st, owner=st)
            self.stmt_node[st] = w
            self._link(preds, w)
            return self._block(st.body, {w})
        if isinstance(st, ast.Try):
            handler_nodes = []
            for h in st.handlers:
                hn = self._new('except', h, owner=st)
                handler_nodes.append(hn)
            # the statement before the try may not raise into it, only body nodes do
            self._handlers.append(handler_nodes)
            out = self._block(st.body, preds)
            self._handlers.pop()
            out = self._block(st.orelse, out)
            for h, hn in zip(st.handlers, handler_nodes):
                out |= self._block(h.body, {hn})
            if st.finalbody:
                out = self._block(st.finalbody, out)
            return out
        if isinstance(st, ast.Return):
            n = self._new('stmt', st)
            self.stmt_node[st] = n
            self._link(preds, n)
            self._edge(n, self.exit)
            return set()
        if isinstance(st, ast.Raise):
            n = self._new('stmt', st)
            self.stmt_node[st] = n
            self._link(preds, n)
            if not self._handlers:
                self._edge(n, self.rexit)
            return set()
        if isinstance(st, ast.Break):
            n = self._new('stmt', st)
            self.stmt_node[st] = n
            self._link(preds, n)
            if not self._loops:
                raise AnalysisError('break outside loop')
            self._loops[-1][1].add(n)
            return set()
        if isinstance(st, ast.Continue):
            n = self._new('stmt', st)
            self.stmt_node[st] = n
            self._link(preds, n)
            self._edge(n, self._loops[-1][2])
            return set()
        if isinstance(st, (ast.Match, ast.AsyncFor, ast.AsyncWith, ast.TryStar)):
            raise AnalysisError('statement kind %s not modelled (%s:%d)'
                                % (type(st).__name__, self.func.fq, st.lineno))
        # simple statement (incl. nested def/class, which are opaque)
        n = self._new('stmt', st)
        self.stmt_node[st] = n
        self._link(preds, n)
        # a call to sys.exit() ends the function
        if isinstance(st, ast.Expr) and isinstance(st.value, ast.Call):
            f = st.value.func
            if isinstance(f, ast.Attribute) and f.attr == 'exit' and isinstance(f.value, ast.Name) \
                    and f.value.id == 'sys':
                self._edge(n, self.exit)
                return set()
        return {n}

    # ---- queries
    def _dominators(self, start, succ, pred):
        ids = [n.id for n in self.nodes]
        # restrict to nodes reachable from start
        reach = set()
        todo = [start]
        while todo:
            x = todo.pop()
            if x in reach:
                continue
            reach.add(x)
            todo.extend(succ[x])
        dom = {}
        allr = set(reach)
        for i in reach:
            dom[i] = set(allr)
        dom[start] = {start}
        changed = True
        order = sorted(reach)
        while changed:
            changed = False
            for i in order:
                if i == start:
                    continue
                ps = [p for p in pred[i] if p in reach]
                if not ps:
                    continue
                new = set.intersection(*[dom[p] for p in ps]) | {i}
                if new != dom[i]:
                    dom[i] = new
                    changed = True
        return dom

    @property
    def dom(self):
        if self._dom is None:
            self._dom = self._dominators(self.entry, self.succ, self.pred)
        return self._dom

    @property
    def pdom(self):
        """Post-dominators w.r.t. the normal exit along normal control flow: edges into exception
        handlers are ignored (a statement inside `try` still post-dominates its predecessor even though
        either may raise); nodes that cannot reach the exit are absent."""
        if self._pdom is None:
            nsucc = dict((n, [s for s in ss if self.nodes[s].kind != 'except']) for n, ss in self.succ.items())
            npred = dict((n, []) for n in self.succ)
            for n, ss in nsucc.items():
                for s in ss:
                    npred[s].append(n)
            # handler entries keep their place in the graph through their own successors
            self._pdom = self._dominators(self.exit, npred, nsucc)
        return self._pdom

    def dominates(self, a, b):
        return b in self.dom and a in self.dom[b]

    def postdominates(self, a, b):
        """Every path from b to the normal exit passes a (vacuous if b cannot reach it)."""
        if b not in self.pdom:
            return True
        return a in self.pdom[b]

    def always_with(self, n, m):
        """Whenever n executes (on a run that returns normally), m executes too."""
        return self.dominates(m, n) or self.postdominates(m, n)

    def same_loop(self, a, b):
        return self.nodes[a].loops == self.nodes[b].loops

    def reach(self, a, avoid=frozenset()):
        """Nodes reachable from a's successors without entering `avoid`."""
        key = (a, frozenset(avoid))
        if key in self._reach_cache:
            return self._reach_cache[key]
        seen = set()
        todo = [s for s in self.succ[a] if s not in avoid]
        while todo:
            x = todo.pop()
            if x in seen:
                continue
            seen.add(x)
            todo.extend(s for s in self.succ[x] if s not in avoid)
        self._reach_cache[key] = seen
        return seen

    def coreach(self, b, avoid=frozenset()):
        seen = set()
        todo = [p for p in self.pred[b] if p not in avoid]
        while todo:
            x = todo.pop()
            if x in seen:
                continue
            seen.add(x)
            todo.extend(p for p in self.pred[x] if p not in avoid)
        return seen

    def between(self, a, b):
        """Nodes lying on some path from a to the next execution of b that does not pass a again
        (a, b excluded)."""
        return (self.reach(a, avoid={a, b}) & self.coreach(b, avoid={a, b})) - {a, b}

    def can_reach(self, a, b, avoid=frozenset()):
        return b in self.reach(a, avoid)

    def body_entry(self, loop):
        """First node of the body of loop header `loop`."""
        for s in self.succ[loop]:
            if loop in self.nodes[s].loops:
                return s
        raise AnalysisError('loop without body in %s' % self.func.fq)

    def in_every_iteration(self, loop, n):
        """Node n (inside loop) executes in every iteration that runs to the end of the body."""
        return loop in self.nodes[n].loops and self.postdominates(n, self.body_entry(loop))

    def assumes_at(self, n):
        """assume nodes that dominate n (facts established on every path to n)."""
        return [self.nodes[d] for d in sorted(self.dom.get(n, ())) if self.nodes[d].kind == 'assume']

    def node_of(self, astnode):
        """CFG node of the statement that contains `astnode` (an expression or statement)."""
        if astnode in self.stmt_node:
            return self.stmt_node[astnode]
        owner = self._expr_owner().get(id(astnode))
        if owner is None:
            raise AnalysisError('expression not found in CFG of %s' % self.func.fq)
        return owner

    def _expr_owner(self):
        if not hasattr(self, '_owner_map'):
            m = {}
            for n in self.nodes:
                if n.ast is None:
                    continue
                if n.kind == 'stmt':
                    for sub in ast.walk(n.ast):
                        m.setdefault(id(sub), n.id)
                elif n.kind == 'test':
                    for sub in ast.walk(n.ast):
                        m.setdefault(id(sub), n.id)
                elif n.kind == 'iter':
                    for sub in ast.walk(n.ast.iter):
                        m.setdefault(id(sub), n.id)
                    for sub in ast.walk(n.ast.target):
                        m.setdefault(id(sub), n.id)
                elif n.kind == 'with':
                    for item in n.ast.items:
                        for sub in ast.walk(item):
                            m.setdefault(id(sub), n.id)
            self._owner_map = m
        return self._owner_map

    def exprs(self, n):
        """The expression roots evaluated at node n."""
        node = self.nodes[n]
        if node.kind == 'stmt':
            return [node.ast]
        if node.kind in ('test', 'assume'):
            return [node.ast]
        if node.kind == 'iter':
            return [node.ast.iter, node.ast.target]
        if node.kind == 'with':
            return list(node.ast.items)
        return []

    def eval_nodes(self):
        """Nodes at which expressions are evaluated / statements executed (no assume nodes)."""
        return [n for n in self.nodes if n.kind in ('stmt', 'test', 'iter', 'with')]


# --------------------------------------------------------------------------- expression helpers

def unparse(e):
    return ast.unparse(e)


def path(e):
    """Canonical access-path string of Name / attr / constant-subscript chains, else None."""
    if isinstance(e, ast.Name):
        return e.id
    if isinstance(e, ast.Attribute):
        b = path(e.value)
        return None if b is None else '%s.%s' % (b, e.attr)
    if isinstance(e, ast.Subscript):
        b = path(e.value)
        if b is None:
            return None
        s = e.slice
        if isinstance(s, ast.Constant):
            return '%s[%r]' % (b, s.value)
        if isinstance(s, ast.UnaryOp) and isinstance(s.op, ast.USub) and isinstance(s.operand, ast.Constant):
            return '%s[-%r]' % (b, s.operand.value)
        if isinstance(s, ast.Name):
            return '%s[%s]' % (b, s.id)
        return '%s[%s]' % (b, ast.unparse(s))
    return None


def root_name(e):
    """The Name at the root of an access path expression, else None."""
    while isinstance(e, (ast.Attribute, ast.Subscript)):
        e = e.value
    if isinstance(e, ast.Call):
        return None
    return e.id if isinstance(e, ast.Name) else None


def names_in(e):
    return set(n.id for n in ast.walk(e) if isinstance(n, ast.Name))


def const_str(e):
    return e.value if isinstance(e, ast.Constant) and isinstance(e.value, str) else None


NEG = {ast.Lt: ast.GtE, ast.LtE: ast.Gt, ast.Gt: ast.LtE, ast.GtE: ast.Lt,
       ast.Eq: ast.NotEq, ast.NotEq: ast.Eq, ast.Is: ast.IsNot, ast.IsNot: ast.Is,
       ast.In: ast.NotIn, ast.NotIn: ast.In}
SWAP = {ast.Gt: ast.Lt, ast.GtE: ast.LtE}
OPS = {ast.Lt: '<', ast.LtE: '<=', ast.Eq: '==', ast.NotEq: '!=', ast.Is: 'is', ast.IsNot: 'is not',
       ast.In: 'in', ast.NotIn: 'not in', ast.Gt: '>', ast.GtE: '>='}


def norm_test(expr, pol=True):
    """Normal form of an atomic condition with a polarity.

    ('haskey', dict, key, pol) | ('none', path, pol[is None]) | ('truthy', path, pol)
    | ('cmp', lhs, op, rhs) with op in < <= == != | ('in', elt, container, pol)
    | ('opaque', text, pol)
    """
    while isinstance(expr, ast.UnaryOp) and isinstance(expr.op, ast.Not):
        expr = expr.operand
        pol = not pol
    if isinstance(expr, ast.Compare) and len(expr.ops) == 1:
        op = type(expr.ops[0])
        l, r = expr.left, expr.comparators[0]
        if not pol:
            op = NEG[op]
        if op in (ast.In, ast.NotIn):
            k = const_str(l)
            if k is not None and path(r) is not None:
                return ('haskey', path(r), k, op is ast.In)
            return ('in', unparse(l), unparse(r), op is ast.In)
        if op in (ast.Is, ast.IsNot, ast.Eq, ast.NotEq):
            for a, b in ((l, r), (r, l)):
                if isinstance(b, ast.Constant) and b.value is None:
                    return ('none', unparse(a), op in (ast.Is, ast.Eq))
            if op in (ast.Is, ast.IsNot):
                op = ast.Eq if op is ast.Is else ast.NotEq
        if op in SWAP:
            op = SWAP[op]
            l, r = r, l
        ls, rs = unparse(l), unparse(r)
        if op in (ast.Eq, ast.NotEq) and rs < ls and not isinstance(r, ast.Constant):
            ls, rs = rs, ls
        if op in (ast.Eq, ast.NotEq) and isinstance(l, ast.Constant) and not isinstance(r, ast.Constant):
            ls, rs = rs, ls
        return ('cmp', ls, OPS[op], rs)
    if path(expr) is not None:
        return ('truthy', path(expr), pol)
    return ('opaque', unparse(expr), pol)


def _unique_assign(func, name):
    """The value of the only assignment to local `name` in the function (None if not unique or not simple)."""
    vals = []
    for x in walk_own(func.node):
        if isinstance(x, ast.Assign):
            for t in x.targets:
                if isinstance(t, ast.Name) and t.id == name:
                    vals.append(x.value)
                elif isinstance(t, (ast.Tuple, ast.List)) and any(isinstance(e, ast.Name) and e.id == name for e in t.elts):
                    vals.append(None)
        elif isinstance(x, (ast.AugAssign, ast.AnnAssign)) and isinstance(x.target, ast.Name) and x.target.id == name:
            vals.append(None)
        elif isinstance(x, (ast.For, ast.comprehension)) and name in [y.id for y in ast.walk(x.target) if isinstance(y, ast.Name)]:
            vals.append(None)
    if len(vals) == 1 and vals[0] is not None and name not in func.params:
        return vals[0]
    return None


def _pure_value(v):
    from . import normalise as N
    return isinstance(v, ast.AST) and not isinstance(v, (ast.Constant, ast.Lambda)) and N._pure(v)


def _expand_fact(func, fa, nid, out, at=None):
    """Variants of a fact with a local that has a single, pure definition replaced by that definition
    (`gaps = gap_degree(tree)` ... `if gaps > 0`), and a boolean flag replaced by the condition it names."""
    if fa[0] == 'truthy' and fa[1].isidentifier():
        v = _unique_assign(func, fa[1])
        if isinstance(v, (ast.Compare, ast.BoolOp, ast.UnaryOp)):
            for (e, p) in split_assumes(v, fa[2]):
                out.append((norm_test(e, p), nid))
        elif _pure_value(v) or (isinstance(v, ast.Call)):
            out.append((norm_test(v, fa[2]), nid))
    elif fa[0] == 'cmp':
        for i in (1, 3):
            if fa[i].isidentifier():
                v = _unique_assign(func, fa[i])
                if v is not None and not isinstance(v, (ast.Constant, ast.Lambda)):
                    l = list(fa)
                    l[i] = unparse(v)
                    out.append((tuple(l), nid))
    elif fa[0] == 'none' and fa[1].isidentifier():
        v = _unique_assign(func, fa[1])
        if v is not None and path(v) is not None:
            out.append((('none', unparse(v), fa[2]), nid))


def facts_at(cfg, n):
    """Normal forms of the atomic conditions that hold on every path reaching node n.  A condition that
    merely tests a local flag (`if not discontinuous:`) is expanded through the flag's only definition
    (`discontinuous = 0 < gap_degree(tree)`); a comparison of a local with a single definition is also given
    with the definition substituted."""
    out = []
    for a in cfg.assumes_at(n):
        fa = norm_test(a.ast, a.pol)
        out.append((fa, a.id))
        _expand_fact(cfg.func, fa, a.id, out)
    return out


def expr_guards(func, sub):
    """Facts established *inside the same expression* before `sub` is evaluated: the earlier operands of an
    enclosing `and` (true) / `or` (false), and the test of an enclosing conditional expression."""
    parents = getattr(func, '_parents', None)
    if parents is None:
        parents = {}
        for n in ast.walk(func.node):
            for c in ast.iter_child_nodes(n):
                parents[c] = n
        func._parents = parents
    out = []
    q = sub
    while q in parents:
        pq = parents[q]
        if isinstance(pq, ast.BoolOp):
            pol = isinstance(pq.op, ast.And)
            for v in pq.values:
                if v is q:
                    break
                for (ce, p_) in split_assumes(v, pol):
                    out.append(norm_test(ce, p_))
        elif isinstance(pq, ast.IfExp):
            if q is pq.body:
                out.extend(norm_test(ce, p_) for (ce, p_) in split_assumes(pq.test, True))
            elif q is pq.orelse:
                out.extend(norm_test(ce, p_) for (ce, p_) in split_assumes(pq.test, False))
        elif isinstance(pq, (ast.ListComp, ast.SetComp, ast.GeneratorExp, ast.DictComp)):
            for g in pq.generators:
                for cond in g.ifs:
                    out.extend(norm_test(ce, p_) for (ce, p_) in split_assumes(cond, True))
        if isinstance(pq, ast.stmt):
            break
        q = pq
    return out


def facts_for(func, sub):
    """All facts known when expression node `sub` is evaluated: dominating branch conditions plus the guards
    inside its own expression."""
    cfg = func.cfg
    try:
        at = cfg.node_of(sub)
    except AnalysisError:
        return list(expr_guards(func, sub))
    return [x[0] for x in facts_at(cfg, at)] + list(expr_guards(func, sub))


MUTATORS = {'append', 'remove', 'pop', 'extend', 'insert', 'clear', 'sort', 'reverse', 'update',
            'add', 'discard', 'write', 'close', 'popleft', 'appendleft', 'setdefault'}


def writes_of(node_ast, kind='stmt'):
    """Access paths (strings) that the statement / loop header (re)binds or mutates in place.
    Coarse: assignment targets, augmented targets, del, for-targets, with-targets, and the
    receiver of a call to a well-known mutating method."""
    out = set()

    def target(t):
        if isinstance(t, (ast.Tuple, ast.List)):
            for x in t.elts:
                target(x)
        elif isinstance(t, ast.Starred):
            target(t.value)
        else:
            p = path(t)
            if p is not None:
                out.add(p)
            else:
                r = root_name(t)
                if r:
                    out.add(r + '?')
    if kind == 'iter':
        target(node_ast.target)
        return out
    if kind == 'with':
        for item in node_ast.items:
            if item.optional_vars is not None:
                target(item.optional_vars)
        return out
    st = node_ast
    if isinstance(st, ast.Assign):
        for t in st.targets:
            target(t)
    elif isinstance(st, (ast.AugAssign, ast.AnnAssign)):
        target(st.target)
    elif isinstance(st, ast.Delete):
        for t in st.targets:
            target(t)
    for sub in ast.walk(st) if isinstance(st, ast.AST) else ():
        if isinstance(sub, ast.Call) and isinstance(sub.func, ast.Attribute) \
                and sub.func.attr in MUTATORS:
            p = path(sub.func.value)
            if p is not None:
                out.add(p)
        if isinstance(sub, ast.NamedExpr):
            target(sub.target)
    return out


def kills(written, p):
    """Does a write to access path `written` invalidate the value denoted by access path p?"""
    if written.endswith('?'):
        return p == written[:-1] or p.startswith(written[:-1] + '.') or p.startswith(written[:-1] + '[')
    if p == written:
        return True
    # writing a prefix of p rebinds what p denotes
    if p.startswith(written + '.') or p.startswith(written + '['):
        return True
    return False


def node_writes(cfg, n):
    node = cfg.nodes[n]
    if node.kind == 'stmt':
        return writes_of(node.ast)
    if node.kind == 'iter':
        return writes_of(node.ast, 'iter')
    if node.kind == 'with':
        return writes_of(node.ast, 'with')
    return set()


def no_kill_between(cfg, a, b, paths):
    """No node strictly between a and b (on any a->b path) writes one of the access paths."""
    for m in cfg.between(a, b):
        for w in node_writes(cfg, m):
            for p in paths:
                if p is not None and kills(w, p):
                    return False
    return True
